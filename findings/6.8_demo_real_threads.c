/* Finding 6.8: a generic-lock cv waiter queued behind a native waiter is transferred to the nsync_mu's queue by wake_waiters;
   when nsync_mu_unlock wakes it, it re-acquires through its own lock function and never clears MU_DESIG_WAKER: later lockers sleep for ever. */
#include <stdio.h>
#include <stdlib.h>
#include <pthread.h>
#include <unistd.h>
#include "nsync.h"
static nsync_mu mu; static nsync_cv cv; static int pred; static volatile int d_done, g_in;
static void my_lock (void *v) { nsync_mu_lock ((nsync_mu *) v); }
static void my_unlock (void *v) { nsync_mu_unlock ((nsync_mu *) v); }
static void *A (void *a) { nsync_mu_lock (&mu); while (!pred) nsync_cv_wait (&cv, &mu); nsync_mu_unlock (&mu); return a; }
static void *G (void *a) { my_lock (&mu); while (!pred) nsync_cv_wait_with_deadline_generic (&cv, &mu, my_lock, my_unlock, nsync_time_no_deadline, NULL);
	g_in = 1; usleep (300000); my_unlock (&mu); return a; }
static void *D (void *a) { nsync_mu_lock (&mu); nsync_mu_unlock (&mu); d_done = 1; return a; }
int main (void) {
	pthread_t a, g, d; int i;
	pthread_create (&a, NULL, A, NULL); usleep (100000);
	pthread_create (&g, NULL, G, NULL); usleep (100000);
	nsync_mu_lock (&mu); pred = 1; nsync_cv_broadcast (&cv); nsync_mu_unlock (&mu);
	for (i = 0; i < 100 && !g_in; i++) usleep (10000);
	pthread_create (&d, NULL, D, NULL);          /* blocks while G holds the mutex */
	for (i = 0; i < 300 && !d_done; i++) usleep (10000);
	if (!d_done) { printf ("FAIL: nsync_mu_lock still blocked 3 s after the mutex was released (word=0x%x)\n", *(unsigned *) &mu); return 1; }
	printf ("PASS\n"); return 0;
}
