---- MODULE SemMC ----
(* platform/posix/src/nsync_semaphore_mutex.c (and, statement for statement, platform/c++11/src/nsync_semaphore_mutex.cc, the
   semaphore of the C++11 build): a BINARY semaphore made of a mutex, a condition variable and a word.  One label per
   pthread_mutex_lock (_lk), pthread_mutex_unlock (_ul), pthread_cond_wait / pthread_cond_timedwait (two steps: _cw releases the
   mutex and starts waiting, _wk is the return: signalled, timed out, or early, with the mutex re-acquired), pthread_cond_broadcast
   (_bc).  Plain accesses to the word happen under the mutex and belong to the step before them.  The condition variable may
   return early (spuriously with 0, or with a premature ETIMEDOUT), each early return consuming one unit of the fault budget F.
   Property C12 for this implementation: a post makes a pending or future wait return, a wait never succeeds without a post,
   ETIMEDOUT only at or after the deadline; being binary, several posts before a wait count once. *)
EXTENDS Integers, Sequences, FiniteSets, TLC, TLCExt, Json

CONSTANTS NP,        \* number of posters (threads 2..NP+1); thread 1 is the waiter
          WOps,      \* number of P calls made by the waiter
          POps,      \* number of V calls made by each poster
          Timed,     \* TRUE: the waiter calls nsync_mu_semaphore_p_with_deadline (deadline DL)
          DL, MaxNow,
          F          \* fault budget (early returns of the condition variable)

Posters == 2..(NP + 1)
Threads == 1..(NP + 1)

(* --algorithm semmc {
  variables i = 0,                 \* mc->i
            mu = 0,                \* holder of mc->mu (0 = free)
            cvw = FALSE,           \* the waiter is waiting on mc->cv
            sig = FALSE,           \* ... and a broadcast has reached it
            now = 0, faults = 0,
            vstarted = 0,          \* ghost: V calls begun
            vdone = 0,             \* ghost: V calls completed
            takes = 0,             \* ghost: successful P returns
            pending = FALSE,       \* ghost: a V has completed since the last successful P (the post a future wait must find)
            res = -1,              \* result of the waiter's last P (0 / 110 = ETIMEDOUT)
            r = 0,                 \* result of the last condition-variable wait (0 / 110)
            rr = 0;                \* the value P is about to return

  procedure P()
  {
   mp_lk:  await mu = 0; mu := self; r := 0;                                     \* mutex.c:40 / 56
   mp_1_l: if (i # 0) { goto mp_take_l; }                             \* mutex.c:41 / 58 / 67 while (mc->i == 0 ...
           else if (Timed /\ r = 110 /\ now >= DL) { goto mp_take_l; }; \* ... && (res == 0 || (res == ETIMEDOUT && deadline > now)))
   mp_cw:  cvw := TRUE; sig := FALSE; mu := 0;                        \* pthread_cond_wait / pthread_cond_timedwait: release and wait
   mp_wk:  \* the wait returns with the mutex held again
           either { await mu = 0 /\ sig; r := 0; }
           or     { await mu = 0 /\ ~sig /\ Timed /\ now >= DL; r := 110; }
           or     { await mu = 0 /\ ~sig /\ faults < F; faults := faults + 1;
                    with (e \in IF Timed THEN {0, 110} ELSE {0}) { r := e; }; };
           mu := self; cvw := FALSE; sig := FALSE;
           goto mp_1_l;
   mp_take_l:
           if (i # 0) { i := 0; rr := 0; takes := takes + 1; pending := FALSE; }   \* mutex.c:44 / 61 / 73-76
           else { rr := 110; };
   mp_ul:  mu := 0; res := rr; return;                                           \* mutex.c:45 / 78
  }

  procedure V()
  {
   mv_lk:  await mu = 0; mu := self; vstarted := vstarted + 1;        \* mutex.c:85 (i := 1 is plain, under the mutex)
           i := 1;
   mv_bc:  if (cvw) { sig := TRUE; };                                 \* mutex.c:87 pthread_cond_broadcast
   mv_ul:  mu := 0; vdone := vdone + 1; pending := TRUE; return;      \* mutex.c:88
  }

  process (w = 1)
    variables n = 0;
  {
   c0: while (n < WOps) { n := n + 1; call P(); };
  }

  process (p \in Posters)
    variables m = 0;
  {
   d0: while (m < POps) { m := m + 1; call V(); };
  }
} *)
\* BEGIN TRANSLATION
VARIABLES pc, i, mu, cvw, sig, now, faults, vstarted, vdone, takes, pending, 
          res, r, rr, stack, n, m

vars == << pc, i, mu, cvw, sig, now, faults, vstarted, vdone, takes, pending, 
           res, r, rr, stack, n, m >>

ProcSet == {1} \cup (Posters)

Init == (* Global variables *)
        /\ i = 0
        /\ mu = 0
        /\ cvw = FALSE
        /\ sig = FALSE
        /\ now = 0
        /\ faults = 0
        /\ vstarted = 0
        /\ vdone = 0
        /\ takes = 0
        /\ pending = FALSE
        /\ res = -1
        /\ r = 0
        /\ rr = 0
        (* Process w *)
        /\ n = 0
        (* Process p *)
        /\ m = [self \in Posters |-> 0]
        /\ stack = [self \in ProcSet |-> << >>]
        /\ pc = [self \in ProcSet |-> CASE self = 1 -> "c0"
                                        [] self \in Posters -> "d0"]

mp_lk(self) == /\ pc[self] = "mp_lk"
               /\ mu = 0
               /\ mu' = self
               /\ r' = 0
               /\ pc' = [pc EXCEPT ![self] = "mp_1_l"]
               /\ UNCHANGED << i, cvw, sig, now, faults, vstarted, vdone, 
                               takes, pending, res, rr, stack, n, m >>

mp_1_l(self) == /\ pc[self] = "mp_1_l"
                /\ IF i # 0
                      THEN /\ pc' = [pc EXCEPT ![self] = "mp_take_l"]
                      ELSE /\ IF Timed /\ r = 110 /\ now >= DL
                                 THEN /\ pc' = [pc EXCEPT ![self] = "mp_take_l"]
                                 ELSE /\ pc' = [pc EXCEPT ![self] = "mp_cw"]
                /\ UNCHANGED << i, mu, cvw, sig, now, faults, vstarted, vdone, 
                                takes, pending, res, r, rr, stack, n, m >>

mp_cw(self) == /\ pc[self] = "mp_cw"
               /\ cvw' = TRUE
               /\ sig' = FALSE
               /\ mu' = 0
               /\ pc' = [pc EXCEPT ![self] = "mp_wk"]
               /\ UNCHANGED << i, now, faults, vstarted, vdone, takes, pending, 
                               res, r, rr, stack, n, m >>

mp_wk(self) == /\ pc[self] = "mp_wk"
               /\ \/ /\ mu = 0 /\ sig
                     /\ r' = 0
                     /\ UNCHANGED faults
                  \/ /\ mu = 0 /\ ~sig /\ Timed /\ now >= DL
                     /\ r' = 110
                     /\ UNCHANGED faults
                  \/ /\ mu = 0 /\ ~sig /\ faults < F
                     /\ faults' = faults + 1
                     /\ \E e \in IF Timed THEN {0, 110} ELSE {0}:
                          r' = e
               /\ mu' = self
               /\ cvw' = FALSE
               /\ sig' = FALSE
               /\ pc' = [pc EXCEPT ![self] = "mp_1_l"]
               /\ UNCHANGED << i, now, vstarted, vdone, takes, pending, res, 
                               rr, stack, n, m >>

mp_take_l(self) == /\ pc[self] = "mp_take_l"
                   /\ IF i # 0
                         THEN /\ i' = 0
                              /\ rr' = 0
                              /\ takes' = takes + 1
                              /\ pending' = FALSE
                         ELSE /\ rr' = 110
                              /\ UNCHANGED << i, takes, pending >>
                   /\ pc' = [pc EXCEPT ![self] = "mp_ul"]
                   /\ UNCHANGED << mu, cvw, sig, now, faults, vstarted, vdone, 
                                   res, r, stack, n, m >>

mp_ul(self) == /\ pc[self] = "mp_ul"
               /\ mu' = 0
               /\ res' = rr
               /\ pc' = [pc EXCEPT ![self] = Head(stack[self]).pc]
               /\ stack' = [stack EXCEPT ![self] = Tail(stack[self])]
               /\ UNCHANGED << i, cvw, sig, now, faults, vstarted, vdone, 
                               takes, pending, r, rr, n, m >>

P(self) == mp_lk(self) \/ mp_1_l(self) \/ mp_cw(self) \/ mp_wk(self)
              \/ mp_take_l(self) \/ mp_ul(self)

mv_lk(self) == /\ pc[self] = "mv_lk"
               /\ mu = 0
               /\ mu' = self
               /\ vstarted' = vstarted + 1
               /\ i' = 1
               /\ pc' = [pc EXCEPT ![self] = "mv_bc"]
               /\ UNCHANGED << cvw, sig, now, faults, vdone, takes, pending, 
                               res, r, rr, stack, n, m >>

mv_bc(self) == /\ pc[self] = "mv_bc"
               /\ IF cvw
                     THEN /\ sig' = TRUE
                     ELSE /\ TRUE
                          /\ sig' = sig
               /\ pc' = [pc EXCEPT ![self] = "mv_ul"]
               /\ UNCHANGED << i, mu, cvw, now, faults, vstarted, vdone, takes, 
                               pending, res, r, rr, stack, n, m >>

mv_ul(self) == /\ pc[self] = "mv_ul"
               /\ mu' = 0
               /\ vdone' = vdone + 1
               /\ pending' = TRUE
               /\ pc' = [pc EXCEPT ![self] = Head(stack[self]).pc]
               /\ stack' = [stack EXCEPT ![self] = Tail(stack[self])]
               /\ UNCHANGED << i, cvw, sig, now, faults, vstarted, takes, res, 
                               r, rr, n, m >>

V(self) == mv_lk(self) \/ mv_bc(self) \/ mv_ul(self)

c0 == /\ pc[1] = "c0"
      /\ IF n < WOps
            THEN /\ n' = n + 1
                 /\ stack' = [stack EXCEPT ![1] = << [ procedure |->  "P",
                                                       pc        |->  "c0" ] >>
                                                   \o stack[1]]
                 /\ pc' = [pc EXCEPT ![1] = "mp_lk"]
            ELSE /\ pc' = [pc EXCEPT ![1] = "Done"]
                 /\ UNCHANGED << stack, n >>
      /\ UNCHANGED << i, mu, cvw, sig, now, faults, vstarted, vdone, takes, 
                      pending, res, r, rr, m >>

w == c0

d0(self) == /\ pc[self] = "d0"
            /\ IF m[self] < POps
                  THEN /\ m' = [m EXCEPT ![self] = m[self] + 1]
                       /\ stack' = [stack EXCEPT ![self] = << [ procedure |->  "V",
                                                                pc        |->  "d0" ] >>
                                                            \o stack[self]]
                       /\ pc' = [pc EXCEPT ![self] = "mv_lk"]
                  ELSE /\ pc' = [pc EXCEPT ![self] = "Done"]
                       /\ UNCHANGED << stack, m >>
            /\ UNCHANGED << i, mu, cvw, sig, now, faults, vstarted, vdone, 
                            takes, pending, res, r, rr, n >>

p(self) == d0(self)

(* Allow infinite stuttering to prevent deadlock on termination. *)
Terminating == /\ \A self \in ProcSet: pc[self] = "Done"
               /\ UNCHANGED vars

Next == w
           \/ (\E self \in ProcSet: P(self) \/ V(self))
           \/ (\E self \in Posters: p(self))
           \/ Terminating

Spec == Init /\ [][Next]_vars

Termination == <>(\A self \in ProcSet: pc[self] = "Done")

\* END TRANSLATION

LocalLabels == {"mp_1_l", "mp_take_l"}
Tick == /\ now < MaxNow
        /\ now' = now + 1
        /\ UNCHANGED <<pc, i, mu, cvw, sig, faults, vstarted, vdone, takes, pending, res, r, rr, stack, n, m>>
Step(self) == P(self) \/ V(self) \/ (IF self = 1 THEN w ELSE p(self))
LocalPending == {u \in Threads : pc[u] \in LocalLabels}
NextU == IF LocalPending # {} THEN Step(CHOOSE u \in LocalPending : TRUE)
         ELSE (\E self \in Threads : Step(self)) \/ Tick
SpecU == Init /\ [][NextU]_vars
FairSpecU == SpecU /\ \A t \in Threads : WF_vars(Step(t)) /\ WF_vars(Tick)

Binary == i \in {0, 1}
NoFreeSuccess == takes <= vstarted                    \* a wait never succeeds without a post
TimeoutHonest == (res = 110) => now >= DL             \* ETIMEDOUT only at or after the deadline
AllDone == \A t \in Threads : pc[t] = "Done"
\* a completed post is found by a pending or future wait: the waiter never sits in the condition variable, un-signalled, with the word at 1
NoLostPost == (cvw /\ ~sig /\ mu = 0) => i = 0
PendingIsVisible == (pending /\ mu = 0) => i = 1
\* once the posters are done, the waiter is not left asleep on a posted semaphore
Stuck == ~AllDone /\ ~ENABLED NextU
NoStuck == Stuck => (i = 0 /\ pc[1] = "mp_wk" /\ ~Timed /\ \A t \in Posters : pc[t] = "Done")
WaiterReturns == (\A t \in Posters : pc[t] = "Done") /\ pending ~> (pc[1] = "Done" \/ ~pending)

BadSet == {x \in {"Binary", "NoFreeSuccess", "TimeoutHonest", "NoLostPost", "PendingIsVisible"} :
             \/ (x = "Binary" /\ ~Binary) \/ (x = "NoFreeSuccess" /\ ~NoFreeSuccess) \/ (x = "TimeoutHonest" /\ ~TimeoutHonest)
             \/ (x = "NoLostPost" /\ ~NoLostPost) \/ (x = "PendingIsVisible" /\ ~PendingIsVisible)}
Actor == IF \E a \in Threads : pc[a] # pc'[a] THEN CHOOSE a \in Threads : pc[a] # pc'[a] ELSE 0
Obs == [i |-> i', mu |-> mu', cvw |-> cvw', sig |-> sig', now |-> now', res |-> res', r |-> r',
        bad |-> BadSet', done |-> (AllDone' \/ (i' = 0 /\ pc'[1] = "mp_wk" /\ ~Timed /\ \A t \in Posters : pc'[t] = "Done"))]
Edge == (vars # vars') =>
          PrintT(ToJson(<<"E", TLCFP(vars), TLCFP(<<vars, 1>>), TLCFP(vars'), TLCFP(<<vars', 1>>),
                          Actor, IF Actor = 0 THEN "Tick" ELSE pc[Actor], Obs>>))
InitPrint == (TLCGet("level") = 1) => PrintT(ToJson(<<"I", TLCFP(vars), TLCFP(<<vars, 1>>)>>))
====
