---- MODULE TimeA ----
(* The laws of Time.tla (nsync_time_add / sub / cmp, ms / us) for the radix of the code, R = 10^9, and ALL integer seconds and all
   nanoseconds in 0..R-1: discharged symbolically by Apalache (TLC checks them exhaustively for a small radix and evaluates a grid).
   The operators are the ones of Time.tla, written over separate seconds / nanoseconds so that Apalache needs no record types. *)
EXTENDS Integers

R == 1000000000

VARIABLES
  \* @type: Int;
  as,
  \* @type: Int;
  an,
  \* @type: Int;
  bs,
  \* @type: Int;
  bn,
  \* @type: Int;
  u

Init == /\ as \in Int /\ bs \in Int /\ an \in Int /\ bn \in Int /\ u \in Int
        /\ 0 <= an /\ an < R /\ 0 <= bn /\ bn < R /\ 0 <= u /\ u < 4294967296
Next == UNCHANGED <<as, an, bs, bn, u>>

\* nsync_time_add
AddS == IF an + bn >= R THEN as + bs + 1 ELSE as + bs
AddN == IF an + bn >= R THEN an + bn - R ELSE an + bn
\* nsync_time_sub
SubS == IF an < bn THEN as - bs - 1 ELSE as - bs
SubN == IF an < bn THEN (an + R) - bn ELSE an - bn
Sgn(x, y) == IF x > y THEN 1 ELSE IF x < y THEN -1 ELSE 0
\* nsync_time_cmp
Cmp(xs, xn, ys, yn) == IF Sgn(xs, ys) # 0 THEN Sgn(xs, ys) ELSE Sgn(xn, yn)
Val(s, n) == s * R + n
\* (a + b) - b
BackS == IF AddN < bn THEN AddS - bs - 1 ELSE AddS - bs
BackN == IF AddN < bn THEN (AddN + R) - bn ELSE AddN - bn
\* nsync_time_ms / nsync_time_us
MsS == u \div 1000
MsN == 1000000 * (u % 1000)
UsS == u \div 1000000
UsN == 1000 * (u % 1000000)

Laws == /\ 0 <= AddN /\ AddN < R /\ Val(AddS, AddN) = Val(as, an) + Val(bs, bn)
        /\ 0 <= SubN /\ SubN < R /\ Val(SubS, SubN) = Val(as, an) - Val(bs, bn)
        /\ BackS = as /\ BackN = an
        /\ Cmp(as, an, bs, bn) = Sgn(Val(as, an), Val(bs, bn))
        /\ Cmp(as, an, bs, bn) = -Cmp(bs, bn, as, an)
        /\ ((Cmp(as, an, bs, bn) = 0) <=> (as = bs /\ an = bn))
        /\ (as >= 0 => Cmp(0, 0, as, an) <= 0)
        /\ 0 <= MsN /\ MsN < R /\ Val(MsS, MsN) = u * 1000000
        /\ 0 <= UsN /\ UsN < R /\ Val(UsS, UsN) = u * 1000
====
