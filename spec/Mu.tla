---- MODULE Mu ----
(* nsync_mu / nsync_cv / conditional critical sections / nsync_wait_n on a cv / debug state,
   transcribed from internal/{mu.c,mu_wait.c,cv.c,wait.c,sem_wait.c,debug.c} with ONE LABEL PER
   SHARED OPERATION (each ATM_LOAD / ATM_CAS / ATM_STORE, each semaphore P/V, each call of
   nsync_spin_delay_, each client step), in source order.  Label names: <fn>_<k>_<kind>,
   kind in ld / cas / st / p / pd / v / d (spin delay) / r (atomic region) / l (local step, no
   shared operation: taken eagerly, see NextU).  The mutex word is the same integer the C code
   manipulates; masks, the lock_type tables and LONG_WAIT_THRESHOLD are constants read from the
   build under test.  Queues are sequences (justified by Dll.tla), the semaphore an abstract
   counter (justified by Sem.tla), the cancellation note an atomic flag with a set of
   registered waiters (justified by Note.tla).
   Properties C01 C02 C04 C05 C06 C13 C14 C16; see DESIGN.md section 4. *)
EXTENDS Integers, Sequences, FiniteSets, TLC, TLCExt, Bitwise, Json

CONSTANTS N,          \* threads 1..N
          Prog,       \* Prog[t] = sequence of client operations (records), see "client" below
          Conds,      \* Conds[c] = [f, v, eq, cell]: condition c calls function f on argument v; eq: has a condition_arg_eq
          NV,         \* number of client data cells
          MaxNow,     \* the clock runs 0..MaxNow
          Binary,     \* semaphore flavour: TRUE = binary (V sets 1), FALSE = counting
          K,          \* LONG_WAIT_THRESHOLD
          SB,         \* saturation bound of the ghost sleep counter
          WLOCK, SPIN, WAITING, DESIG, CONDB, WRW, LONGW, ALLF, RLOCK,    \* bits of mu.word (common.h)
          WZLO, WZHI, RZLO, RZHI,     \* MU_WZERO_TO_ACQUIRE / MU_RZERO_TO_ACQUIRE: low bits, and whether the reader field is included
          LTW, LTR,   \* lock_type tables as records [zlo, zhi, add, sww, coa, cour]
          TaFix,      \* mu_wait.c: the stores that end mu_try_acquire_after_timeout_or_cancel keep MU_WRITER_WAITING cleared (TRUE, after the
                      \* fix) or put back the word loaded before the acquiring CAS, resurrecting the bit (FALSE: known defect 6.7)
          TaWoke,     \* mu_wait.c: a thread spinning in mu_try_acquire_after_timeout_or_cancel that finds it has been woken stops honouring
                      \* MU_LONG_WAIT (TRUE, after the fix), or keeps honouring it: as designated waker it then spins for ever while the long
                      \* waiter sleeps (FALSE: defect 6.9)
          MwFix,      \* mu_wait.c: when nsync_mu_wait_with_deadline releases the mutex it reads the designated-waker bit from the word it releases
                      \* (TRUE, after the fix) or trusts what it saw when it queued itself (FALSE: defect 6.10, a reader-mode waiter releases
                      \* the last read lock without waking anybody)
          GenFix,     \* cv.c wake_waiters transfers to the mutex queue only waiters that wait with that nsync_mu itself (TRUE, after the fix) or
                      \* every waiter struct behind the first one, including generic-lock waiters (cv_mu = NULL), which re-acquire through
                      \* their own lock routine and never clear MU_DESIG_WAKER (FALSE: defect 6.8)
          CvFix,      \* cv.c wakes nsync_wait_n records under the cv spinlock (TRUE, after the fix) or in wake_waiters (FALSE)
          DbgFixed,   \* debug.c releases the spinlock by CAS loop (TRUE) or by a plain store of the stale word (FALSE)
          Loopers     \* threads whose program restarts for ever (C14 bargers)

Threads == 1..N
Waiters == 1..N                                      \* waiter structs (at most one per thread is ever needed at this layer)
ETIMEDOUT == 110
ECANCELED == 125
CVSPIN == 1
CVNE == 2

RF(w) == (w \div RLOCK) * RLOCK                      \* w & MU_RLOCK_FIELD
Clr(w, m) == w - (w & m)                             \* w & ~m  (m within the low bits)
AndZ(w, zlo, zhi) == (w & zlo) + (IF zhi THEN RF(w) ELSE 0)
AnyLock(w) == (w & WLOCK) + RF(w)                    \* w & MU_ANY_LOCK
LT(lt) == IF lt = 1 THEN LTW ELSE LTR                \* 1 = nsync_writer_type_, 2 = nsync_reader_type_
Add(lt) == LT(lt).add
SetV(s) == IF Binary THEN 1 ELSE s + 1               \* nsync_mu_semaphore_v
Expired(dl, now) == dl > 0 /\ now >= dl

\* ---- conditions (wait_condition_s) ----
CondEq(a, b) == /\ a # 0 /\ b # 0
                /\ Conds[a].f = Conds[b].f
                /\ (Conds[a].v = Conds[b].v \/ (Conds[a].eq /\ Conds[a].cell = Conds[b].cell))
CondTrue(c, data) == data[Conds[c].cell] # 0

\* ---- same_condition rings (pointer level, as in Dll.tla) ----
SpliceR(nx, pv, p, n) ==
  LET p2 == nx[p]  nl == pv[n]
      nx1 == [nx EXCEPT ![p] = n]   pv1 == [pv EXCEPT ![n] = p]
      nx2 == [nx1 EXCEPT ![nl] = p2]  pv2 == [pv1 EXCEPT ![p2] = nl]
  IN [n |-> nx2, p |-> pv2]
\* nsync_maybe_merge_conditions_ (p, n); p or n = 0 means NULL
Merge(R, wc, p, n) == IF p # 0 /\ n # 0 /\ CondEq(wc[p], wc[n]) THEN SpliceR(R.n, R.p, p, n) ELSE R
First(q) == IF q = <<>> THEN 0 ELSE q[1]
Last(q) == IF q = <<>> THEN 0 ELSE q[Len(q)]
IndexOf(q, e) == CHOOSE i \in 1..Len(q) : q[i] = e
InQ(q, e) == \E i \in 1..Len(q) : q[i] = e
Without(q, e) == IF ~InQ(q, e) THEN q ELSE LET i == IndexOf(q, e) IN SubSeq(q, 1, i - 1) \o SubSeq(q, i + 1, Len(q))
\* raw circular neighbours in the dll
CPrev(q, i) == IF i > 1 THEN q[i - 1] ELSE q[Len(q)]
CNext(q, i) == IF i < Len(q) THEN q[i + 1] ELSE q[1]
\* nsync_remove_from_mu_queue_ (q, e) without the remove_count increment: new queue and rings
RemoveQ(q, R, wc, e) ==
  LET i == IndexOf(q, e)  prev == CPrev(q, i)  next == CNext(q, i)  q2 == Without(q, e)
  IN IF q2 = <<>> THEN [q |-> q2, R |-> R]
     ELSE IF R.n[e] # e
          THEN [q |-> q2, R |-> [n |-> [R.n EXCEPT ![R.p[e]] = R.n[e], ![e] = e],
                                  p |-> [R.p EXCEPT ![R.n[e]] = R.p[e], ![e] = e]]]
          ELSE IF prev # Last(q2) THEN [q |-> q2, R |-> Merge(R, wc, prev, next)]
               ELSE [q |-> q2, R |-> R]

\* The inner scan of nsync_mu_unlock_slow_ (mu.c:344-377) over the private list l starting at
\* index i: which waiters are unlinked for waking, the remaining list, wake type, set_on_release.
RECURSIVE Scan(_, _, _, _, _, _, _, _, _, _)
Scan(l, i, wake, wty, sor, R, wc, wl, data, tc) ==
  IF i = 0 \/ i > Len(l) \/ wty = 1 THEN [l |-> l, wake |-> wake, wty |-> wty, sor |-> sor, R |-> R,
                                          more |-> (i # 0 /\ i <= Len(l))]
  ELSE LET p == l[i]
           has == wc[p] # 0
       IN IF has /\ tc /\ ~CondTrue(wc[p], data)
            THEN \* skip_past_same_condition
                 LET lastsc == R.p[p]
                     nxt == IF lastsc # p /\ lastsc # CPrev(l, i)
                              THEN (IF IndexOf(l, lastsc) < Len(l) THEN IndexOf(l, lastsc) + 1 ELSE 0)
                              ELSE (IF i < Len(l) THEN i + 1 ELSE 0)
                 IN Scan(l, nxt, wake, wty, sor, R, wc, wl, data, tc)
          ELSE IF wty = 0 \/ wl[p] = 2
            THEN LET r == RemoveQ(l, R, wc, p)
                 IN Scan(r.q, IF i <= Len(r.q) THEN i ELSE 0, Append(wake, p), wl[p], sor, r.R, wc, wl, data, tc)
          ELSE Scan(l, IF i < Len(l) THEN i + 1 ELSE 0, wake, wty, Clr(sor | WRW, ALLF), R, wc, wl, data, tc)

\* ---- cv helpers ----
IsMuCv(x) == x > 0                  \* cv queue entries: t = thread t's pooled waiter; -t = thread t's nsync_wait_n record
Tid(x) == IF x > 0 THEN x ELSE -x
\* nsync_cv_signal: the set to wake, in order (cv.c:322-385)
RECURSIVE SigRest(_, _, _, _)
SigRest(q, wl, wokew, acc) ==
  IF q = <<>> THEN acc
  ELSE LET p == Head(q)
       IN IF IsMuCv(p) /\ wl[p] = 2 THEN SigRest(Tail(q), wl, wokew, [acc EXCEPT !.tw = Append(@, p)])
          ELSE IF ~wokew THEN SigRest(Tail(q), wl, TRUE, [acc EXCEPT !.tw = Append(@, p), !.allr = FALSE])
          ELSE SigRest(Tail(q), wl, wokew, [acc EXCEPT !.rest = Append(@, p)])
SignalPick(q, wl) ==
  LET f == Head(q)
  IN IF IsMuCv(f) /\ wl[f] = 2
       THEN SigRest(Tail(q), wl, FALSE, [tw |-> <<f>>, rest |-> <<>>, allr |-> TRUE])
       ELSE [tw |-> <<f>>, rest |-> Tail(q), allr |-> FALSE]
SelectSeq2(s, T(_)) == SelectSeq(s, T)
AllReaders(q, wl) == \A i \in 1..Len(q) : IsMuCv(q[i]) /\ wl[q[i]] = 2
\* wake_waiters' transfer decision (cv.c:80-125): which of tw move to the mutex queue
RECURSIVE XferRest(_, _, _, _, _, _)
\* cm[p]: waiter p waits with the nsync_mu itself (cv_mu = pmu); a generic-lock waiter has cv_mu = NULL and l_type = NULL (wl = 0)
XferRest(q, wl, cm, fca, fw, acc) ==
  IF q = <<>> THEN acc
  ELSE LET p == Head(q)  pw == IsMuCv(p) /\ wl[p] = 1
       IN IF ~IsMuCv(p) \/ (GenFix /\ ~cm[p]) THEN XferRest(Tail(q), wl, cm, fca, fw, [acc EXCEPT !.keep = Append(@, p)])
          ELSE IF fca \/ fw \/ pw
            THEN XferRest(Tail(q), wl, cm, fca, fw, [acc EXCEPT !.move = Append(@, p), !.tw = @ \/ pw])
            ELSE XferRest(Tail(q), wl, cm, fca, fw, [acc EXCEPT !.keep = Append(@, p), !.wr = @ \/ ~pw])
Xfer(tw, wl, cm, fca) ==
  LET f == Head(tw)  fw == wl[f] = 1
      a0 == IF fca THEN [move |-> <<f>>, keep |-> <<>>, tw |-> fw, wr |-> FALSE]
                   ELSE [move |-> <<>>, keep |-> <<f>>, tw |-> FALSE, wr |-> ~fw]
  IN XferRest(Tail(tw), wl, cm, fca, fw, a0)

(* --algorithm mu {
  variables
    word = 0, queue = <<>>,                      \* nsync_mu: word, waiters (first..last)
    cvword = 0, cvq = <<>>,                      \* nsync_cv
    waiting = [w \in Waiters |-> 0],             \* waiter.nw.waiting
    rmc = [w \in Waiters |-> 0],                 \* waiter.remove_count
    cvmu = [w \in Waiters |-> FALSE],            \* waiter.cv_mu != NULL
    wl = [w \in Waiters |-> 0],                  \* waiter.l_type: 1 writer, 2 reader
    wc = [w \in Waiters |-> 0],                  \* waiter.cond (index into Conds, 0 = none)
    sc = [n |-> [w \in Waiters |-> w], p |-> [w \in Waiters |-> w]],   \* same_condition rings
    nww = [t \in Threads |-> 0],                 \* nsync_wait_n record: waiting
    nwsem = [t \in Threads |-> 0],               \* nsync_wait_n record: sem (the waiter whose semaphore it names)
    nww2 = [t \in Threads |-> 0],                \* second record of a two-object nsync_wait_n (cv, cancel note): waiting
    nreg2 = {},                                  \* threads whose second record is registered with the note
    sem = [w \in Waiters |-> 0],
    data = [v \in 1..NV |-> 0],                  \* client cells, written under the write lock
    now = 0,
    note = FALSE, nreg = {},                     \* cancellation note: notified, registered waiters
    \* ghosts
    held = [t \in Threads |-> 0],                \* 0 / 1 write / 2 read: between acquire-return and release-call
    ret = [t \in Threads |-> -1],                \* result of the last wait operation
    sres = [t \in Threads |-> 0],                \* result of the last sem_wait / try_acquire
    picked = [t \in Threads |-> FALSE],          \* a signal/broadcast unlinked this thread's cv wait
    sleeps = [t \in Threads |-> 0],              \* semaphore sleeps inside the current lock call
    inlock = [t \in Threads |-> FALSE],          \* inside nsync_mu_lock/rlock (C14 victim accounting)
    ip = [t \in Threads |-> 1],                  \* client program counter
    mw = [t \in Threads |-> 0],                  \* the thread's cached waiter (0 = none yet): common.c waiter_for_thread
    pool = <<>>, nalloc = 0,                     \* common.c free_waiters (first..), number of waiter structs ever allocated
    nq = 0,                                      \* ghost: how many waits (cv, conditional, wait_n) have queued themselves so far (scenario gates)
    muFreed = FALSE, refs = N,  \* C13 reference-count pattern
    nwalive = [t \in Threads |-> FALSE],        \* the nsync_wait_n record of t is live (call in progress)
    taint3 = FALSE;                              \* known finding 6.3: a wait_n dequeued a record a waker had already unlinked

  define { CurOp(t) == Prog[t][ip[t]]
           GateOK(k) == nq >= k
           W(t) == mw[t]
           SemOf(x) == IF x > 0 THEN x ELSE nwsem[-x]
           ThreadOf(x) == IF x < 0 THEN -x ELSE CHOOSE u \in Threads : mw[u] = x }

  \* nsync_waiter_new_ (common.c:166-213): the thread's reserved waiter, else the head of the free pool, else a fresh struct
  macro GetWaiter() {
    if (mw[self] = 0) {
      if (pool # <<>>) { mw[self] := Head(pool); pool := Tail(pool); }
      else { mw[self] := nalloc + 1; nalloc := nalloc + 1; };
    };
  }

  \* ------------------------------------------------------------------ nsync_mu_lock_slow_ (mu.c:47-126)
  procedure lock_slow(lt, clear)
    variables old = 0, zlo = 0, zhi = FALSE, wcnt = 0, lw = 0;
  {
   ls_1_ld:  old := word;                                                        \* mu.c:65
             zlo := IF clear # 0 \/ wcnt > 0 THEN Clr(LT(lt).zlo, WRW + LONGW) ELSE LT(lt).zlo;
             zhi := LT(lt).zhi;
             \* mu.c:53-57 (plain stores at function entry; the waiter is in no queue yet)
             wl[W(self)] := lt; wc[W(self)] := 0; cvmu[W(self)] := FALSE;
             if (AndZ(old, zlo, zhi) = 0) { goto ls_2_cas; }
             else if ((old & SPIN) = 0) { goto ls_3_cas; }
             else { goto ls_d; };
   ls_d:     goto ls_1_ld;                                                       \* mu.c:124 nsync_spin_delay_
   ls_2_cas: if (word = old) {                                                   \* mu.c:69 ATM_CAS_ACQ
               word := Clr(old + Add(lt), clear + lw + LT(lt).coa);
               held[self] := lt; inlock[self] := FALSE;
               return;
             } else { goto ls_d; };
   ls_3_cas: if (word = old) {                                                   \* mu.c:75 ATM_CAS_ACQ
               word := Clr(((old | SPIN) | lw) | LT(lt).sww, clear + ALLF);
             } else { goto ls_d; };
   ls_4_st:  waiting[W(self)] := 1;                                                 \* mu.c:83 ATM_STORE
             queue := IF wcnt = 0 THEN Append(queue, W(self)) ELSE <<W(self)>> \o queue;
   ls_5_ld:  old := word;                                                        \* mu.c:36 mu_release_spinlock
   ls_6_cas: if (word = old) { word := Clr(old, SPIN); }                         \* mu.c:37 ATM_CAS_REL
             else { goto ls_5_ld; };
   ls_7_ld:  if (waiting[W(self)] # 0) { goto ls_8_p; }                             \* mu.c:102 ATM_LOAD_ACQ
             else {
               wcnt := IF wcnt > K THEN wcnt ELSE wcnt + 1;
               lw := IF wcnt = K THEN LONGW ELSE lw;                             \* (wcnt here is the incremented value)
               clear := DESIG;
               goto ls_d;
             };
   ls_8_p:   await sem[W(self)] > 0;                                                \* mu.c:103 nsync_mu_semaphore_p
             sem[W(self)] := sem[W(self)] - 1;
             sleeps[self] := IF sleeps[self] >= SB THEN SB ELSE sleeps[self] + 1;
             goto ls_7_ld;
  }

  \* ------------------------------------------------------------------ nsync_mu_unlock_slow_ (mu.c:266-454)
  procedure unlock_slow(lt)
    variables old = 0, tc = FALSE, nwl = <<>>, wtrs = <<>>, wake = <<>>, wty = 0, sor = 0, cor = 0, rmq = <<>>, late = 0;
  {
   us_1_ld:  old := word;                                                        \* mu.c:269
             tc := (old & CONDB) # 0;
             if ((old & WAITING) = 0 \/ (old & DESIG) # 0 \/ RF(old) > RLOCK
                 \/ ((old & RLOCK) # 0 /\ (old & ALLF) # 0)) { goto us_2_cas; }
             else if ((old & SPIN) = 0) { goto us_3_cas; }
             else { goto us_d; };
   us_d:     goto us_1_ld;                                                       \* mu.c:452
   us_2_cas: if (word = old) { word := Clr(old - Add(lt), LT(lt).cour); return; } \* mu.c:294 ATM_CAS_REL
             else { goto us_d; };
   us_3_cas: if (word = old) {                                                   \* mu.c:300 ATM_CAS_RELACQ
               word := ((old - (IF tc THEN Add(lt) - WLOCK ELSE Add(lt))) | SPIN) | DESIG;
               late := IF tc THEN WLOCK ELSE 0;
               nwl := queue; queue := <<>>;
               wtrs := <<>>; wake := <<>>; wty := 0; sor := ALLF;
             } else { goto us_d; };
   us_pass_l: \* top of "while (!nsync_dll_is_empty_ (new_waiters))", mu.c:326
             if (nwl = <<>>) {
               queue := wtrs;
               cor := ((SPIN + (IF wake = <<>> THEN DESIG ELSE 0)) | (IF (sor & ALLF) = 0 THEN ALLF ELSE 0))
                      | (IF wtrs = <<>> THEN ((WAITING + WRW) + CONDB) + ALLF ELSE 0);
               goto us_4_ld;
             } else {
               tc := tc /\ ~(wty = 1) /\ ~(wty = 0 /\ wl[Head(nwl)] # 2 /\ wc[Head(nwl)] = 0);
             };
   us_rel_l: if (tc) { goto us_rs_ld; } else { goto us_scan_l; };
   us_rs_ld: old := word;                                                        \* mu.c:354 mu_release_spinlock
   us_rs_cas: if (word = old) { word := Clr(old, SPIN); } else { goto us_rs_ld; };
   us_scan_l: with (r = Scan(nwl, 1, <<>>, wty, sor, sc, wc, wl, data, tc)) {
               \* conditions are evaluated here: the evaluator must hold the mutex and nobody else a write lock
               assert tc => ((word & WLOCK) # 0 /\ \A u \in Threads : held[u] = 0);
               nwl := r.l; rmq := r.wake; wake := wake \o r.wake; wty := r.wty; sc := r.R;
               sor := IF r.more THEN Clr(r.sor, ALLF) ELSE r.sor;
             };
   us_rmq_l: if (rmq = <<>>) { goto us_after_l; };
   us_rm_ld: skip;                                                               \* mu.c:244 ATM_LOAD remove_count
   us_rm_cas: rmc[Head(rmq)] := rmc[Head(rmq)] + 1;                              \* mu.c:245 ATM_CAS
             rmq := Tail(rmq);
             goto us_rmq_l;
   us_after_l: if (tc) { goto us_ts_ld; } else { goto us_merge_l; };
   us_ts_ld: old := word;                                                        \* mu.c:399 nsync_spin_test_and_set_
             if ((old & SPIN) # 0) { goto us_ts_d; };
   us_ts_cas: if (word = old) { word := old | SPIN; goto us_merge_l; } else { goto us_ts_d; };
   us_ts_d:  goto us_ts_ld;
   us_merge_l: sc := Merge(sc, wc, Last(wtrs), First(nwl));                       \* mu.c:404-411
             wtrs := wtrs \o nwl;
             nwl := queue; queue := <<>>;
             goto us_pass_l;
   us_4_ld:  old := word;                                                        \* mu.c:437
   us_5_cas: if (word = old) {                                                   \* mu.c:438 ATM_CAS_REL
               word := Clr((old - late) | sor, cor);
               if (wake = <<>>) { return; };
             } else { goto us_4_ld; };
   us_6_st:  waiting[Head(wake)] := 0;                                           \* mu.c:447 ATM_STORE_REL
   us_7_v:   sem[Head(wake)] := SetV(sem[Head(wake)]);                           \* mu.c:448 nsync_mu_semaphore_v
             if (Len(wake) = 1) { return; } else { wake := Tail(wake); goto us_6_st; };
  }

  \* ------------------------------------------------------------------ nsync_mu_lock / nsync_mu_rlock (mu.c:147-199)
  procedure mu_lock(lt)
    variables old = 0;
  {
   lk_1_cas: if (word = 0) { word := Add(lt); held[self] := lt; inlock[self] := FALSE; return; };   \* mu.c:150/187
   lk_2_ld:  if (AndZ(word, IF lt = 1 THEN WZLO ELSE RZLO, IF lt = 1 THEN WZHI ELSE RZHI) # 0) {   \* mu.c:151/188
               GetWaiter();
               call lock_slow(lt, 0); return;
             } else { old := word; };
   lk_3_cas: if (word = old) { word := Clr(old + Add(lt), LT(lt).coa); held[self] := lt; inlock[self] := FALSE; return; }   \* mu.c:153/190
             else { GetWaiter(); call lock_slow(lt, 0); return; };
  }

  \* ------------------------------------------------------------------ nsync_mu_trylock / nsync_mu_rtrylock (mu.c:131-181)
  procedure mu_trylock(lt)
    variables old = 0;
  {
   tl_1_cas: if (word = 0) { word := Add(lt); held[self] := lt; ret[self] := 1; return; };
   tl_2_ld:  if (AndZ(word, IF lt = 1 THEN WZLO ELSE RZLO, IF lt = 1 THEN WZHI ELSE RZHI) # 0) { ret[self] := 0; return; }
             else { old := word; };
   tl_3_cas: if (word = old) { word := Clr(old + Add(lt), LT(lt).coa); held[self] := lt; ret[self] := 1; return; }
             else { ret[self] := 0; return; };
  }

  \* ------------------------------------------------------------------ nsync_mu_unlock / nsync_mu_runlock / nsync_mu_unlock_without_wakeup
  procedure mu_unlock(lt, ww)
    variables old = 0;
  {
   ul_1_cas: if (word = Add(lt)) { word := 0; return; };                         \* mu.c:465/495, mu_wait.c:304
   ul_2_ld:  if (lt = 1 /\ ~ww /\ (word & (WAITING + DESIG)) = WAITING) { call unlock_slow(lt); return; }   \* mu.c:466/496
             else if (lt = 1 /\ ww /\ (word & ((WAITING + DESIG) + ALLF)) = WAITING) { call unlock_slow(lt); return; }
             else if (lt = 2 /\ (word & (WAITING + DESIG)) = WAITING /\ RF(word) = RLOCK /\ (word & ALLF) = 0) {
               call unlock_slow(lt); return;
             } else { old := word; };
   ul_3_cas: if (word = old) {                                                   \* mu.c:481/514, mu_wait.c:316
               word := IF lt = 1 THEN (IF ww THEN old - WLOCK ELSE Clr(old - WLOCK, ALLF)) ELSE old - RLOCK;
               return;
             } else { call unlock_slow(lt); return; };
  }

  \* ------------------------------------------------------------------ nsync_sem_wait_with_cancel_ (sem_wait.c)
  \* so: 0 woken, ETIMEDOUT, ECANCELED.  dl: deadline (0 = none); cn: a cancel note is supplied
  procedure sem_wait(sdl, scn)
  {
   sw_1_r:   if (~scn) { goto sw_2_pd; }
             else if (note) { sres[self] := ECANCELED; return; }                  \* sem_wait.c:39-41
             else { nreg := nreg \cup {W(self)}; };                                 \* sem_wait.c:43-56 register under note_mu
   sw_2_pd:  await sem[W(self)] > 0 \/ Expired(sdl, now);                            \* nsync_mu_semaphore_p_with_deadline
             if (sem[W(self)] > 0) { sem[W(self)] := sem[W(self)] - 1; sres[self] := 0; }
             else { sres[self] := ETIMEDOUT; };
             nreg := nreg \ {W(self)};                                              \* sem_wait.c:66-73 deregister
             return;
  }

  \* ------------------------------------------------------------------ mu_try_acquire_after_timeout_or_cancel (mu_wait.c:66-112)
  procedure try_acquire(lt, rc)
    variables old = 0, zl = WZLO;                                                \* zl: zero_to_acquire (low bits); loses MU_LONG_WAIT once woken
  {
   ta_1_ld:  old := word;                                                        \* mu_wait.c:70 / 89
             if ((AndZ(old, zl, WZHI) + (old & SPIN)) = 0) { goto ta_2_cas; }
             else if (TaWoke) { goto ta_4_ld; }
             else if ((old & (WRW + SPIN)) = 0) { goto ta_3_cas; }
             else { goto ta_d; };
   ta_2_cas: if (word = old) { word := Clr((old + LTW.add) + SPIN, LTW.coa); goto ta_5_ld; }   \* mu_wait.c:73 ATM_CAS_ACQ
             else if (TaWoke) { goto ta_4_ld; }
             else if ((old & (WRW + SPIN)) = 0) { goto ta_3_cas; }
             else { goto ta_d; };
   ta_4_ld:  if (waiting[W(self)] = 0) { zl := Clr(WZLO, LONGW); };               \* the fix of 6.9: ATM_LOAD_ACQ (&w->nw.waiting) in the loop
             if ((old & (WRW + SPIN)) = 0) { goto ta_3_cas; } else { goto ta_d; };
   ta_3_cas: if (word = old) { word := old | WRW; };                             \* mu_wait.c:85 ATM_CAS_RELACQ (result ignored)
   ta_d:     goto ta_1_ld;                                                       \* mu_wait.c:88
   ta_5_ld:  if (waiting[W(self)] = 0) { goto ta_9_st; };                           \* mu_wait.c:96
   ta_6_ld:  if (rc # rmc[W(self)]) { goto ta_9_st; }                               \* mu_wait.c:96
             else {
               with (r = RemoveQ(queue, sc, wc, W(self))) { queue := r.q; sc := r.R; };
             };
   ta_7_ld:  skip;                                                               \* mu.c:244
   ta_7_cas: rmc[W(self)] := rmc[W(self)] + 1;                                         \* mu.c:245
   ta_8_st:  waiting[W(self)] := 0;                                                 \* mu_wait.c:101 ATM_STORE
   ta_8b_st: word := (IF TaFix THEN Clr(old, LTW.coa) ELSE old) + Add(lt);       \* mu_wait.c:104 ATM_STORE_REL
             held[self] := lt; sres[self] := 1; return;
   ta_9_st:  word := IF TaFix THEN Clr(old, LTW.coa) ELSE old;                   \* mu_wait.c:108 ATM_STORE_REL
             sres[self] := 0; return;
  }

  \* ------------------------------------------------------------------ nsync_mu_wait_with_deadline (mu_wait.c:141-275)
  procedure mu_wait(c, dl, cn)
    variables old = 0, lt = 0, first = TRUE, out = 0, rc = 0, hadw = FALSE, ata = 0, so = 0, havel = FALSE;
  {
   mw_1_ld:  if ((c = 0) \/ CondTrue(c, data)) { ret[self] := 0; return; }       \* mu_wait.c:154
             else { lt := IF RF(word) # 0 THEN 2 ELSE 1; GetWaiter(); };
   mw_2_st:  waiting[W(self)] := 1;                                                 \* mu_wait.c:193 ATM_STORE
             cvmu[W(self)] := FALSE; wl[W(self)] := lt; wc[W(self)] := c;
   mw_3_ld:  rc := rmc[W(self)];                                                    \* mu_wait.c:194
   mw_4_ld:  old := word;                                                        \* mu_wait.c:197 nsync_spin_test_and_set_
             if ((old & SPIN) # 0) { goto mw_4_d; };
   mw_5_cas: if (word = old) {
               word := Clr(((old | SPIN) | WAITING) | (IF c # 0 THEN CONDB ELSE 0), ALLF);
               hadw := IF MwFix THEN (old & WAITING) # 0 ELSE (old & (DESIG + WAITING)) = WAITING;
               if (first) { sc := Merge(sc, wc, Last(queue), W(self)); queue := Append(queue, W(self)); nq := IF nq < N THEN nq + 1 ELSE nq; }
               else { sc := Merge(sc, wc, W(self), First(queue)); queue := <<W(self)>> \o queue; };
               first := FALSE;
               held[self] := 0;                                                  \* RWLOCK_RELEASE
               goto mw_6_ld;
             } else { goto mw_4_d; };
   mw_4_d:   goto mw_4_ld;
   mw_6_ld:  old := word;                                                        \* mu_wait.c:218
             ata := IF AnyLock(old - Add(lt)) = 0 /\ hadw /\ (~MwFix \/ (old & DESIG) = 0) THEN 0 ELSE Add(lt);
   mw_7_cas: if (word = old) {                                                   \* mu_wait.c:223 ATM_CAS_REL
               word := Clr(old - ata, SPIN);
               so := 0; havel := FALSE;
               if (ata = 0) { call unlock_slow(lt); };
             } else { goto mw_6_ld; };
   mw_8_ld:  if (waiting[W(self)] = 0) { goto mw_13_l; }                            \* mu_wait.c:235 ATM_LOAD_ACQ
             else if (so # 0) { goto mw_12_ld; }
             else { call sem_wait(dl, cn); };                                    \* mu_wait.c:237
   mw_9b_l:  so := sres[self];
             if (so = 0) { goto mw_12_ld; };
   mw_10_ld: if (waiting[W(self)] = 0) { goto mw_12_ld; };                          \* mu_wait.c:239
   mw_11_l:  call try_acquire(lt, rc);                                           \* mu_wait.c:242
   mw_11b_l: havel := (sres[self] = 1);
             if (havel) { out := so; };
   mw_12_ld: if (waiting[W(self)] # 0) { goto mw_12_d; } else { goto mw_8_ld; };    \* mu_wait.c:250
   mw_12_d:  goto mw_8_ld;
   mw_13_l:  if (~havel) {                                                       \* mu_wait.c:255-259
               call lock_slow(lt, DESIG);
             };
   mw_14_l:  if (out = 0 /\ ~((c = 0) \/ CondTrue(c, data))) { goto mw_2_st; }  \* mu_wait.c:260
             else { ret[self] := IF (c = 0) \/ CondTrue(c, data) THEN 0 ELSE out; return; };
  }

  \* ------------------------------------------------------------------ wake_waiters (cv.c:38-147)
  procedure wake_waiters(tw, allr)
    variables omw = 0, fca = FALSE, sorw = 0;
  {
   ww_0_l:   if (~(IsMuCv(Head(tw)) /\ cvmu[Head(tw)])) { goto ww_5_st; };
   ww_1_ld:  omw := word;                                                        \* cv.c:61
             fca := AndZ(omw, LT(wl[Head(tw)]).zlo, LT(wl[Head(tw)]).zhi) # 0;
             if (~(AnyLock(omw) # 0 /\ (omw & SPIN) = 0 /\ (fca \/ (Len(tw) > 1 /\ ~allr)))) { goto ww_5_st; };
   ww_2_cas: if (word = omw) {                                                   \* cv.c:67 ATM_CAS_ACQ
               word := Clr((omw | SPIN) | WAITING, ALLF);
               with (x = Xfer(tw, wl, cvmu, fca)) {
                 queue := queue \o x.move;
                 cvmu := [u \in Waiters |-> IF \E i \in 1..Len(x.move) : x.move[i] = u THEN FALSE ELSE cvmu[u]];
                 tw := x.keep;
                 sorw := IF x.tw /\ ~x.wr THEN WRW ELSE 0;
               };
             } else { goto ww_5_st; };
   ww_3_ld:  omw := word;                                                        \* cv.c:130
   ww_4_cas: if (word = omw) { word := Clr(omw | sorw, SPIN); } else { goto ww_3_ld; };   \* cv.c:131 ATM_CAS_REL
   ww_4b_l:  if (tw = <<>>) { return; };
   ww_5_st:  if (IsMuCv(Head(tw))) { waiting[Head(tw)] := 0; } else { nww[-Head(tw)] := 0; };   \* cv.c:144 ATM_STORE_REL
   ww_6_v:   sem[SemOf(Head(tw))] := SetV(sem[SemOf(Head(tw))]);                     \* cv.c:145
             if (Len(tw) = 1) { return; } else { tw := Tail(tw); goto ww_5_st; };
  }

  \* ------------------------------------------------------------------ nsync_cv_signal / nsync_cv_broadcast (cv.c:314-433)
  procedure cv_wake(all)
    variables old = 0, tws = <<>>, alr = FALSE, rmq = <<>>;
  {
   cs_1_ld:  if ((cvword & CVNE) = 0) { return; };                               \* cv.c:316/400 ATM_LOAD_ACQ
   cs_2_ld:  old := cvword;                                                      \* cv.c:320/406 nsync_spin_test_and_set_
             if ((old & CVSPIN) # 0) { goto cs_2_d; };
   cs_3_cas: if (cvword = old) {
               cvword := old | CVSPIN;
               if (cvq # <<>>) {
                 if (all) { tws := cvq; alr := AllReaders(cvq, wl); cvq := <<>>; }
                 else { with (x = SignalPick(cvq, wl)) { tws := x.tw; alr := x.allr; cvq := x.rest; }; };
               };
             } else { goto cs_2_d; };
   cs_3b_l:  rmq := IF CvFix THEN tws ELSE SelectSeq(tws, IsMuCv);
             picked := [u \in Threads |-> picked[u] \/ (\E i \in 1..Len(tws) : ThreadOf(tws[i]) = u)];
             tws := IF CvFix THEN SelectSeq(tws, IsMuCv) ELSE tws;               \* only pooled waiters go to wake_waiters
             goto cs_rmq_l;
   cs_2_d:   goto cs_2_ld;
   cs_rmq_l: if (rmq = <<>>) { goto cs_4_st; } else if (~IsMuCv(Head(rmq))) { goto cs_f_st; };
   cs_rm_ld: skip;                                                               \* cv.c:333/374/420 ATM_LOAD remove_count
   cs_rm_cas: rmc[Head(rmq)] := rmc[Head(rmq)] + 1;                              \* cv.c:334/376/421 ATM_CAS
             rmq := Tail(rmq);
             goto cs_rmq_l;
   cs_f_st:  nww[-Head(rmq)] := 0;                                               \* cv.c wake_non_native_waiter: ATM_STORE_REL
   cs_f_v:   sem[SemOf(Head(rmq))] := SetV(sem[SemOf(Head(rmq))]);              \* nsync_mu_semaphore_v, still under the cv spinlock
             rmq := Tail(rmq);
             goto cs_rmq_l;
   cs_4_st:  cvword := IF all THEN 0 ELSE (IF cvq = <<>> THEN Clr(old, CVNE) ELSE old);   \* cv.c:389/427 ATM_STORE_REL
             if (tws = <<>>) { return; } else { call wake_waiters(tws, alr); return; };
  }

  \* ------------------------------------------------------------------ nsync_cv_wait_with_deadline (cv.c:190-308), nsync_mu in mode lt
  procedure cv_wait(dl, cn, gen)
    variables old = 0, lt = 0, rc = 0, so = 0, out = 0;
  {
   cw_1_st:  waiting[W(self)] := 1;                                                 \* cv.c:196 ATM_STORE
             wc[W(self)] := 0; picked[self] := FALSE;
             if (gen) { cvmu[W(self)] := FALSE; wl[W(self)] := 0; lt := 1; goto cw_3_ld; };   \* a lock that is not an nsync_mu: cv.c:202-205
   cw_2_ld:  lt := IF (word & WLOCK) # 0 THEN 1 ELSE 2;                          \* cv.c:210
             cvmu[W(self)] := TRUE; wl[W(self)] := lt;
   cw_3_ld:  old := cvword;                                                      \* cv.c:228 nsync_spin_test_and_set_
             if ((old & CVSPIN) # 0) { goto cw_3_d; };
   cw_4_cas: if (cvword = old) { cvword := (old | CVSPIN) | CVNE; cvq := Append(cvq, W(self)); nq := IF nq < N THEN nq + 1 ELSE nq; goto cw_5_ld; }
             else { goto cw_3_d; };
   cw_3_d:   goto cw_3_ld;
   cw_5_ld:  rc := rmc[W(self)];                                                    \* cv.c:230
   cw_6_st:  cvword := old | CVNE;                                               \* cv.c:232 ATM_STORE_REL
             held[self] := 0; so := 0; out := 0;
             call mu_unlock(lt, FALSE);                                          \* cv.c:235-239
   cw_7_ld:  if (waiting[W(self)] = 0) { goto cw_17_l; }                            \* cv.c:244 ATM_LOAD_ACQ
             else if (so # 0) { goto cw_9_ld; }
             else { call sem_wait(dl, cn); };                                    \* cv.c:246
   cw_8b_l:  so := sres[self];
             if (so = 0) { goto cw_16_ld; };
   cw_9_ld:  if (waiting[W(self)] = 0) { goto cw_16_ld; };                          \* cv.c:249
   cw_10_ld: old := cvword;                                                      \* cv.c:252 nsync_spin_test_and_set_
             if ((old & CVSPIN) # 0) { goto cw_10_d; };
   cw_11_cas: if (cvword = old) { cvword := old | CVSPIN; goto cw_12_ld; } else { goto cw_10_d; };
   cw_10_d:  goto cw_10_ld;
   cw_12_ld: if (waiting[W(self)] = 0) { goto cw_15_st; };                          \* cv.c:259
   cw_13_ld: if (rc # rmc[W(self)]) { goto cw_15_st; }                              \* cv.c:260
             else { out := so; cvq := Without(cvq, W(self)); };
   cw_14_ld: skip;                                                               \* cv.c:270
   cw_14_cas: rmc[W(self)] := rmc[W(self)] + 1;                                        \* cv.c:271
             old := IF cvq = <<>> THEN Clr(old, CVNE) ELSE old;
   cw_14_st: waiting[W(self)] := 0;                                                 \* cv.c:275 ATM_STORE_REL
   cw_15_st: cvword := old;                                                      \* cv.c:279 ATM_STORE_REL
   cw_16_ld: if (waiting[W(self)] # 0) { goto cw_16_d; } else { goto cw_7_ld; };    \* cv.c:282
   cw_16_d:  goto cw_7_ld;
   cw_17_l:  if (~gen /\ ~cvmu[W(self)]) {                                                  \* cv.c:292 transferred to the mutex queue and woken
               call lock_slow(lt, DESIG);
             } else { call mu_lock(lt); };
   cw_18_l:  ret[self] := out; return;
  }

  \* ------------------------------------------------------------------ nsync_wait_n (mu, {cv}) (wait.c:28-100 with cv.c:454-493)
  procedure wait_n(ndl, wcn)
    variables old = 0, wq = FALSE, still2 = TRUE, cvr = FALSE;
  {
   wn_0_l:   if (~wcn) { GetWaiter(); goto wn_1_st; };                                        \* wcn: nsync_wait_n (mu, .., 2, {cv, note}); the note's functions are atomic
   wn_0_r:   if (note) { ret[self] := 1; return; } else { GetWaiter(); };                              \* regions at this layer.  wait.c:34-38: the note is ready at once (index 1)
   wn_1_st:  nww[self] := 0; picked[self] := FALSE; nwalive[self] := TRUE; nwsem[self] := W(self);                              \* wait.c:54 ATM_STORE
   wn_2_ld:  old := cvword;                                                      \* cv.c:463 nsync_spin_test_and_set_
             if ((old & CVSPIN) # 0) { goto wn_2_d; };
   wn_3_cas: if (cvword = old) { cvword := old | CVSPIN; cvq := Append(cvq, -self); nq := IF nq < N THEN nq + 1 ELSE nq; goto wn_4_st; } else { goto wn_2_d; };
   wn_2_d:   goto wn_2_ld;
   wn_4_st:  nww[self] := 1;                                                     \* cv.c:465 ATM_STORE
   wn_5_st:  cvword := old | CVNE;                                               \* cv.c:467 ATM_STORE_REL
   wn_5_l:   if (~wcn) { goto wn_5u_l; };
   wn_5a_st: nww2[self] := 0;                                                    \* wait.c:54 ATM_STORE for the second object
   wn_5b_r:  if (~note) { nww2[self] := 1; nreg2 := nreg2 \cup {self}; };        \* note_enqueue (note.c:262-277), atomic here
   wn_5u_l:  held[self] := 0;
             call mu_unlock(1, FALSE);                                           \* wait.c:62
   wn_6_ld:  cvr := (nww[self] = 0);                                              \* cv.c:456 ATM_LOAD_ACQ (cv_ready_time)
   wn_6_l:   if (~wcn) { if (cvr) { goto wn_8_ld; } else { goto wn_7_pd; }; };   \* wait.c:66-73: every object's ready time is asked, then the minimum decides
   wn_6a_r:  if (cvr \/ note) { goto wn_8_ld; };                                 \* note_ready_time
   wn_7_pd:  await sem[W(self)] > 0 \/ Expired(ndl, now);                           \* wait.c:76 nsync_mu_semaphore_p_with_deadline
             if (sem[W(self)] > 0) { sem[W(self)] := sem[W(self)] - 1; goto wn_6_ld; };
   wn_8_ld:  old := cvword;                                                      \* cv.c:475 nsync_spin_test_and_set_
             if ((old & CVSPIN) # 0) { goto wn_8_d; };
   wn_9_cas: if (cvword = old) { cvword := old | CVSPIN; goto wn_10_ld; } else { goto wn_8_d; };
   wn_8_d:   goto wn_8_ld;
   wn_10_ld: if (nww[self] = 0) { wq := FALSE; goto wn_12_st; }                  \* cv.c:476 ATM_LOAD_ACQ
             else { taint3 := taint3 \/ ~InQ(cvq, -self); cvq := Without(cvq, -self); wq := TRUE; };
   wn_11_st: nww[self] := 0;                                                     \* cv.c:478 ATM_STORE
   wn_12_st: cvword := IF cvq = <<>> THEN Clr(old, CVNE) ELSE old;               \* cv.c:485 ATM_STORE_REL
   wn_12_l:  if (~wcn) { goto wn_12u_l; };
   wn_12a_r: still2 := ~note;                                                    \* note_dequeue (note.c:279-293), atomic here
             nreg2 := nreg2 \ {self}; nww2[self] := 0;
   wn_12u_l: call mu_lock(1);                                                    \* wait.c:95
   wn_13_l:  ret[self] := IF ~wq THEN 0 ELSE IF wcn /\ ~still2 THEN 1 ELSE (IF wcn THEN 2 ELSE 1);    \* index of the first object no longer registered, or count
             nwalive[self] := FALSE; return;
  }

  \* ------------------------------------------------------------------ nsync_mu_debug_state_and_waiters (debug.c:195-223)
  procedure debug_state()
    variables dw = 0, k = 0;
  {
   db_1_ld:  if ((word & WAITING) = 0) { return; };                              \* debug.c:201
   db_2_ld:  dw := word;                                                         \* debug.c:204 nsync_spin_test_and_set_
             if ((dw & SPIN) # 0) { goto db_d; };
   db_3_cas: if (word = dw) { word := dw | SPIN; k := Len(queue); goto db_w_l; } else { goto db_d; };
   db_d:     goto db_2_ld;
   db_w_l:   if (k = 0) { goto db_rel_l; };
   db_w1_ld: skip;                                                               \* debug.c:166 ATM_LOAD waiting
   db_w2_ld: k := k - 1; goto db_w_l;                                            \* debug.c:173 ATM_LOAD remove_count
   db_rel_l: if (DbgFixed) { goto db_5_ld; } else { goto db_4_st; };
   db_4_st:  word := dw; return;                                                 \* debug.c:218 ATM_STORE_REL (&mu->word, word)
   db_5_ld:  dw := word;                                                         \* repaired: release as mu_release_spinlock does
   db_6_cas: if (word = dw) { word := Clr(dw, SPIN); return; } else { goto db_5_ld; };
  }

  \* ------------------------------------------------------------------ nsync_cv_debug_state_and_waiters (debug.c:232-256)
  procedure debug_cv()
    variables cdw = 0, ck = 0;
  {
   dc_1_ld:  if ((cvword & CVNE) = 0) { return; };                               \* debug.c:238
   dc_2_ld:  cdw := cvword;                                                      \* debug.c:241 nsync_spin_test_and_set_
             if ((cdw & CVSPIN) # 0) { goto dc_d; };
   dc_3_cas: if (cvword = cdw) { cvword := cdw | CVSPIN; ck := Len(cvq); goto dc_w_l; } else { goto dc_d; };
   dc_d:     goto dc_2_ld;
   dc_w_l:   if (ck = 0) { goto dc_4_st; };
   dc_w1_ld: skip;                                                               \* debug.c:166 ATM_LOAD waiting
   dc_w2_ld: ck := ck - 1; goto dc_w_l;                                          \* debug.c:173 ATM_LOAD remove_count
   dc_4_st:  cvword := cdw; return;                                              \* debug.c:251 ATM_STORE_REL (&cv->word, word): word is what test_and_set returned
  }

  \* ------------------------------------------------------------------ client
  \* Prog[self][ip] = [op |-> ..., lt, c, dl, cn, v, x, skip]
  process (thr \in Threads)
  {
   c0: while (TRUE) {
         if (ip[self] > Len(Prog[self]) /\ self \notin Loopers) {
           \* thread exit: waiter_destroy (common.c:143-160) returns the cached waiter to the pool
           if (mw[self] # 0) { pool := <<mw[self]>> \o pool; mw[self] := 0; };
           goto Done;
         }
         else if (ip[self] > Len(Prog[self])) { ip[self] := 1; }
         else if (CurOp(self).op = "lock") { ip[self] := ip[self] + 1; sleeps[self] := 0; inlock[self] := TRUE; call mu_lock(CurOp(self).lt); }
         else if (CurOp(self).op = "trylock") { ip[self] := ip[self] + 1; picked[self] := FALSE; call mu_trylock(CurOp(self).lt); }
         else if (CurOp(self).op = "unlock") { ip[self] := ip[self] + 1; held[self] := 0; call mu_unlock(CurOp(self).lt, FALSE); }
         else if (CurOp(self).op = "unlockww") { ip[self] := ip[self] + 1; held[self] := 0; call mu_unlock(1, TRUE); }
         else if (CurOp(self).op = "get") { ip[self] := ip[self] + 1; }                    \* client reads a cell (matters to the race detector only)
         else if (CurOp(self).op = "gate") { await GateOK(CurOp(self).x); ip[self] := ip[self] + 1; }   \* scenario device: start only once x threads are queued
         else if (CurOp(self).op = "set") { ip[self] := ip[self] + 1; data[CurOp(self).v] := CurOp(self).x; }
         else if (CurOp(self).op = "skipunless") {                                 \* after trylock
           ip[self] := IF ret[self] # 1 THEN ip[self] + 1 + CurOp(self).skip ELSE ip[self] + 1; }
         else if (CurOp(self).op = "muwait") { ip[self] := ip[self] + 1; picked[self] := FALSE; call mu_wait(CurOp(self).c, CurOp(self).dl, CurOp(self).cn); }
         else if (CurOp(self).op = "cvwait") { ip[self] := ip[self] + 1; GetWaiter(); call cv_wait(CurOp(self).dl, CurOp(self).cn, CurOp(self).x = 9); }
         else if (CurOp(self).op = "cvloop") {                                     \* while (!cell) cv_wait; gives up on timeout/cancel
           if (data[CurOp(self).v] = 0 /\ ret[self] \notin {ETIMEDOUT, ECANCELED}) { GetWaiter(); call cv_wait(CurOp(self).dl, CurOp(self).cn, CurOp(self).x = 9); }
           else { ip[self] := ip[self] + 1; ret[self] := -1; };
         }
         else if (CurOp(self).op = "waitn") { ip[self] := ip[self] + 1; picked[self] := FALSE; call wait_n(CurOp(self).dl, CurOp(self).cn); }
         else if (CurOp(self).op = "waitnloop") {
           if (data[CurOp(self).v] = 0 /\ ret[self] # 1) { picked[self] := FALSE; call wait_n(CurOp(self).dl, FALSE); }
           else { ip[self] := ip[self] + 1; ret[self] := -1; };
         }
         else if (CurOp(self).op = "signal") { ip[self] := ip[self] + 1; call cv_wake(FALSE); }
         else if (CurOp(self).op = "broadcast") { ip[self] := ip[self] + 1; call cv_wake(TRUE); }
         else if (CurOp(self).op = "debug") { ip[self] := ip[self] + 1; call debug_state(); }
         else if (CurOp(self).op = "debugcv") { ip[self] := ip[self] + 1; call debug_cv(); }
         else if (CurOp(self).op = "notify") {                                     \* nsync_note_notify of the cancel note (atomic region)
           ip[self] := ip[self] + 1;
           note := TRUE;
           sem := [u \in Waiters |-> IF u \in nreg \/ (\E t \in nreg2 : mw[t] = u) THEN SetV(sem[u]) ELSE sem[u]];
           nreg := {};
           nww2 := [t \in Threads |-> IF t \in nreg2 THEN 0 ELSE nww2[t]];
           nreg2 := {};
         }
         else if (CurOp(self).op = "decref") {                                     \* C13: last := (--refs = 0), under the lock
           ip[self] := ip[self] + 1; picked[self] := FALSE;
           ret[self] := IF refs = 1 THEN 1 ELSE 0; refs := refs - 1;
         }
         else if (CurOp(self).op = "freeiflast") { ip[self] := ip[self] + 1; if (ret[self] = 1) { muFreed := TRUE; }; }
         else { ip[self] := ip[self] + 1; };
       };
  }
} *)
\* BEGIN TRANSLATION
\* Procedure variable old of procedure lock_slow at line 192 col 15 changed to old_
\* Procedure variable old of procedure unlock_slow at line 231 col 15 changed to old_u
\* Procedure variable rmq of procedure unlock_slow at line 231 col 101 changed to rmq_
\* Procedure variable old of procedure mu_lock at line 292 col 15 changed to old_m
\* Procedure variable old of procedure mu_trylock at line 305 col 15 changed to old_mu
\* Procedure variable old of procedure mu_unlock at line 316 col 15 changed to old_mu_
\* Procedure variable old of procedure try_acquire at line 346 col 15 changed to old_t
\* Procedure variable old of procedure mu_wait at line 377 col 15 changed to old_mu_w
\* Procedure variable lt of procedure mu_wait at line 377 col 24 changed to lt_
\* Procedure variable out of procedure mu_wait at line 377 col 46 changed to out_
\* Procedure variable rc of procedure mu_wait at line 377 col 55 changed to rc_
\* Procedure variable so of procedure mu_wait at line 377 col 86 changed to so_
\* Procedure variable old of procedure cv_wake at line 448 col 15 changed to old_c
\* Procedure variable old of procedure cv_wait at line 480 col 15 changed to old_cv
\* Procedure variable lt of procedure cv_wait at line 480 col 24 changed to lt_c
\* Procedure variable rc of procedure cv_wait at line 480 col 32 changed to rc_c
\* Parameter lt of procedure lock_slow at line 191 col 23 changed to lt_l
\* Parameter lt of procedure unlock_slow at line 230 col 25 changed to lt_u
\* Parameter lt of procedure mu_lock at line 291 col 21 changed to lt_m
\* Parameter lt of procedure mu_trylock at line 304 col 24 changed to lt_mu
\* Parameter lt of procedure mu_unlock at line 315 col 23 changed to lt_mu_
\* Parameter dl of procedure mu_wait at line 376 col 24 changed to dl_
\* Parameter cn of procedure mu_wait at line 376 col 28 changed to cn_
CONSTANT defaultInitValue
VARIABLES pc, word, queue, cvword, cvq, waiting, rmc, cvmu, wl, wc, sc, nww, 
          nwsem, nww2, nreg2, sem, data, now, note, nreg, held, ret, sres, 
          picked, sleeps, inlock, ip, mw, pool, nalloc, nq, muFreed, refs, 
          nwalive, taint3, stack

(* define statement *)
CurOp(t) == Prog[t][ip[t]]
GateOK(k) == nq >= k
W(t) == mw[t]
SemOf(x) == IF x > 0 THEN x ELSE nwsem[-x]
ThreadOf(x) == IF x < 0 THEN -x ELSE CHOOSE u \in Threads : mw[u] = x

VARIABLES lt_l, clear, old_, zlo, zhi, wcnt, lw, lt_u, old_u, tc, nwl, wtrs, 
          wake, wty, sor, cor, rmq_, late, lt_m, old_m, lt_mu, old_mu, lt_mu_, 
          ww, old_mu_, sdl, scn, lt, rc, old_t, zl, c, dl_, cn_, old_mu_w, 
          lt_, first, out_, rc_, hadw, ata, so_, havel, tw, allr, omw, fca, 
          sorw, all, old_c, tws, alr, rmq, dl, cn, gen, old_cv, lt_c, rc_c, 
          so, out, ndl, wcn, old, wq, still2, cvr, dw, k, cdw, ck

vars == << pc, word, queue, cvword, cvq, waiting, rmc, cvmu, wl, wc, sc, nww, 
           nwsem, nww2, nreg2, sem, data, now, note, nreg, held, ret, sres, 
           picked, sleeps, inlock, ip, mw, pool, nalloc, nq, muFreed, refs, 
           nwalive, taint3, stack, lt_l, clear, old_, zlo, zhi, wcnt, lw, 
           lt_u, old_u, tc, nwl, wtrs, wake, wty, sor, cor, rmq_, late, lt_m, 
           old_m, lt_mu, old_mu, lt_mu_, ww, old_mu_, sdl, scn, lt, rc, old_t, 
           zl, c, dl_, cn_, old_mu_w, lt_, first, out_, rc_, hadw, ata, so_, 
           havel, tw, allr, omw, fca, sorw, all, old_c, tws, alr, rmq, dl, cn, 
           gen, old_cv, lt_c, rc_c, so, out, ndl, wcn, old, wq, still2, cvr, 
           dw, k, cdw, ck >>

ProcSet == (Threads)

Init == (* Global variables *)
        /\ word = 0
        /\ queue = <<>>
        /\ cvword = 0
        /\ cvq = <<>>
        /\ waiting = [w \in Waiters |-> 0]
        /\ rmc = [w \in Waiters |-> 0]
        /\ cvmu = [w \in Waiters |-> FALSE]
        /\ wl = [w \in Waiters |-> 0]
        /\ wc = [w \in Waiters |-> 0]
        /\ sc = [n |-> [w \in Waiters |-> w], p |-> [w \in Waiters |-> w]]
        /\ nww = [t \in Threads |-> 0]
        /\ nwsem = [t \in Threads |-> 0]
        /\ nww2 = [t \in Threads |-> 0]
        /\ nreg2 = {}
        /\ sem = [w \in Waiters |-> 0]
        /\ data = [v \in 1..NV |-> 0]
        /\ now = 0
        /\ note = FALSE
        /\ nreg = {}
        /\ held = [t \in Threads |-> 0]
        /\ ret = [t \in Threads |-> -1]
        /\ sres = [t \in Threads |-> 0]
        /\ picked = [t \in Threads |-> FALSE]
        /\ sleeps = [t \in Threads |-> 0]
        /\ inlock = [t \in Threads |-> FALSE]
        /\ ip = [t \in Threads |-> 1]
        /\ mw = [t \in Threads |-> 0]
        /\ pool = <<>>
        /\ nalloc = 0
        /\ nq = 0
        /\ muFreed = FALSE
        /\ refs = N
        /\ nwalive = [t \in Threads |-> FALSE]
        /\ taint3 = FALSE
        (* Procedure lock_slow *)
        /\ lt_l = [ self \in ProcSet |-> defaultInitValue]
        /\ clear = [ self \in ProcSet |-> defaultInitValue]
        /\ old_ = [ self \in ProcSet |-> 0]
        /\ zlo = [ self \in ProcSet |-> 0]
        /\ zhi = [ self \in ProcSet |-> FALSE]
        /\ wcnt = [ self \in ProcSet |-> 0]
        /\ lw = [ self \in ProcSet |-> 0]
        (* Procedure unlock_slow *)
        /\ lt_u = [ self \in ProcSet |-> defaultInitValue]
        /\ old_u = [ self \in ProcSet |-> 0]
        /\ tc = [ self \in ProcSet |-> FALSE]
        /\ nwl = [ self \in ProcSet |-> <<>>]
        /\ wtrs = [ self \in ProcSet |-> <<>>]
        /\ wake = [ self \in ProcSet |-> <<>>]
        /\ wty = [ self \in ProcSet |-> 0]
        /\ sor = [ self \in ProcSet |-> 0]
        /\ cor = [ self \in ProcSet |-> 0]
        /\ rmq_ = [ self \in ProcSet |-> <<>>]
        /\ late = [ self \in ProcSet |-> 0]
        (* Procedure mu_lock *)
        /\ lt_m = [ self \in ProcSet |-> defaultInitValue]
        /\ old_m = [ self \in ProcSet |-> 0]
        (* Procedure mu_trylock *)
        /\ lt_mu = [ self \in ProcSet |-> defaultInitValue]
        /\ old_mu = [ self \in ProcSet |-> 0]
        (* Procedure mu_unlock *)
        /\ lt_mu_ = [ self \in ProcSet |-> defaultInitValue]
        /\ ww = [ self \in ProcSet |-> defaultInitValue]
        /\ old_mu_ = [ self \in ProcSet |-> 0]
        (* Procedure sem_wait *)
        /\ sdl = [ self \in ProcSet |-> defaultInitValue]
        /\ scn = [ self \in ProcSet |-> defaultInitValue]
        (* Procedure try_acquire *)
        /\ lt = [ self \in ProcSet |-> defaultInitValue]
        /\ rc = [ self \in ProcSet |-> defaultInitValue]
        /\ old_t = [ self \in ProcSet |-> 0]
        /\ zl = [ self \in ProcSet |-> WZLO]
        (* Procedure mu_wait *)
        /\ c = [ self \in ProcSet |-> defaultInitValue]
        /\ dl_ = [ self \in ProcSet |-> defaultInitValue]
        /\ cn_ = [ self \in ProcSet |-> defaultInitValue]
        /\ old_mu_w = [ self \in ProcSet |-> 0]
        /\ lt_ = [ self \in ProcSet |-> 0]
        /\ first = [ self \in ProcSet |-> TRUE]
        /\ out_ = [ self \in ProcSet |-> 0]
        /\ rc_ = [ self \in ProcSet |-> 0]
        /\ hadw = [ self \in ProcSet |-> FALSE]
        /\ ata = [ self \in ProcSet |-> 0]
        /\ so_ = [ self \in ProcSet |-> 0]
        /\ havel = [ self \in ProcSet |-> FALSE]
        (* Procedure wake_waiters *)
        /\ tw = [ self \in ProcSet |-> defaultInitValue]
        /\ allr = [ self \in ProcSet |-> defaultInitValue]
        /\ omw = [ self \in ProcSet |-> 0]
        /\ fca = [ self \in ProcSet |-> FALSE]
        /\ sorw = [ self \in ProcSet |-> 0]
        (* Procedure cv_wake *)
        /\ all = [ self \in ProcSet |-> defaultInitValue]
        /\ old_c = [ self \in ProcSet |-> 0]
        /\ tws = [ self \in ProcSet |-> <<>>]
        /\ alr = [ self \in ProcSet |-> FALSE]
        /\ rmq = [ self \in ProcSet |-> <<>>]
        (* Procedure cv_wait *)
        /\ dl = [ self \in ProcSet |-> defaultInitValue]
        /\ cn = [ self \in ProcSet |-> defaultInitValue]
        /\ gen = [ self \in ProcSet |-> defaultInitValue]
        /\ old_cv = [ self \in ProcSet |-> 0]
        /\ lt_c = [ self \in ProcSet |-> 0]
        /\ rc_c = [ self \in ProcSet |-> 0]
        /\ so = [ self \in ProcSet |-> 0]
        /\ out = [ self \in ProcSet |-> 0]
        (* Procedure wait_n *)
        /\ ndl = [ self \in ProcSet |-> defaultInitValue]
        /\ wcn = [ self \in ProcSet |-> defaultInitValue]
        /\ old = [ self \in ProcSet |-> 0]
        /\ wq = [ self \in ProcSet |-> FALSE]
        /\ still2 = [ self \in ProcSet |-> TRUE]
        /\ cvr = [ self \in ProcSet |-> FALSE]
        (* Procedure debug_state *)
        /\ dw = [ self \in ProcSet |-> 0]
        /\ k = [ self \in ProcSet |-> 0]
        (* Procedure debug_cv *)
        /\ cdw = [ self \in ProcSet |-> 0]
        /\ ck = [ self \in ProcSet |-> 0]
        /\ stack = [self \in ProcSet |-> << >>]
        /\ pc = [self \in ProcSet |-> "c0"]

ls_1_ld(self) == /\ pc[self] = "ls_1_ld"
                 /\ old_' = [old_ EXCEPT ![self] = word]
                 /\ zlo' = [zlo EXCEPT ![self] = IF clear[self] # 0 \/ wcnt[self] > 0 THEN Clr(LT(lt_l[self]).zlo, WRW + LONGW) ELSE LT(lt_l[self]).zlo]
                 /\ zhi' = [zhi EXCEPT ![self] = LT(lt_l[self]).zhi]
                 /\ wl' = [wl EXCEPT ![W(self)] = lt_l[self]]
                 /\ wc' = [wc EXCEPT ![W(self)] = 0]
                 /\ cvmu' = [cvmu EXCEPT ![W(self)] = FALSE]
                 /\ IF AndZ(old_'[self], zlo'[self], zhi'[self]) = 0
                       THEN /\ pc' = [pc EXCEPT ![self] = "ls_2_cas"]
                       ELSE /\ IF (old_'[self] & SPIN) = 0
                                  THEN /\ pc' = [pc EXCEPT ![self] = "ls_3_cas"]
                                  ELSE /\ pc' = [pc EXCEPT ![self] = "ls_d"]
                 /\ UNCHANGED << word, queue, cvword, cvq, waiting, rmc, sc, 
                                 nww, nwsem, nww2, nreg2, sem, data, now, note, 
                                 nreg, held, ret, sres, picked, sleeps, inlock, 
                                 ip, mw, pool, nalloc, nq, muFreed, refs, 
                                 nwalive, taint3, stack, lt_l, clear, wcnt, lw, 
                                 lt_u, old_u, tc, nwl, wtrs, wake, wty, sor, 
                                 cor, rmq_, late, lt_m, old_m, lt_mu, old_mu, 
                                 lt_mu_, ww, old_mu_, sdl, scn, lt, rc, old_t, 
                                 zl, c, dl_, cn_, old_mu_w, lt_, first, out_, 
                                 rc_, hadw, ata, so_, havel, tw, allr, omw, 
                                 fca, sorw, all, old_c, tws, alr, rmq, dl, cn, 
                                 gen, old_cv, lt_c, rc_c, so, out, ndl, wcn, 
                                 old, wq, still2, cvr, dw, k, cdw, ck >>

ls_d(self) == /\ pc[self] = "ls_d"
              /\ pc' = [pc EXCEPT ![self] = "ls_1_ld"]
              /\ UNCHANGED << word, queue, cvword, cvq, waiting, rmc, cvmu, wl, 
                              wc, sc, nww, nwsem, nww2, nreg2, sem, data, now, 
                              note, nreg, held, ret, sres, picked, sleeps, 
                              inlock, ip, mw, pool, nalloc, nq, muFreed, refs, 
                              nwalive, taint3, stack, lt_l, clear, old_, zlo, 
                              zhi, wcnt, lw, lt_u, old_u, tc, nwl, wtrs, wake, 
                              wty, sor, cor, rmq_, late, lt_m, old_m, lt_mu, 
                              old_mu, lt_mu_, ww, old_mu_, sdl, scn, lt, rc, 
                              old_t, zl, c, dl_, cn_, old_mu_w, lt_, first, 
                              out_, rc_, hadw, ata, so_, havel, tw, allr, omw, 
                              fca, sorw, all, old_c, tws, alr, rmq, dl, cn, 
                              gen, old_cv, lt_c, rc_c, so, out, ndl, wcn, old, 
                              wq, still2, cvr, dw, k, cdw, ck >>

ls_2_cas(self) == /\ pc[self] = "ls_2_cas"
                  /\ IF word = old_[self]
                        THEN /\ word' = Clr(old_[self] + Add(lt_l[self]), clear[self] + lw[self] + LT(lt_l[self]).coa)
                             /\ held' = [held EXCEPT ![self] = lt_l[self]]
                             /\ inlock' = [inlock EXCEPT ![self] = FALSE]
                             /\ pc' = [pc EXCEPT ![self] = Head(stack[self]).pc]
                             /\ old_' = [old_ EXCEPT ![self] = Head(stack[self]).old_]
                             /\ zlo' = [zlo EXCEPT ![self] = Head(stack[self]).zlo]
                             /\ zhi' = [zhi EXCEPT ![self] = Head(stack[self]).zhi]
                             /\ wcnt' = [wcnt EXCEPT ![self] = Head(stack[self]).wcnt]
                             /\ lw' = [lw EXCEPT ![self] = Head(stack[self]).lw]
                             /\ lt_l' = [lt_l EXCEPT ![self] = Head(stack[self]).lt_l]
                             /\ clear' = [clear EXCEPT ![self] = Head(stack[self]).clear]
                             /\ stack' = [stack EXCEPT ![self] = Tail(stack[self])]
                        ELSE /\ pc' = [pc EXCEPT ![self] = "ls_d"]
                             /\ UNCHANGED << word, held, inlock, stack, lt_l, 
                                             clear, old_, zlo, zhi, wcnt, lw >>
                  /\ UNCHANGED << queue, cvword, cvq, waiting, rmc, cvmu, wl, 
                                  wc, sc, nww, nwsem, nww2, nreg2, sem, data, 
                                  now, note, nreg, ret, sres, picked, sleeps, 
                                  ip, mw, pool, nalloc, nq, muFreed, refs, 
                                  nwalive, taint3, lt_u, old_u, tc, nwl, wtrs, 
                                  wake, wty, sor, cor, rmq_, late, lt_m, old_m, 
                                  lt_mu, old_mu, lt_mu_, ww, old_mu_, sdl, scn, 
                                  lt, rc, old_t, zl, c, dl_, cn_, old_mu_w, 
                                  lt_, first, out_, rc_, hadw, ata, so_, havel, 
                                  tw, allr, omw, fca, sorw, all, old_c, tws, 
                                  alr, rmq, dl, cn, gen, old_cv, lt_c, rc_c, 
                                  so, out, ndl, wcn, old, wq, still2, cvr, dw, 
                                  k, cdw, ck >>

ls_3_cas(self) == /\ pc[self] = "ls_3_cas"
                  /\ IF word = old_[self]
                        THEN /\ word' = Clr(((old_[self] | SPIN) | lw[self]) | LT(lt_l[self]).sww, clear[self] + ALLF)
                             /\ pc' = [pc EXCEPT ![self] = "ls_4_st"]
                        ELSE /\ pc' = [pc EXCEPT ![self] = "ls_d"]
                             /\ word' = word
                  /\ UNCHANGED << queue, cvword, cvq, waiting, rmc, cvmu, wl, 
                                  wc, sc, nww, nwsem, nww2, nreg2, sem, data, 
                                  now, note, nreg, held, ret, sres, picked, 
                                  sleeps, inlock, ip, mw, pool, nalloc, nq, 
                                  muFreed, refs, nwalive, taint3, stack, lt_l, 
                                  clear, old_, zlo, zhi, wcnt, lw, lt_u, old_u, 
                                  tc, nwl, wtrs, wake, wty, sor, cor, rmq_, 
                                  late, lt_m, old_m, lt_mu, old_mu, lt_mu_, ww, 
                                  old_mu_, sdl, scn, lt, rc, old_t, zl, c, dl_, 
                                  cn_, old_mu_w, lt_, first, out_, rc_, hadw, 
                                  ata, so_, havel, tw, allr, omw, fca, sorw, 
                                  all, old_c, tws, alr, rmq, dl, cn, gen, 
                                  old_cv, lt_c, rc_c, so, out, ndl, wcn, old, 
                                  wq, still2, cvr, dw, k, cdw, ck >>

ls_4_st(self) == /\ pc[self] = "ls_4_st"
                 /\ waiting' = [waiting EXCEPT ![W(self)] = 1]
                 /\ queue' = (IF wcnt[self] = 0 THEN Append(queue, W(self)) ELSE <<W(self)>> \o queue)
                 /\ pc' = [pc EXCEPT ![self] = "ls_5_ld"]
                 /\ UNCHANGED << word, cvword, cvq, rmc, cvmu, wl, wc, sc, nww, 
                                 nwsem, nww2, nreg2, sem, data, now, note, 
                                 nreg, held, ret, sres, picked, sleeps, inlock, 
                                 ip, mw, pool, nalloc, nq, muFreed, refs, 
                                 nwalive, taint3, stack, lt_l, clear, old_, 
                                 zlo, zhi, wcnt, lw, lt_u, old_u, tc, nwl, 
                                 wtrs, wake, wty, sor, cor, rmq_, late, lt_m, 
                                 old_m, lt_mu, old_mu, lt_mu_, ww, old_mu_, 
                                 sdl, scn, lt, rc, old_t, zl, c, dl_, cn_, 
                                 old_mu_w, lt_, first, out_, rc_, hadw, ata, 
                                 so_, havel, tw, allr, omw, fca, sorw, all, 
                                 old_c, tws, alr, rmq, dl, cn, gen, old_cv, 
                                 lt_c, rc_c, so, out, ndl, wcn, old, wq, 
                                 still2, cvr, dw, k, cdw, ck >>

ls_5_ld(self) == /\ pc[self] = "ls_5_ld"
                 /\ old_' = [old_ EXCEPT ![self] = word]
                 /\ pc' = [pc EXCEPT ![self] = "ls_6_cas"]
                 /\ UNCHANGED << word, queue, cvword, cvq, waiting, rmc, cvmu, 
                                 wl, wc, sc, nww, nwsem, nww2, nreg2, sem, 
                                 data, now, note, nreg, held, ret, sres, 
                                 picked, sleeps, inlock, ip, mw, pool, nalloc, 
                                 nq, muFreed, refs, nwalive, taint3, stack, 
                                 lt_l, clear, zlo, zhi, wcnt, lw, lt_u, old_u, 
                                 tc, nwl, wtrs, wake, wty, sor, cor, rmq_, 
                                 late, lt_m, old_m, lt_mu, old_mu, lt_mu_, ww, 
                                 old_mu_, sdl, scn, lt, rc, old_t, zl, c, dl_, 
                                 cn_, old_mu_w, lt_, first, out_, rc_, hadw, 
                                 ata, so_, havel, tw, allr, omw, fca, sorw, 
                                 all, old_c, tws, alr, rmq, dl, cn, gen, 
                                 old_cv, lt_c, rc_c, so, out, ndl, wcn, old, 
                                 wq, still2, cvr, dw, k, cdw, ck >>

ls_6_cas(self) == /\ pc[self] = "ls_6_cas"
                  /\ IF word = old_[self]
                        THEN /\ word' = Clr(old_[self], SPIN)
                             /\ pc' = [pc EXCEPT ![self] = "ls_7_ld"]
                        ELSE /\ pc' = [pc EXCEPT ![self] = "ls_5_ld"]
                             /\ word' = word
                  /\ UNCHANGED << queue, cvword, cvq, waiting, rmc, cvmu, wl, 
                                  wc, sc, nww, nwsem, nww2, nreg2, sem, data, 
                                  now, note, nreg, held, ret, sres, picked, 
                                  sleeps, inlock, ip, mw, pool, nalloc, nq, 
                                  muFreed, refs, nwalive, taint3, stack, lt_l, 
                                  clear, old_, zlo, zhi, wcnt, lw, lt_u, old_u, 
                                  tc, nwl, wtrs, wake, wty, sor, cor, rmq_, 
                                  late, lt_m, old_m, lt_mu, old_mu, lt_mu_, ww, 
                                  old_mu_, sdl, scn, lt, rc, old_t, zl, c, dl_, 
                                  cn_, old_mu_w, lt_, first, out_, rc_, hadw, 
                                  ata, so_, havel, tw, allr, omw, fca, sorw, 
                                  all, old_c, tws, alr, rmq, dl, cn, gen, 
                                  old_cv, lt_c, rc_c, so, out, ndl, wcn, old, 
                                  wq, still2, cvr, dw, k, cdw, ck >>

ls_7_ld(self) == /\ pc[self] = "ls_7_ld"
                 /\ IF waiting[W(self)] # 0
                       THEN /\ pc' = [pc EXCEPT ![self] = "ls_8_p"]
                            /\ UNCHANGED << clear, wcnt, lw >>
                       ELSE /\ wcnt' = [wcnt EXCEPT ![self] = IF wcnt[self] > K THEN wcnt[self] ELSE wcnt[self] + 1]
                            /\ lw' = [lw EXCEPT ![self] = IF wcnt'[self] = K THEN LONGW ELSE lw[self]]
                            /\ clear' = [clear EXCEPT ![self] = DESIG]
                            /\ pc' = [pc EXCEPT ![self] = "ls_d"]
                 /\ UNCHANGED << word, queue, cvword, cvq, waiting, rmc, cvmu, 
                                 wl, wc, sc, nww, nwsem, nww2, nreg2, sem, 
                                 data, now, note, nreg, held, ret, sres, 
                                 picked, sleeps, inlock, ip, mw, pool, nalloc, 
                                 nq, muFreed, refs, nwalive, taint3, stack, 
                                 lt_l, old_, zlo, zhi, lt_u, old_u, tc, nwl, 
                                 wtrs, wake, wty, sor, cor, rmq_, late, lt_m, 
                                 old_m, lt_mu, old_mu, lt_mu_, ww, old_mu_, 
                                 sdl, scn, lt, rc, old_t, zl, c, dl_, cn_, 
                                 old_mu_w, lt_, first, out_, rc_, hadw, ata, 
                                 so_, havel, tw, allr, omw, fca, sorw, all, 
                                 old_c, tws, alr, rmq, dl, cn, gen, old_cv, 
                                 lt_c, rc_c, so, out, ndl, wcn, old, wq, 
                                 still2, cvr, dw, k, cdw, ck >>

ls_8_p(self) == /\ pc[self] = "ls_8_p"
                /\ sem[W(self)] > 0
                /\ sem' = [sem EXCEPT ![W(self)] = sem[W(self)] - 1]
                /\ sleeps' = [sleeps EXCEPT ![self] = IF sleeps[self] >= SB THEN SB ELSE sleeps[self] + 1]
                /\ pc' = [pc EXCEPT ![self] = "ls_7_ld"]
                /\ UNCHANGED << word, queue, cvword, cvq, waiting, rmc, cvmu, 
                                wl, wc, sc, nww, nwsem, nww2, nreg2, data, now, 
                                note, nreg, held, ret, sres, picked, inlock, 
                                ip, mw, pool, nalloc, nq, muFreed, refs, 
                                nwalive, taint3, stack, lt_l, clear, old_, zlo, 
                                zhi, wcnt, lw, lt_u, old_u, tc, nwl, wtrs, 
                                wake, wty, sor, cor, rmq_, late, lt_m, old_m, 
                                lt_mu, old_mu, lt_mu_, ww, old_mu_, sdl, scn, 
                                lt, rc, old_t, zl, c, dl_, cn_, old_mu_w, lt_, 
                                first, out_, rc_, hadw, ata, so_, havel, tw, 
                                allr, omw, fca, sorw, all, old_c, tws, alr, 
                                rmq, dl, cn, gen, old_cv, lt_c, rc_c, so, out, 
                                ndl, wcn, old, wq, still2, cvr, dw, k, cdw, ck >>

lock_slow(self) == ls_1_ld(self) \/ ls_d(self) \/ ls_2_cas(self)
                      \/ ls_3_cas(self) \/ ls_4_st(self) \/ ls_5_ld(self)
                      \/ ls_6_cas(self) \/ ls_7_ld(self) \/ ls_8_p(self)

us_1_ld(self) == /\ pc[self] = "us_1_ld"
                 /\ old_u' = [old_u EXCEPT ![self] = word]
                 /\ tc' = [tc EXCEPT ![self] = (old_u'[self] & CONDB) # 0]
                 /\ IF (old_u'[self] & WAITING) = 0 \/ (old_u'[self] & DESIG) # 0 \/ RF(old_u'[self]) > RLOCK
                       \/ ((old_u'[self] & RLOCK) # 0 /\ (old_u'[self] & ALLF) # 0)
                       THEN /\ pc' = [pc EXCEPT ![self] = "us_2_cas"]
                       ELSE /\ IF (old_u'[self] & SPIN) = 0
                                  THEN /\ pc' = [pc EXCEPT ![self] = "us_3_cas"]
                                  ELSE /\ pc' = [pc EXCEPT ![self] = "us_d"]
                 /\ UNCHANGED << word, queue, cvword, cvq, waiting, rmc, cvmu, 
                                 wl, wc, sc, nww, nwsem, nww2, nreg2, sem, 
                                 data, now, note, nreg, held, ret, sres, 
                                 picked, sleeps, inlock, ip, mw, pool, nalloc, 
                                 nq, muFreed, refs, nwalive, taint3, stack, 
                                 lt_l, clear, old_, zlo, zhi, wcnt, lw, lt_u, 
                                 nwl, wtrs, wake, wty, sor, cor, rmq_, late, 
                                 lt_m, old_m, lt_mu, old_mu, lt_mu_, ww, 
                                 old_mu_, sdl, scn, lt, rc, old_t, zl, c, dl_, 
                                 cn_, old_mu_w, lt_, first, out_, rc_, hadw, 
                                 ata, so_, havel, tw, allr, omw, fca, sorw, 
                                 all, old_c, tws, alr, rmq, dl, cn, gen, 
                                 old_cv, lt_c, rc_c, so, out, ndl, wcn, old, 
                                 wq, still2, cvr, dw, k, cdw, ck >>

us_d(self) == /\ pc[self] = "us_d"
              /\ pc' = [pc EXCEPT ![self] = "us_1_ld"]
              /\ UNCHANGED << word, queue, cvword, cvq, waiting, rmc, cvmu, wl, 
                              wc, sc, nww, nwsem, nww2, nreg2, sem, data, now, 
                              note, nreg, held, ret, sres, picked, sleeps, 
                              inlock, ip, mw, pool, nalloc, nq, muFreed, refs, 
                              nwalive, taint3, stack, lt_l, clear, old_, zlo, 
                              zhi, wcnt, lw, lt_u, old_u, tc, nwl, wtrs, wake, 
                              wty, sor, cor, rmq_, late, lt_m, old_m, lt_mu, 
                              old_mu, lt_mu_, ww, old_mu_, sdl, scn, lt, rc, 
                              old_t, zl, c, dl_, cn_, old_mu_w, lt_, first, 
                              out_, rc_, hadw, ata, so_, havel, tw, allr, omw, 
                              fca, sorw, all, old_c, tws, alr, rmq, dl, cn, 
                              gen, old_cv, lt_c, rc_c, so, out, ndl, wcn, old, 
                              wq, still2, cvr, dw, k, cdw, ck >>

us_2_cas(self) == /\ pc[self] = "us_2_cas"
                  /\ IF word = old_u[self]
                        THEN /\ word' = Clr(old_u[self] - Add(lt_u[self]), LT(lt_u[self]).cour)
                             /\ pc' = [pc EXCEPT ![self] = Head(stack[self]).pc]
                             /\ old_u' = [old_u EXCEPT ![self] = Head(stack[self]).old_u]
                             /\ tc' = [tc EXCEPT ![self] = Head(stack[self]).tc]
                             /\ nwl' = [nwl EXCEPT ![self] = Head(stack[self]).nwl]
                             /\ wtrs' = [wtrs EXCEPT ![self] = Head(stack[self]).wtrs]
                             /\ wake' = [wake EXCEPT ![self] = Head(stack[self]).wake]
                             /\ wty' = [wty EXCEPT ![self] = Head(stack[self]).wty]
                             /\ sor' = [sor EXCEPT ![self] = Head(stack[self]).sor]
                             /\ cor' = [cor EXCEPT ![self] = Head(stack[self]).cor]
                             /\ rmq_' = [rmq_ EXCEPT ![self] = Head(stack[self]).rmq_]
                             /\ late' = [late EXCEPT ![self] = Head(stack[self]).late]
                             /\ lt_u' = [lt_u EXCEPT ![self] = Head(stack[self]).lt_u]
                             /\ stack' = [stack EXCEPT ![self] = Tail(stack[self])]
                        ELSE /\ pc' = [pc EXCEPT ![self] = "us_d"]
                             /\ UNCHANGED << word, stack, lt_u, old_u, tc, nwl, 
                                             wtrs, wake, wty, sor, cor, rmq_, 
                                             late >>
                  /\ UNCHANGED << queue, cvword, cvq, waiting, rmc, cvmu, wl, 
                                  wc, sc, nww, nwsem, nww2, nreg2, sem, data, 
                                  now, note, nreg, held, ret, sres, picked, 
                                  sleeps, inlock, ip, mw, pool, nalloc, nq, 
                                  muFreed, refs, nwalive, taint3, lt_l, clear, 
                                  old_, zlo, zhi, wcnt, lw, lt_m, old_m, lt_mu, 
                                  old_mu, lt_mu_, ww, old_mu_, sdl, scn, lt, 
                                  rc, old_t, zl, c, dl_, cn_, old_mu_w, lt_, 
                                  first, out_, rc_, hadw, ata, so_, havel, tw, 
                                  allr, omw, fca, sorw, all, old_c, tws, alr, 
                                  rmq, dl, cn, gen, old_cv, lt_c, rc_c, so, 
                                  out, ndl, wcn, old, wq, still2, cvr, dw, k, 
                                  cdw, ck >>

us_3_cas(self) == /\ pc[self] = "us_3_cas"
                  /\ IF word = old_u[self]
                        THEN /\ word' = ((old_u[self] - (IF tc[self] THEN Add(lt_u[self]) - WLOCK ELSE Add(lt_u[self]))) | SPIN) | DESIG
                             /\ late' = [late EXCEPT ![self] = IF tc[self] THEN WLOCK ELSE 0]
                             /\ nwl' = [nwl EXCEPT ![self] = queue]
                             /\ queue' = <<>>
                             /\ wtrs' = [wtrs EXCEPT ![self] = <<>>]
                             /\ wake' = [wake EXCEPT ![self] = <<>>]
                             /\ wty' = [wty EXCEPT ![self] = 0]
                             /\ sor' = [sor EXCEPT ![self] = ALLF]
                             /\ pc' = [pc EXCEPT ![self] = "us_pass_l"]
                        ELSE /\ pc' = [pc EXCEPT ![self] = "us_d"]
                             /\ UNCHANGED << word, queue, nwl, wtrs, wake, wty, 
                                             sor, late >>
                  /\ UNCHANGED << cvword, cvq, waiting, rmc, cvmu, wl, wc, sc, 
                                  nww, nwsem, nww2, nreg2, sem, data, now, 
                                  note, nreg, held, ret, sres, picked, sleeps, 
                                  inlock, ip, mw, pool, nalloc, nq, muFreed, 
                                  refs, nwalive, taint3, stack, lt_l, clear, 
                                  old_, zlo, zhi, wcnt, lw, lt_u, old_u, tc, 
                                  cor, rmq_, lt_m, old_m, lt_mu, old_mu, 
                                  lt_mu_, ww, old_mu_, sdl, scn, lt, rc, old_t, 
                                  zl, c, dl_, cn_, old_mu_w, lt_, first, out_, 
                                  rc_, hadw, ata, so_, havel, tw, allr, omw, 
                                  fca, sorw, all, old_c, tws, alr, rmq, dl, cn, 
                                  gen, old_cv, lt_c, rc_c, so, out, ndl, wcn, 
                                  old, wq, still2, cvr, dw, k, cdw, ck >>

us_pass_l(self) == /\ pc[self] = "us_pass_l"
                   /\ IF nwl[self] = <<>>
                         THEN /\ queue' = wtrs[self]
                              /\ cor' = [cor EXCEPT ![self] = ((SPIN + (IF wake[self] = <<>> THEN DESIG ELSE 0)) | (IF (sor[self] & ALLF) = 0 THEN ALLF ELSE 0))
                                                              | (IF wtrs[self] = <<>> THEN ((WAITING + WRW) + CONDB) + ALLF ELSE 0)]
                              /\ pc' = [pc EXCEPT ![self] = "us_4_ld"]
                              /\ tc' = tc
                         ELSE /\ tc' = [tc EXCEPT ![self] = tc[self] /\ ~(wty[self] = 1) /\ ~(wty[self] = 0 /\ wl[Head(nwl[self])] # 2 /\ wc[Head(nwl[self])] = 0)]
                              /\ pc' = [pc EXCEPT ![self] = "us_rel_l"]
                              /\ UNCHANGED << queue, cor >>
                   /\ UNCHANGED << word, cvword, cvq, waiting, rmc, cvmu, wl, 
                                   wc, sc, nww, nwsem, nww2, nreg2, sem, data, 
                                   now, note, nreg, held, ret, sres, picked, 
                                   sleeps, inlock, ip, mw, pool, nalloc, nq, 
                                   muFreed, refs, nwalive, taint3, stack, lt_l, 
                                   clear, old_, zlo, zhi, wcnt, lw, lt_u, 
                                   old_u, nwl, wtrs, wake, wty, sor, rmq_, 
                                   late, lt_m, old_m, lt_mu, old_mu, lt_mu_, 
                                   ww, old_mu_, sdl, scn, lt, rc, old_t, zl, c, 
                                   dl_, cn_, old_mu_w, lt_, first, out_, rc_, 
                                   hadw, ata, so_, havel, tw, allr, omw, fca, 
                                   sorw, all, old_c, tws, alr, rmq, dl, cn, 
                                   gen, old_cv, lt_c, rc_c, so, out, ndl, wcn, 
                                   old, wq, still2, cvr, dw, k, cdw, ck >>

us_rel_l(self) == /\ pc[self] = "us_rel_l"
                  /\ IF tc[self]
                        THEN /\ pc' = [pc EXCEPT ![self] = "us_rs_ld"]
                        ELSE /\ pc' = [pc EXCEPT ![self] = "us_scan_l"]
                  /\ UNCHANGED << word, queue, cvword, cvq, waiting, rmc, cvmu, 
                                  wl, wc, sc, nww, nwsem, nww2, nreg2, sem, 
                                  data, now, note, nreg, held, ret, sres, 
                                  picked, sleeps, inlock, ip, mw, pool, nalloc, 
                                  nq, muFreed, refs, nwalive, taint3, stack, 
                                  lt_l, clear, old_, zlo, zhi, wcnt, lw, lt_u, 
                                  old_u, tc, nwl, wtrs, wake, wty, sor, cor, 
                                  rmq_, late, lt_m, old_m, lt_mu, old_mu, 
                                  lt_mu_, ww, old_mu_, sdl, scn, lt, rc, old_t, 
                                  zl, c, dl_, cn_, old_mu_w, lt_, first, out_, 
                                  rc_, hadw, ata, so_, havel, tw, allr, omw, 
                                  fca, sorw, all, old_c, tws, alr, rmq, dl, cn, 
                                  gen, old_cv, lt_c, rc_c, so, out, ndl, wcn, 
                                  old, wq, still2, cvr, dw, k, cdw, ck >>

us_rs_ld(self) == /\ pc[self] = "us_rs_ld"
                  /\ old_u' = [old_u EXCEPT ![self] = word]
                  /\ pc' = [pc EXCEPT ![self] = "us_rs_cas"]
                  /\ UNCHANGED << word, queue, cvword, cvq, waiting, rmc, cvmu, 
                                  wl, wc, sc, nww, nwsem, nww2, nreg2, sem, 
                                  data, now, note, nreg, held, ret, sres, 
                                  picked, sleeps, inlock, ip, mw, pool, nalloc, 
                                  nq, muFreed, refs, nwalive, taint3, stack, 
                                  lt_l, clear, old_, zlo, zhi, wcnt, lw, lt_u, 
                                  tc, nwl, wtrs, wake, wty, sor, cor, rmq_, 
                                  late, lt_m, old_m, lt_mu, old_mu, lt_mu_, ww, 
                                  old_mu_, sdl, scn, lt, rc, old_t, zl, c, dl_, 
                                  cn_, old_mu_w, lt_, first, out_, rc_, hadw, 
                                  ata, so_, havel, tw, allr, omw, fca, sorw, 
                                  all, old_c, tws, alr, rmq, dl, cn, gen, 
                                  old_cv, lt_c, rc_c, so, out, ndl, wcn, old, 
                                  wq, still2, cvr, dw, k, cdw, ck >>

us_rs_cas(self) == /\ pc[self] = "us_rs_cas"
                   /\ IF word = old_u[self]
                         THEN /\ word' = Clr(old_u[self], SPIN)
                              /\ pc' = [pc EXCEPT ![self] = "us_scan_l"]
                         ELSE /\ pc' = [pc EXCEPT ![self] = "us_rs_ld"]
                              /\ word' = word
                   /\ UNCHANGED << queue, cvword, cvq, waiting, rmc, cvmu, wl, 
                                   wc, sc, nww, nwsem, nww2, nreg2, sem, data, 
                                   now, note, nreg, held, ret, sres, picked, 
                                   sleeps, inlock, ip, mw, pool, nalloc, nq, 
                                   muFreed, refs, nwalive, taint3, stack, lt_l, 
                                   clear, old_, zlo, zhi, wcnt, lw, lt_u, 
                                   old_u, tc, nwl, wtrs, wake, wty, sor, cor, 
                                   rmq_, late, lt_m, old_m, lt_mu, old_mu, 
                                   lt_mu_, ww, old_mu_, sdl, scn, lt, rc, 
                                   old_t, zl, c, dl_, cn_, old_mu_w, lt_, 
                                   first, out_, rc_, hadw, ata, so_, havel, tw, 
                                   allr, omw, fca, sorw, all, old_c, tws, alr, 
                                   rmq, dl, cn, gen, old_cv, lt_c, rc_c, so, 
                                   out, ndl, wcn, old, wq, still2, cvr, dw, k, 
                                   cdw, ck >>

us_scan_l(self) == /\ pc[self] = "us_scan_l"
                   /\ LET r == Scan(nwl[self], 1, <<>>, wty[self], sor[self], sc, wc, wl, data, tc[self]) IN
                        /\ Assert(tc[self] => ((word & WLOCK) # 0 /\ \A u \in Threads : held[u] = 0), 
                                  "Failure of assertion at line 262, column 16.")
                        /\ nwl' = [nwl EXCEPT ![self] = r.l]
                        /\ rmq_' = [rmq_ EXCEPT ![self] = r.wake]
                        /\ wake' = [wake EXCEPT ![self] = wake[self] \o r.wake]
                        /\ wty' = [wty EXCEPT ![self] = r.wty]
                        /\ sc' = r.R
                        /\ sor' = [sor EXCEPT ![self] = IF r.more THEN Clr(r.sor, ALLF) ELSE r.sor]
                   /\ pc' = [pc EXCEPT ![self] = "us_rmq_l"]
                   /\ UNCHANGED << word, queue, cvword, cvq, waiting, rmc, 
                                   cvmu, wl, wc, nww, nwsem, nww2, nreg2, sem, 
                                   data, now, note, nreg, held, ret, sres, 
                                   picked, sleeps, inlock, ip, mw, pool, 
                                   nalloc, nq, muFreed, refs, nwalive, taint3, 
                                   stack, lt_l, clear, old_, zlo, zhi, wcnt, 
                                   lw, lt_u, old_u, tc, wtrs, cor, late, lt_m, 
                                   old_m, lt_mu, old_mu, lt_mu_, ww, old_mu_, 
                                   sdl, scn, lt, rc, old_t, zl, c, dl_, cn_, 
                                   old_mu_w, lt_, first, out_, rc_, hadw, ata, 
                                   so_, havel, tw, allr, omw, fca, sorw, all, 
                                   old_c, tws, alr, rmq, dl, cn, gen, old_cv, 
                                   lt_c, rc_c, so, out, ndl, wcn, old, wq, 
                                   still2, cvr, dw, k, cdw, ck >>

us_rmq_l(self) == /\ pc[self] = "us_rmq_l"
                  /\ IF rmq_[self] = <<>>
                        THEN /\ pc' = [pc EXCEPT ![self] = "us_after_l"]
                        ELSE /\ pc' = [pc EXCEPT ![self] = "us_rm_ld"]
                  /\ UNCHANGED << word, queue, cvword, cvq, waiting, rmc, cvmu, 
                                  wl, wc, sc, nww, nwsem, nww2, nreg2, sem, 
                                  data, now, note, nreg, held, ret, sres, 
                                  picked, sleeps, inlock, ip, mw, pool, nalloc, 
                                  nq, muFreed, refs, nwalive, taint3, stack, 
                                  lt_l, clear, old_, zlo, zhi, wcnt, lw, lt_u, 
                                  old_u, tc, nwl, wtrs, wake, wty, sor, cor, 
                                  rmq_, late, lt_m, old_m, lt_mu, old_mu, 
                                  lt_mu_, ww, old_mu_, sdl, scn, lt, rc, old_t, 
                                  zl, c, dl_, cn_, old_mu_w, lt_, first, out_, 
                                  rc_, hadw, ata, so_, havel, tw, allr, omw, 
                                  fca, sorw, all, old_c, tws, alr, rmq, dl, cn, 
                                  gen, old_cv, lt_c, rc_c, so, out, ndl, wcn, 
                                  old, wq, still2, cvr, dw, k, cdw, ck >>

us_rm_ld(self) == /\ pc[self] = "us_rm_ld"
                  /\ TRUE
                  /\ pc' = [pc EXCEPT ![self] = "us_rm_cas"]
                  /\ UNCHANGED << word, queue, cvword, cvq, waiting, rmc, cvmu, 
                                  wl, wc, sc, nww, nwsem, nww2, nreg2, sem, 
                                  data, now, note, nreg, held, ret, sres, 
                                  picked, sleeps, inlock, ip, mw, pool, nalloc, 
                                  nq, muFreed, refs, nwalive, taint3, stack, 
                                  lt_l, clear, old_, zlo, zhi, wcnt, lw, lt_u, 
                                  old_u, tc, nwl, wtrs, wake, wty, sor, cor, 
                                  rmq_, late, lt_m, old_m, lt_mu, old_mu, 
                                  lt_mu_, ww, old_mu_, sdl, scn, lt, rc, old_t, 
                                  zl, c, dl_, cn_, old_mu_w, lt_, first, out_, 
                                  rc_, hadw, ata, so_, havel, tw, allr, omw, 
                                  fca, sorw, all, old_c, tws, alr, rmq, dl, cn, 
                                  gen, old_cv, lt_c, rc_c, so, out, ndl, wcn, 
                                  old, wq, still2, cvr, dw, k, cdw, ck >>

us_rm_cas(self) == /\ pc[self] = "us_rm_cas"
                   /\ rmc' = [rmc EXCEPT ![Head(rmq_[self])] = rmc[Head(rmq_[self])] + 1]
                   /\ rmq_' = [rmq_ EXCEPT ![self] = Tail(rmq_[self])]
                   /\ pc' = [pc EXCEPT ![self] = "us_rmq_l"]
                   /\ UNCHANGED << word, queue, cvword, cvq, waiting, cvmu, wl, 
                                   wc, sc, nww, nwsem, nww2, nreg2, sem, data, 
                                   now, note, nreg, held, ret, sres, picked, 
                                   sleeps, inlock, ip, mw, pool, nalloc, nq, 
                                   muFreed, refs, nwalive, taint3, stack, lt_l, 
                                   clear, old_, zlo, zhi, wcnt, lw, lt_u, 
                                   old_u, tc, nwl, wtrs, wake, wty, sor, cor, 
                                   late, lt_m, old_m, lt_mu, old_mu, lt_mu_, 
                                   ww, old_mu_, sdl, scn, lt, rc, old_t, zl, c, 
                                   dl_, cn_, old_mu_w, lt_, first, out_, rc_, 
                                   hadw, ata, so_, havel, tw, allr, omw, fca, 
                                   sorw, all, old_c, tws, alr, rmq, dl, cn, 
                                   gen, old_cv, lt_c, rc_c, so, out, ndl, wcn, 
                                   old, wq, still2, cvr, dw, k, cdw, ck >>

us_after_l(self) == /\ pc[self] = "us_after_l"
                    /\ IF tc[self]
                          THEN /\ pc' = [pc EXCEPT ![self] = "us_ts_ld"]
                          ELSE /\ pc' = [pc EXCEPT ![self] = "us_merge_l"]
                    /\ UNCHANGED << word, queue, cvword, cvq, waiting, rmc, 
                                    cvmu, wl, wc, sc, nww, nwsem, nww2, nreg2, 
                                    sem, data, now, note, nreg, held, ret, 
                                    sres, picked, sleeps, inlock, ip, mw, pool, 
                                    nalloc, nq, muFreed, refs, nwalive, taint3, 
                                    stack, lt_l, clear, old_, zlo, zhi, wcnt, 
                                    lw, lt_u, old_u, tc, nwl, wtrs, wake, wty, 
                                    sor, cor, rmq_, late, lt_m, old_m, lt_mu, 
                                    old_mu, lt_mu_, ww, old_mu_, sdl, scn, lt, 
                                    rc, old_t, zl, c, dl_, cn_, old_mu_w, lt_, 
                                    first, out_, rc_, hadw, ata, so_, havel, 
                                    tw, allr, omw, fca, sorw, all, old_c, tws, 
                                    alr, rmq, dl, cn, gen, old_cv, lt_c, rc_c, 
                                    so, out, ndl, wcn, old, wq, still2, cvr, 
                                    dw, k, cdw, ck >>

us_ts_ld(self) == /\ pc[self] = "us_ts_ld"
                  /\ old_u' = [old_u EXCEPT ![self] = word]
                  /\ IF (old_u'[self] & SPIN) # 0
                        THEN /\ pc' = [pc EXCEPT ![self] = "us_ts_d"]
                        ELSE /\ pc' = [pc EXCEPT ![self] = "us_ts_cas"]
                  /\ UNCHANGED << word, queue, cvword, cvq, waiting, rmc, cvmu, 
                                  wl, wc, sc, nww, nwsem, nww2, nreg2, sem, 
                                  data, now, note, nreg, held, ret, sres, 
                                  picked, sleeps, inlock, ip, mw, pool, nalloc, 
                                  nq, muFreed, refs, nwalive, taint3, stack, 
                                  lt_l, clear, old_, zlo, zhi, wcnt, lw, lt_u, 
                                  tc, nwl, wtrs, wake, wty, sor, cor, rmq_, 
                                  late, lt_m, old_m, lt_mu, old_mu, lt_mu_, ww, 
                                  old_mu_, sdl, scn, lt, rc, old_t, zl, c, dl_, 
                                  cn_, old_mu_w, lt_, first, out_, rc_, hadw, 
                                  ata, so_, havel, tw, allr, omw, fca, sorw, 
                                  all, old_c, tws, alr, rmq, dl, cn, gen, 
                                  old_cv, lt_c, rc_c, so, out, ndl, wcn, old, 
                                  wq, still2, cvr, dw, k, cdw, ck >>

us_ts_cas(self) == /\ pc[self] = "us_ts_cas"
                   /\ IF word = old_u[self]
                         THEN /\ word' = old_u[self] | SPIN
                              /\ pc' = [pc EXCEPT ![self] = "us_merge_l"]
                         ELSE /\ pc' = [pc EXCEPT ![self] = "us_ts_d"]
                              /\ word' = word
                   /\ UNCHANGED << queue, cvword, cvq, waiting, rmc, cvmu, wl, 
                                   wc, sc, nww, nwsem, nww2, nreg2, sem, data, 
                                   now, note, nreg, held, ret, sres, picked, 
                                   sleeps, inlock, ip, mw, pool, nalloc, nq, 
                                   muFreed, refs, nwalive, taint3, stack, lt_l, 
                                   clear, old_, zlo, zhi, wcnt, lw, lt_u, 
                                   old_u, tc, nwl, wtrs, wake, wty, sor, cor, 
                                   rmq_, late, lt_m, old_m, lt_mu, old_mu, 
                                   lt_mu_, ww, old_mu_, sdl, scn, lt, rc, 
                                   old_t, zl, c, dl_, cn_, old_mu_w, lt_, 
                                   first, out_, rc_, hadw, ata, so_, havel, tw, 
                                   allr, omw, fca, sorw, all, old_c, tws, alr, 
                                   rmq, dl, cn, gen, old_cv, lt_c, rc_c, so, 
                                   out, ndl, wcn, old, wq, still2, cvr, dw, k, 
                                   cdw, ck >>

us_ts_d(self) == /\ pc[self] = "us_ts_d"
                 /\ pc' = [pc EXCEPT ![self] = "us_ts_ld"]
                 /\ UNCHANGED << word, queue, cvword, cvq, waiting, rmc, cvmu, 
                                 wl, wc, sc, nww, nwsem, nww2, nreg2, sem, 
                                 data, now, note, nreg, held, ret, sres, 
                                 picked, sleeps, inlock, ip, mw, pool, nalloc, 
                                 nq, muFreed, refs, nwalive, taint3, stack, 
                                 lt_l, clear, old_, zlo, zhi, wcnt, lw, lt_u, 
                                 old_u, tc, nwl, wtrs, wake, wty, sor, cor, 
                                 rmq_, late, lt_m, old_m, lt_mu, old_mu, 
                                 lt_mu_, ww, old_mu_, sdl, scn, lt, rc, old_t, 
                                 zl, c, dl_, cn_, old_mu_w, lt_, first, out_, 
                                 rc_, hadw, ata, so_, havel, tw, allr, omw, 
                                 fca, sorw, all, old_c, tws, alr, rmq, dl, cn, 
                                 gen, old_cv, lt_c, rc_c, so, out, ndl, wcn, 
                                 old, wq, still2, cvr, dw, k, cdw, ck >>

us_merge_l(self) == /\ pc[self] = "us_merge_l"
                    /\ sc' = Merge(sc, wc, Last(wtrs[self]), First(nwl[self]))
                    /\ wtrs' = [wtrs EXCEPT ![self] = wtrs[self] \o nwl[self]]
                    /\ nwl' = [nwl EXCEPT ![self] = queue]
                    /\ queue' = <<>>
                    /\ pc' = [pc EXCEPT ![self] = "us_pass_l"]
                    /\ UNCHANGED << word, cvword, cvq, waiting, rmc, cvmu, wl, 
                                    wc, nww, nwsem, nww2, nreg2, sem, data, 
                                    now, note, nreg, held, ret, sres, picked, 
                                    sleeps, inlock, ip, mw, pool, nalloc, nq, 
                                    muFreed, refs, nwalive, taint3, stack, 
                                    lt_l, clear, old_, zlo, zhi, wcnt, lw, 
                                    lt_u, old_u, tc, wake, wty, sor, cor, rmq_, 
                                    late, lt_m, old_m, lt_mu, old_mu, lt_mu_, 
                                    ww, old_mu_, sdl, scn, lt, rc, old_t, zl, 
                                    c, dl_, cn_, old_mu_w, lt_, first, out_, 
                                    rc_, hadw, ata, so_, havel, tw, allr, omw, 
                                    fca, sorw, all, old_c, tws, alr, rmq, dl, 
                                    cn, gen, old_cv, lt_c, rc_c, so, out, ndl, 
                                    wcn, old, wq, still2, cvr, dw, k, cdw, ck >>

us_4_ld(self) == /\ pc[self] = "us_4_ld"
                 /\ old_u' = [old_u EXCEPT ![self] = word]
                 /\ pc' = [pc EXCEPT ![self] = "us_5_cas"]
                 /\ UNCHANGED << word, queue, cvword, cvq, waiting, rmc, cvmu, 
                                 wl, wc, sc, nww, nwsem, nww2, nreg2, sem, 
                                 data, now, note, nreg, held, ret, sres, 
                                 picked, sleeps, inlock, ip, mw, pool, nalloc, 
                                 nq, muFreed, refs, nwalive, taint3, stack, 
                                 lt_l, clear, old_, zlo, zhi, wcnt, lw, lt_u, 
                                 tc, nwl, wtrs, wake, wty, sor, cor, rmq_, 
                                 late, lt_m, old_m, lt_mu, old_mu, lt_mu_, ww, 
                                 old_mu_, sdl, scn, lt, rc, old_t, zl, c, dl_, 
                                 cn_, old_mu_w, lt_, first, out_, rc_, hadw, 
                                 ata, so_, havel, tw, allr, omw, fca, sorw, 
                                 all, old_c, tws, alr, rmq, dl, cn, gen, 
                                 old_cv, lt_c, rc_c, so, out, ndl, wcn, old, 
                                 wq, still2, cvr, dw, k, cdw, ck >>

us_5_cas(self) == /\ pc[self] = "us_5_cas"
                  /\ IF word = old_u[self]
                        THEN /\ word' = Clr((old_u[self] - late[self]) | sor[self], cor[self])
                             /\ IF wake[self] = <<>>
                                   THEN /\ pc' = [pc EXCEPT ![self] = Head(stack[self]).pc]
                                        /\ old_u' = [old_u EXCEPT ![self] = Head(stack[self]).old_u]
                                        /\ tc' = [tc EXCEPT ![self] = Head(stack[self]).tc]
                                        /\ nwl' = [nwl EXCEPT ![self] = Head(stack[self]).nwl]
                                        /\ wtrs' = [wtrs EXCEPT ![self] = Head(stack[self]).wtrs]
                                        /\ wake' = [wake EXCEPT ![self] = Head(stack[self]).wake]
                                        /\ wty' = [wty EXCEPT ![self] = Head(stack[self]).wty]
                                        /\ sor' = [sor EXCEPT ![self] = Head(stack[self]).sor]
                                        /\ cor' = [cor EXCEPT ![self] = Head(stack[self]).cor]
                                        /\ rmq_' = [rmq_ EXCEPT ![self] = Head(stack[self]).rmq_]
                                        /\ late' = [late EXCEPT ![self] = Head(stack[self]).late]
                                        /\ lt_u' = [lt_u EXCEPT ![self] = Head(stack[self]).lt_u]
                                        /\ stack' = [stack EXCEPT ![self] = Tail(stack[self])]
                                   ELSE /\ pc' = [pc EXCEPT ![self] = "us_6_st"]
                                        /\ UNCHANGED << stack, lt_u, old_u, tc, 
                                                        nwl, wtrs, wake, wty, 
                                                        sor, cor, rmq_, late >>
                        ELSE /\ pc' = [pc EXCEPT ![self] = "us_4_ld"]
                             /\ UNCHANGED << word, stack, lt_u, old_u, tc, nwl, 
                                             wtrs, wake, wty, sor, cor, rmq_, 
                                             late >>
                  /\ UNCHANGED << queue, cvword, cvq, waiting, rmc, cvmu, wl, 
                                  wc, sc, nww, nwsem, nww2, nreg2, sem, data, 
                                  now, note, nreg, held, ret, sres, picked, 
                                  sleeps, inlock, ip, mw, pool, nalloc, nq, 
                                  muFreed, refs, nwalive, taint3, lt_l, clear, 
                                  old_, zlo, zhi, wcnt, lw, lt_m, old_m, lt_mu, 
                                  old_mu, lt_mu_, ww, old_mu_, sdl, scn, lt, 
                                  rc, old_t, zl, c, dl_, cn_, old_mu_w, lt_, 
                                  first, out_, rc_, hadw, ata, so_, havel, tw, 
                                  allr, omw, fca, sorw, all, old_c, tws, alr, 
                                  rmq, dl, cn, gen, old_cv, lt_c, rc_c, so, 
                                  out, ndl, wcn, old, wq, still2, cvr, dw, k, 
                                  cdw, ck >>

us_6_st(self) == /\ pc[self] = "us_6_st"
                 /\ waiting' = [waiting EXCEPT ![Head(wake[self])] = 0]
                 /\ pc' = [pc EXCEPT ![self] = "us_7_v"]
                 /\ UNCHANGED << word, queue, cvword, cvq, rmc, cvmu, wl, wc, 
                                 sc, nww, nwsem, nww2, nreg2, sem, data, now, 
                                 note, nreg, held, ret, sres, picked, sleeps, 
                                 inlock, ip, mw, pool, nalloc, nq, muFreed, 
                                 refs, nwalive, taint3, stack, lt_l, clear, 
                                 old_, zlo, zhi, wcnt, lw, lt_u, old_u, tc, 
                                 nwl, wtrs, wake, wty, sor, cor, rmq_, late, 
                                 lt_m, old_m, lt_mu, old_mu, lt_mu_, ww, 
                                 old_mu_, sdl, scn, lt, rc, old_t, zl, c, dl_, 
                                 cn_, old_mu_w, lt_, first, out_, rc_, hadw, 
                                 ata, so_, havel, tw, allr, omw, fca, sorw, 
                                 all, old_c, tws, alr, rmq, dl, cn, gen, 
                                 old_cv, lt_c, rc_c, so, out, ndl, wcn, old, 
                                 wq, still2, cvr, dw, k, cdw, ck >>

us_7_v(self) == /\ pc[self] = "us_7_v"
                /\ sem' = [sem EXCEPT ![Head(wake[self])] = SetV(sem[Head(wake[self])])]
                /\ IF Len(wake[self]) = 1
                      THEN /\ pc' = [pc EXCEPT ![self] = Head(stack[self]).pc]
                           /\ old_u' = [old_u EXCEPT ![self] = Head(stack[self]).old_u]
                           /\ tc' = [tc EXCEPT ![self] = Head(stack[self]).tc]
                           /\ nwl' = [nwl EXCEPT ![self] = Head(stack[self]).nwl]
                           /\ wtrs' = [wtrs EXCEPT ![self] = Head(stack[self]).wtrs]
                           /\ wake' = [wake EXCEPT ![self] = Head(stack[self]).wake]
                           /\ wty' = [wty EXCEPT ![self] = Head(stack[self]).wty]
                           /\ sor' = [sor EXCEPT ![self] = Head(stack[self]).sor]
                           /\ cor' = [cor EXCEPT ![self] = Head(stack[self]).cor]
                           /\ rmq_' = [rmq_ EXCEPT ![self] = Head(stack[self]).rmq_]
                           /\ late' = [late EXCEPT ![self] = Head(stack[self]).late]
                           /\ lt_u' = [lt_u EXCEPT ![self] = Head(stack[self]).lt_u]
                           /\ stack' = [stack EXCEPT ![self] = Tail(stack[self])]
                      ELSE /\ wake' = [wake EXCEPT ![self] = Tail(wake[self])]
                           /\ pc' = [pc EXCEPT ![self] = "us_6_st"]
                           /\ UNCHANGED << stack, lt_u, old_u, tc, nwl, wtrs, 
                                           wty, sor, cor, rmq_, late >>
                /\ UNCHANGED << word, queue, cvword, cvq, waiting, rmc, cvmu, 
                                wl, wc, sc, nww, nwsem, nww2, nreg2, data, now, 
                                note, nreg, held, ret, sres, picked, sleeps, 
                                inlock, ip, mw, pool, nalloc, nq, muFreed, 
                                refs, nwalive, taint3, lt_l, clear, old_, zlo, 
                                zhi, wcnt, lw, lt_m, old_m, lt_mu, old_mu, 
                                lt_mu_, ww, old_mu_, sdl, scn, lt, rc, old_t, 
                                zl, c, dl_, cn_, old_mu_w, lt_, first, out_, 
                                rc_, hadw, ata, so_, havel, tw, allr, omw, fca, 
                                sorw, all, old_c, tws, alr, rmq, dl, cn, gen, 
                                old_cv, lt_c, rc_c, so, out, ndl, wcn, old, wq, 
                                still2, cvr, dw, k, cdw, ck >>

unlock_slow(self) == us_1_ld(self) \/ us_d(self) \/ us_2_cas(self)
                        \/ us_3_cas(self) \/ us_pass_l(self)
                        \/ us_rel_l(self) \/ us_rs_ld(self)
                        \/ us_rs_cas(self) \/ us_scan_l(self)
                        \/ us_rmq_l(self) \/ us_rm_ld(self)
                        \/ us_rm_cas(self) \/ us_after_l(self)
                        \/ us_ts_ld(self) \/ us_ts_cas(self)
                        \/ us_ts_d(self) \/ us_merge_l(self)
                        \/ us_4_ld(self) \/ us_5_cas(self) \/ us_6_st(self)
                        \/ us_7_v(self)

lk_1_cas(self) == /\ pc[self] = "lk_1_cas"
                  /\ IF word = 0
                        THEN /\ word' = Add(lt_m[self])
                             /\ held' = [held EXCEPT ![self] = lt_m[self]]
                             /\ inlock' = [inlock EXCEPT ![self] = FALSE]
                             /\ pc' = [pc EXCEPT ![self] = Head(stack[self]).pc]
                             /\ old_m' = [old_m EXCEPT ![self] = Head(stack[self]).old_m]
                             /\ lt_m' = [lt_m EXCEPT ![self] = Head(stack[self]).lt_m]
                             /\ stack' = [stack EXCEPT ![self] = Tail(stack[self])]
                        ELSE /\ pc' = [pc EXCEPT ![self] = "lk_2_ld"]
                             /\ UNCHANGED << word, held, inlock, stack, lt_m, 
                                             old_m >>
                  /\ UNCHANGED << queue, cvword, cvq, waiting, rmc, cvmu, wl, 
                                  wc, sc, nww, nwsem, nww2, nreg2, sem, data, 
                                  now, note, nreg, ret, sres, picked, sleeps, 
                                  ip, mw, pool, nalloc, nq, muFreed, refs, 
                                  nwalive, taint3, lt_l, clear, old_, zlo, zhi, 
                                  wcnt, lw, lt_u, old_u, tc, nwl, wtrs, wake, 
                                  wty, sor, cor, rmq_, late, lt_mu, old_mu, 
                                  lt_mu_, ww, old_mu_, sdl, scn, lt, rc, old_t, 
                                  zl, c, dl_, cn_, old_mu_w, lt_, first, out_, 
                                  rc_, hadw, ata, so_, havel, tw, allr, omw, 
                                  fca, sorw, all, old_c, tws, alr, rmq, dl, cn, 
                                  gen, old_cv, lt_c, rc_c, so, out, ndl, wcn, 
                                  old, wq, still2, cvr, dw, k, cdw, ck >>

lk_2_ld(self) == /\ pc[self] = "lk_2_ld"
                 /\ IF AndZ(word, IF lt_m[self] = 1 THEN WZLO ELSE RZLO, IF lt_m[self] = 1 THEN WZHI ELSE RZHI) # 0
                       THEN /\ IF mw[self] = 0
                                  THEN /\ IF pool # <<>>
                                             THEN /\ mw' = [mw EXCEPT ![self] = Head(pool)]
                                                  /\ pool' = Tail(pool)
                                                  /\ UNCHANGED nalloc
                                             ELSE /\ mw' = [mw EXCEPT ![self] = nalloc + 1]
                                                  /\ nalloc' = nalloc + 1
                                                  /\ pool' = pool
                                  ELSE /\ TRUE
                                       /\ UNCHANGED << mw, pool, nalloc >>
                            /\ /\ clear' = [clear EXCEPT ![self] = 0]
                               /\ lt_l' = [lt_l EXCEPT ![self] = lt_m[self]]
                               /\ old_m' = [old_m EXCEPT ![self] = Head(stack[self]).old_m]
                               /\ stack' = [stack EXCEPT ![self] = << [ procedure |->  "lock_slow",
                                                                        pc        |->  Head(stack[self]).pc,
                                                                        old_      |->  old_[self],
                                                                        zlo       |->  zlo[self],
                                                                        zhi       |->  zhi[self],
                                                                        wcnt      |->  wcnt[self],
                                                                        lw        |->  lw[self],
                                                                        lt_l      |->  lt_l[self],
                                                                        clear     |->  clear[self] ] >>
                                                                    \o Tail(stack[self])]
                            /\ old_' = [old_ EXCEPT ![self] = 0]
                            /\ zlo' = [zlo EXCEPT ![self] = 0]
                            /\ zhi' = [zhi EXCEPT ![self] = FALSE]
                            /\ wcnt' = [wcnt EXCEPT ![self] = 0]
                            /\ lw' = [lw EXCEPT ![self] = 0]
                            /\ pc' = [pc EXCEPT ![self] = "ls_1_ld"]
                       ELSE /\ old_m' = [old_m EXCEPT ![self] = word]
                            /\ pc' = [pc EXCEPT ![self] = "lk_3_cas"]
                            /\ UNCHANGED << mw, pool, nalloc, stack, lt_l, 
                                            clear, old_, zlo, zhi, wcnt, lw >>
                 /\ UNCHANGED << word, queue, cvword, cvq, waiting, rmc, cvmu, 
                                 wl, wc, sc, nww, nwsem, nww2, nreg2, sem, 
                                 data, now, note, nreg, held, ret, sres, 
                                 picked, sleeps, inlock, ip, nq, muFreed, refs, 
                                 nwalive, taint3, lt_u, old_u, tc, nwl, wtrs, 
                                 wake, wty, sor, cor, rmq_, late, lt_m, lt_mu, 
                                 old_mu, lt_mu_, ww, old_mu_, sdl, scn, lt, rc, 
                                 old_t, zl, c, dl_, cn_, old_mu_w, lt_, first, 
                                 out_, rc_, hadw, ata, so_, havel, tw, allr, 
                                 omw, fca, sorw, all, old_c, tws, alr, rmq, dl, 
                                 cn, gen, old_cv, lt_c, rc_c, so, out, ndl, 
                                 wcn, old, wq, still2, cvr, dw, k, cdw, ck >>

lk_3_cas(self) == /\ pc[self] = "lk_3_cas"
                  /\ IF word = old_m[self]
                        THEN /\ word' = Clr(old_m[self] + Add(lt_m[self]), LT(lt_m[self]).coa)
                             /\ held' = [held EXCEPT ![self] = lt_m[self]]
                             /\ inlock' = [inlock EXCEPT ![self] = FALSE]
                             /\ pc' = [pc EXCEPT ![self] = Head(stack[self]).pc]
                             /\ old_m' = [old_m EXCEPT ![self] = Head(stack[self]).old_m]
                             /\ lt_m' = [lt_m EXCEPT ![self] = Head(stack[self]).lt_m]
                             /\ stack' = [stack EXCEPT ![self] = Tail(stack[self])]
                             /\ UNCHANGED << mw, pool, nalloc, lt_l, clear, 
                                             old_, zlo, zhi, wcnt, lw >>
                        ELSE /\ IF mw[self] = 0
                                   THEN /\ IF pool # <<>>
                                              THEN /\ mw' = [mw EXCEPT ![self] = Head(pool)]
                                                   /\ pool' = Tail(pool)
                                                   /\ UNCHANGED nalloc
                                              ELSE /\ mw' = [mw EXCEPT ![self] = nalloc + 1]
                                                   /\ nalloc' = nalloc + 1
                                                   /\ pool' = pool
                                   ELSE /\ TRUE
                                        /\ UNCHANGED << mw, pool, nalloc >>
                             /\ /\ clear' = [clear EXCEPT ![self] = 0]
                                /\ lt_l' = [lt_l EXCEPT ![self] = lt_m[self]]
                                /\ old_m' = [old_m EXCEPT ![self] = Head(stack[self]).old_m]
                                /\ stack' = [stack EXCEPT ![self] = << [ procedure |->  "lock_slow",
                                                                         pc        |->  Head(stack[self]).pc,
                                                                         old_      |->  old_[self],
                                                                         zlo       |->  zlo[self],
                                                                         zhi       |->  zhi[self],
                                                                         wcnt      |->  wcnt[self],
                                                                         lw        |->  lw[self],
                                                                         lt_l      |->  lt_l[self],
                                                                         clear     |->  clear[self] ] >>
                                                                     \o Tail(stack[self])]
                             /\ old_' = [old_ EXCEPT ![self] = 0]
                             /\ zlo' = [zlo EXCEPT ![self] = 0]
                             /\ zhi' = [zhi EXCEPT ![self] = FALSE]
                             /\ wcnt' = [wcnt EXCEPT ![self] = 0]
                             /\ lw' = [lw EXCEPT ![self] = 0]
                             /\ pc' = [pc EXCEPT ![self] = "ls_1_ld"]
                             /\ UNCHANGED << word, held, inlock, lt_m >>
                  /\ UNCHANGED << queue, cvword, cvq, waiting, rmc, cvmu, wl, 
                                  wc, sc, nww, nwsem, nww2, nreg2, sem, data, 
                                  now, note, nreg, ret, sres, picked, sleeps, 
                                  ip, nq, muFreed, refs, nwalive, taint3, lt_u, 
                                  old_u, tc, nwl, wtrs, wake, wty, sor, cor, 
                                  rmq_, late, lt_mu, old_mu, lt_mu_, ww, 
                                  old_mu_, sdl, scn, lt, rc, old_t, zl, c, dl_, 
                                  cn_, old_mu_w, lt_, first, out_, rc_, hadw, 
                                  ata, so_, havel, tw, allr, omw, fca, sorw, 
                                  all, old_c, tws, alr, rmq, dl, cn, gen, 
                                  old_cv, lt_c, rc_c, so, out, ndl, wcn, old, 
                                  wq, still2, cvr, dw, k, cdw, ck >>

mu_lock(self) == lk_1_cas(self) \/ lk_2_ld(self) \/ lk_3_cas(self)

tl_1_cas(self) == /\ pc[self] = "tl_1_cas"
                  /\ IF word = 0
                        THEN /\ word' = Add(lt_mu[self])
                             /\ held' = [held EXCEPT ![self] = lt_mu[self]]
                             /\ ret' = [ret EXCEPT ![self] = 1]
                             /\ pc' = [pc EXCEPT ![self] = Head(stack[self]).pc]
                             /\ old_mu' = [old_mu EXCEPT ![self] = Head(stack[self]).old_mu]
                             /\ lt_mu' = [lt_mu EXCEPT ![self] = Head(stack[self]).lt_mu]
                             /\ stack' = [stack EXCEPT ![self] = Tail(stack[self])]
                        ELSE /\ pc' = [pc EXCEPT ![self] = "tl_2_ld"]
                             /\ UNCHANGED << word, held, ret, stack, lt_mu, 
                                             old_mu >>
                  /\ UNCHANGED << queue, cvword, cvq, waiting, rmc, cvmu, wl, 
                                  wc, sc, nww, nwsem, nww2, nreg2, sem, data, 
                                  now, note, nreg, sres, picked, sleeps, 
                                  inlock, ip, mw, pool, nalloc, nq, muFreed, 
                                  refs, nwalive, taint3, lt_l, clear, old_, 
                                  zlo, zhi, wcnt, lw, lt_u, old_u, tc, nwl, 
                                  wtrs, wake, wty, sor, cor, rmq_, late, lt_m, 
                                  old_m, lt_mu_, ww, old_mu_, sdl, scn, lt, rc, 
                                  old_t, zl, c, dl_, cn_, old_mu_w, lt_, first, 
                                  out_, rc_, hadw, ata, so_, havel, tw, allr, 
                                  omw, fca, sorw, all, old_c, tws, alr, rmq, 
                                  dl, cn, gen, old_cv, lt_c, rc_c, so, out, 
                                  ndl, wcn, old, wq, still2, cvr, dw, k, cdw, 
                                  ck >>

tl_2_ld(self) == /\ pc[self] = "tl_2_ld"
                 /\ IF AndZ(word, IF lt_mu[self] = 1 THEN WZLO ELSE RZLO, IF lt_mu[self] = 1 THEN WZHI ELSE RZHI) # 0
                       THEN /\ ret' = [ret EXCEPT ![self] = 0]
                            /\ pc' = [pc EXCEPT ![self] = Head(stack[self]).pc]
                            /\ old_mu' = [old_mu EXCEPT ![self] = Head(stack[self]).old_mu]
                            /\ lt_mu' = [lt_mu EXCEPT ![self] = Head(stack[self]).lt_mu]
                            /\ stack' = [stack EXCEPT ![self] = Tail(stack[self])]
                       ELSE /\ old_mu' = [old_mu EXCEPT ![self] = word]
                            /\ pc' = [pc EXCEPT ![self] = "tl_3_cas"]
                            /\ UNCHANGED << ret, stack, lt_mu >>
                 /\ UNCHANGED << word, queue, cvword, cvq, waiting, rmc, cvmu, 
                                 wl, wc, sc, nww, nwsem, nww2, nreg2, sem, 
                                 data, now, note, nreg, held, sres, picked, 
                                 sleeps, inlock, ip, mw, pool, nalloc, nq, 
                                 muFreed, refs, nwalive, taint3, lt_l, clear, 
                                 old_, zlo, zhi, wcnt, lw, lt_u, old_u, tc, 
                                 nwl, wtrs, wake, wty, sor, cor, rmq_, late, 
                                 lt_m, old_m, lt_mu_, ww, old_mu_, sdl, scn, 
                                 lt, rc, old_t, zl, c, dl_, cn_, old_mu_w, lt_, 
                                 first, out_, rc_, hadw, ata, so_, havel, tw, 
                                 allr, omw, fca, sorw, all, old_c, tws, alr, 
                                 rmq, dl, cn, gen, old_cv, lt_c, rc_c, so, out, 
                                 ndl, wcn, old, wq, still2, cvr, dw, k, cdw, 
                                 ck >>

tl_3_cas(self) == /\ pc[self] = "tl_3_cas"
                  /\ IF word = old_mu[self]
                        THEN /\ word' = Clr(old_mu[self] + Add(lt_mu[self]), LT(lt_mu[self]).coa)
                             /\ held' = [held EXCEPT ![self] = lt_mu[self]]
                             /\ ret' = [ret EXCEPT ![self] = 1]
                             /\ pc' = [pc EXCEPT ![self] = Head(stack[self]).pc]
                             /\ old_mu' = [old_mu EXCEPT ![self] = Head(stack[self]).old_mu]
                             /\ lt_mu' = [lt_mu EXCEPT ![self] = Head(stack[self]).lt_mu]
                             /\ stack' = [stack EXCEPT ![self] = Tail(stack[self])]
                        ELSE /\ ret' = [ret EXCEPT ![self] = 0]
                             /\ pc' = [pc EXCEPT ![self] = Head(stack[self]).pc]
                             /\ old_mu' = [old_mu EXCEPT ![self] = Head(stack[self]).old_mu]
                             /\ lt_mu' = [lt_mu EXCEPT ![self] = Head(stack[self]).lt_mu]
                             /\ stack' = [stack EXCEPT ![self] = Tail(stack[self])]
                             /\ UNCHANGED << word, held >>
                  /\ UNCHANGED << queue, cvword, cvq, waiting, rmc, cvmu, wl, 
                                  wc, sc, nww, nwsem, nww2, nreg2, sem, data, 
                                  now, note, nreg, sres, picked, sleeps, 
                                  inlock, ip, mw, pool, nalloc, nq, muFreed, 
                                  refs, nwalive, taint3, lt_l, clear, old_, 
                                  zlo, zhi, wcnt, lw, lt_u, old_u, tc, nwl, 
                                  wtrs, wake, wty, sor, cor, rmq_, late, lt_m, 
                                  old_m, lt_mu_, ww, old_mu_, sdl, scn, lt, rc, 
                                  old_t, zl, c, dl_, cn_, old_mu_w, lt_, first, 
                                  out_, rc_, hadw, ata, so_, havel, tw, allr, 
                                  omw, fca, sorw, all, old_c, tws, alr, rmq, 
                                  dl, cn, gen, old_cv, lt_c, rc_c, so, out, 
                                  ndl, wcn, old, wq, still2, cvr, dw, k, cdw, 
                                  ck >>

mu_trylock(self) == tl_1_cas(self) \/ tl_2_ld(self) \/ tl_3_cas(self)

ul_1_cas(self) == /\ pc[self] = "ul_1_cas"
                  /\ IF word = Add(lt_mu_[self])
                        THEN /\ word' = 0
                             /\ pc' = [pc EXCEPT ![self] = Head(stack[self]).pc]
                             /\ old_mu_' = [old_mu_ EXCEPT ![self] = Head(stack[self]).old_mu_]
                             /\ lt_mu_' = [lt_mu_ EXCEPT ![self] = Head(stack[self]).lt_mu_]
                             /\ ww' = [ww EXCEPT ![self] = Head(stack[self]).ww]
                             /\ stack' = [stack EXCEPT ![self] = Tail(stack[self])]
                        ELSE /\ pc' = [pc EXCEPT ![self] = "ul_2_ld"]
                             /\ UNCHANGED << word, stack, lt_mu_, ww, old_mu_ >>
                  /\ UNCHANGED << queue, cvword, cvq, waiting, rmc, cvmu, wl, 
                                  wc, sc, nww, nwsem, nww2, nreg2, sem, data, 
                                  now, note, nreg, held, ret, sres, picked, 
                                  sleeps, inlock, ip, mw, pool, nalloc, nq, 
                                  muFreed, refs, nwalive, taint3, lt_l, clear, 
                                  old_, zlo, zhi, wcnt, lw, lt_u, old_u, tc, 
                                  nwl, wtrs, wake, wty, sor, cor, rmq_, late, 
                                  lt_m, old_m, lt_mu, old_mu, sdl, scn, lt, rc, 
                                  old_t, zl, c, dl_, cn_, old_mu_w, lt_, first, 
                                  out_, rc_, hadw, ata, so_, havel, tw, allr, 
                                  omw, fca, sorw, all, old_c, tws, alr, rmq, 
                                  dl, cn, gen, old_cv, lt_c, rc_c, so, out, 
                                  ndl, wcn, old, wq, still2, cvr, dw, k, cdw, 
                                  ck >>

ul_2_ld(self) == /\ pc[self] = "ul_2_ld"
                 /\ IF lt_mu_[self] = 1 /\ ~ww[self] /\ (word & (WAITING + DESIG)) = WAITING
                       THEN /\ /\ lt_u' = [lt_u EXCEPT ![self] = lt_mu_[self]]
                               /\ old_mu_' = [old_mu_ EXCEPT ![self] = Head(stack[self]).old_mu_]
                               /\ stack' = [stack EXCEPT ![self] = << [ procedure |->  "unlock_slow",
                                                                        pc        |->  Head(stack[self]).pc,
                                                                        old_u     |->  old_u[self],
                                                                        tc        |->  tc[self],
                                                                        nwl       |->  nwl[self],
                                                                        wtrs      |->  wtrs[self],
                                                                        wake      |->  wake[self],
                                                                        wty       |->  wty[self],
                                                                        sor       |->  sor[self],
                                                                        cor       |->  cor[self],
                                                                        rmq_      |->  rmq_[self],
                                                                        late      |->  late[self],
                                                                        lt_u      |->  lt_u[self] ] >>
                                                                    \o Tail(stack[self])]
                            /\ old_u' = [old_u EXCEPT ![self] = 0]
                            /\ tc' = [tc EXCEPT ![self] = FALSE]
                            /\ nwl' = [nwl EXCEPT ![self] = <<>>]
                            /\ wtrs' = [wtrs EXCEPT ![self] = <<>>]
                            /\ wake' = [wake EXCEPT ![self] = <<>>]
                            /\ wty' = [wty EXCEPT ![self] = 0]
                            /\ sor' = [sor EXCEPT ![self] = 0]
                            /\ cor' = [cor EXCEPT ![self] = 0]
                            /\ rmq_' = [rmq_ EXCEPT ![self] = <<>>]
                            /\ late' = [late EXCEPT ![self] = 0]
                            /\ pc' = [pc EXCEPT ![self] = "us_1_ld"]
                       ELSE /\ IF lt_mu_[self] = 1 /\ ww[self] /\ (word & ((WAITING + DESIG) + ALLF)) = WAITING
                                  THEN /\ /\ lt_u' = [lt_u EXCEPT ![self] = lt_mu_[self]]
                                          /\ old_mu_' = [old_mu_ EXCEPT ![self] = Head(stack[self]).old_mu_]
                                          /\ stack' = [stack EXCEPT ![self] = << [ procedure |->  "unlock_slow",
                                                                                   pc        |->  Head(stack[self]).pc,
                                                                                   old_u     |->  old_u[self],
                                                                                   tc        |->  tc[self],
                                                                                   nwl       |->  nwl[self],
                                                                                   wtrs      |->  wtrs[self],
                                                                                   wake      |->  wake[self],
                                                                                   wty       |->  wty[self],
                                                                                   sor       |->  sor[self],
                                                                                   cor       |->  cor[self],
                                                                                   rmq_      |->  rmq_[self],
                                                                                   late      |->  late[self],
                                                                                   lt_u      |->  lt_u[self] ] >>
                                                                               \o Tail(stack[self])]
                                       /\ old_u' = [old_u EXCEPT ![self] = 0]
                                       /\ tc' = [tc EXCEPT ![self] = FALSE]
                                       /\ nwl' = [nwl EXCEPT ![self] = <<>>]
                                       /\ wtrs' = [wtrs EXCEPT ![self] = <<>>]
                                       /\ wake' = [wake EXCEPT ![self] = <<>>]
                                       /\ wty' = [wty EXCEPT ![self] = 0]
                                       /\ sor' = [sor EXCEPT ![self] = 0]
                                       /\ cor' = [cor EXCEPT ![self] = 0]
                                       /\ rmq_' = [rmq_ EXCEPT ![self] = <<>>]
                                       /\ late' = [late EXCEPT ![self] = 0]
                                       /\ pc' = [pc EXCEPT ![self] = "us_1_ld"]
                                  ELSE /\ IF lt_mu_[self] = 2 /\ (word & (WAITING + DESIG)) = WAITING /\ RF(word) = RLOCK /\ (word & ALLF) = 0
                                             THEN /\ /\ lt_u' = [lt_u EXCEPT ![self] = lt_mu_[self]]
                                                     /\ old_mu_' = [old_mu_ EXCEPT ![self] = Head(stack[self]).old_mu_]
                                                     /\ stack' = [stack EXCEPT ![self] = << [ procedure |->  "unlock_slow",
                                                                                              pc        |->  Head(stack[self]).pc,
                                                                                              old_u     |->  old_u[self],
                                                                                              tc        |->  tc[self],
                                                                                              nwl       |->  nwl[self],
                                                                                              wtrs      |->  wtrs[self],
                                                                                              wake      |->  wake[self],
                                                                                              wty       |->  wty[self],
                                                                                              sor       |->  sor[self],
                                                                                              cor       |->  cor[self],
                                                                                              rmq_      |->  rmq_[self],
                                                                                              late      |->  late[self],
                                                                                              lt_u      |->  lt_u[self] ] >>
                                                                                          \o Tail(stack[self])]
                                                  /\ old_u' = [old_u EXCEPT ![self] = 0]
                                                  /\ tc' = [tc EXCEPT ![self] = FALSE]
                                                  /\ nwl' = [nwl EXCEPT ![self] = <<>>]
                                                  /\ wtrs' = [wtrs EXCEPT ![self] = <<>>]
                                                  /\ wake' = [wake EXCEPT ![self] = <<>>]
                                                  /\ wty' = [wty EXCEPT ![self] = 0]
                                                  /\ sor' = [sor EXCEPT ![self] = 0]
                                                  /\ cor' = [cor EXCEPT ![self] = 0]
                                                  /\ rmq_' = [rmq_ EXCEPT ![self] = <<>>]
                                                  /\ late' = [late EXCEPT ![self] = 0]
                                                  /\ pc' = [pc EXCEPT ![self] = "us_1_ld"]
                                             ELSE /\ old_mu_' = [old_mu_ EXCEPT ![self] = word]
                                                  /\ pc' = [pc EXCEPT ![self] = "ul_3_cas"]
                                                  /\ UNCHANGED << stack, lt_u, 
                                                                  old_u, tc, 
                                                                  nwl, wtrs, 
                                                                  wake, wty, 
                                                                  sor, cor, 
                                                                  rmq_, late >>
                 /\ UNCHANGED << word, queue, cvword, cvq, waiting, rmc, cvmu, 
                                 wl, wc, sc, nww, nwsem, nww2, nreg2, sem, 
                                 data, now, note, nreg, held, ret, sres, 
                                 picked, sleeps, inlock, ip, mw, pool, nalloc, 
                                 nq, muFreed, refs, nwalive, taint3, lt_l, 
                                 clear, old_, zlo, zhi, wcnt, lw, lt_m, old_m, 
                                 lt_mu, old_mu, lt_mu_, ww, sdl, scn, lt, rc, 
                                 old_t, zl, c, dl_, cn_, old_mu_w, lt_, first, 
                                 out_, rc_, hadw, ata, so_, havel, tw, allr, 
                                 omw, fca, sorw, all, old_c, tws, alr, rmq, dl, 
                                 cn, gen, old_cv, lt_c, rc_c, so, out, ndl, 
                                 wcn, old, wq, still2, cvr, dw, k, cdw, ck >>

ul_3_cas(self) == /\ pc[self] = "ul_3_cas"
                  /\ IF word = old_mu_[self]
                        THEN /\ word' = (IF lt_mu_[self] = 1 THEN (IF ww[self] THEN old_mu_[self] - WLOCK ELSE Clr(old_mu_[self] - WLOCK, ALLF)) ELSE old_mu_[self] - RLOCK)
                             /\ pc' = [pc EXCEPT ![self] = Head(stack[self]).pc]
                             /\ old_mu_' = [old_mu_ EXCEPT ![self] = Head(stack[self]).old_mu_]
                             /\ lt_mu_' = [lt_mu_ EXCEPT ![self] = Head(stack[self]).lt_mu_]
                             /\ ww' = [ww EXCEPT ![self] = Head(stack[self]).ww]
                             /\ stack' = [stack EXCEPT ![self] = Tail(stack[self])]
                             /\ UNCHANGED << lt_u, old_u, tc, nwl, wtrs, wake, 
                                             wty, sor, cor, rmq_, late >>
                        ELSE /\ /\ lt_u' = [lt_u EXCEPT ![self] = lt_mu_[self]]
                                /\ old_mu_' = [old_mu_ EXCEPT ![self] = Head(stack[self]).old_mu_]
                                /\ stack' = [stack EXCEPT ![self] = << [ procedure |->  "unlock_slow",
                                                                         pc        |->  Head(stack[self]).pc,
                                                                         old_u     |->  old_u[self],
                                                                         tc        |->  tc[self],
                                                                         nwl       |->  nwl[self],
                                                                         wtrs      |->  wtrs[self],
                                                                         wake      |->  wake[self],
                                                                         wty       |->  wty[self],
                                                                         sor       |->  sor[self],
                                                                         cor       |->  cor[self],
                                                                         rmq_      |->  rmq_[self],
                                                                         late      |->  late[self],
                                                                         lt_u      |->  lt_u[self] ] >>
                                                                     \o Tail(stack[self])]
                             /\ old_u' = [old_u EXCEPT ![self] = 0]
                             /\ tc' = [tc EXCEPT ![self] = FALSE]
                             /\ nwl' = [nwl EXCEPT ![self] = <<>>]
                             /\ wtrs' = [wtrs EXCEPT ![self] = <<>>]
                             /\ wake' = [wake EXCEPT ![self] = <<>>]
                             /\ wty' = [wty EXCEPT ![self] = 0]
                             /\ sor' = [sor EXCEPT ![self] = 0]
                             /\ cor' = [cor EXCEPT ![self] = 0]
                             /\ rmq_' = [rmq_ EXCEPT ![self] = <<>>]
                             /\ late' = [late EXCEPT ![self] = 0]
                             /\ pc' = [pc EXCEPT ![self] = "us_1_ld"]
                             /\ UNCHANGED << word, lt_mu_, ww >>
                  /\ UNCHANGED << queue, cvword, cvq, waiting, rmc, cvmu, wl, 
                                  wc, sc, nww, nwsem, nww2, nreg2, sem, data, 
                                  now, note, nreg, held, ret, sres, picked, 
                                  sleeps, inlock, ip, mw, pool, nalloc, nq, 
                                  muFreed, refs, nwalive, taint3, lt_l, clear, 
                                  old_, zlo, zhi, wcnt, lw, lt_m, old_m, lt_mu, 
                                  old_mu, sdl, scn, lt, rc, old_t, zl, c, dl_, 
                                  cn_, old_mu_w, lt_, first, out_, rc_, hadw, 
                                  ata, so_, havel, tw, allr, omw, fca, sorw, 
                                  all, old_c, tws, alr, rmq, dl, cn, gen, 
                                  old_cv, lt_c, rc_c, so, out, ndl, wcn, old, 
                                  wq, still2, cvr, dw, k, cdw, ck >>

mu_unlock(self) == ul_1_cas(self) \/ ul_2_ld(self) \/ ul_3_cas(self)

sw_1_r(self) == /\ pc[self] = "sw_1_r"
                /\ IF ~scn[self]
                      THEN /\ pc' = [pc EXCEPT ![self] = "sw_2_pd"]
                           /\ UNCHANGED << nreg, sres, stack, sdl, scn >>
                      ELSE /\ IF note
                                 THEN /\ sres' = [sres EXCEPT ![self] = ECANCELED]
                                      /\ pc' = [pc EXCEPT ![self] = Head(stack[self]).pc]
                                      /\ sdl' = [sdl EXCEPT ![self] = Head(stack[self]).sdl]
                                      /\ scn' = [scn EXCEPT ![self] = Head(stack[self]).scn]
                                      /\ stack' = [stack EXCEPT ![self] = Tail(stack[self])]
                                      /\ nreg' = nreg
                                 ELSE /\ nreg' = (nreg \cup {W(self)})
                                      /\ pc' = [pc EXCEPT ![self] = "sw_2_pd"]
                                      /\ UNCHANGED << sres, stack, sdl, scn >>
                /\ UNCHANGED << word, queue, cvword, cvq, waiting, rmc, cvmu, 
                                wl, wc, sc, nww, nwsem, nww2, nreg2, sem, data, 
                                now, note, held, ret, picked, sleeps, inlock, 
                                ip, mw, pool, nalloc, nq, muFreed, refs, 
                                nwalive, taint3, lt_l, clear, old_, zlo, zhi, 
                                wcnt, lw, lt_u, old_u, tc, nwl, wtrs, wake, 
                                wty, sor, cor, rmq_, late, lt_m, old_m, lt_mu, 
                                old_mu, lt_mu_, ww, old_mu_, lt, rc, old_t, zl, 
                                c, dl_, cn_, old_mu_w, lt_, first, out_, rc_, 
                                hadw, ata, so_, havel, tw, allr, omw, fca, 
                                sorw, all, old_c, tws, alr, rmq, dl, cn, gen, 
                                old_cv, lt_c, rc_c, so, out, ndl, wcn, old, wq, 
                                still2, cvr, dw, k, cdw, ck >>

sw_2_pd(self) == /\ pc[self] = "sw_2_pd"
                 /\ sem[W(self)] > 0 \/ Expired(sdl[self], now)
                 /\ IF sem[W(self)] > 0
                       THEN /\ sem' = [sem EXCEPT ![W(self)] = sem[W(self)] - 1]
                            /\ sres' = [sres EXCEPT ![self] = 0]
                       ELSE /\ sres' = [sres EXCEPT ![self] = ETIMEDOUT]
                            /\ sem' = sem
                 /\ nreg' = nreg \ {W(self)}
                 /\ pc' = [pc EXCEPT ![self] = Head(stack[self]).pc]
                 /\ sdl' = [sdl EXCEPT ![self] = Head(stack[self]).sdl]
                 /\ scn' = [scn EXCEPT ![self] = Head(stack[self]).scn]
                 /\ stack' = [stack EXCEPT ![self] = Tail(stack[self])]
                 /\ UNCHANGED << word, queue, cvword, cvq, waiting, rmc, cvmu, 
                                 wl, wc, sc, nww, nwsem, nww2, nreg2, data, 
                                 now, note, held, ret, picked, sleeps, inlock, 
                                 ip, mw, pool, nalloc, nq, muFreed, refs, 
                                 nwalive, taint3, lt_l, clear, old_, zlo, zhi, 
                                 wcnt, lw, lt_u, old_u, tc, nwl, wtrs, wake, 
                                 wty, sor, cor, rmq_, late, lt_m, old_m, lt_mu, 
                                 old_mu, lt_mu_, ww, old_mu_, lt, rc, old_t, 
                                 zl, c, dl_, cn_, old_mu_w, lt_, first, out_, 
                                 rc_, hadw, ata, so_, havel, tw, allr, omw, 
                                 fca, sorw, all, old_c, tws, alr, rmq, dl, cn, 
                                 gen, old_cv, lt_c, rc_c, so, out, ndl, wcn, 
                                 old, wq, still2, cvr, dw, k, cdw, ck >>

sem_wait(self) == sw_1_r(self) \/ sw_2_pd(self)

ta_1_ld(self) == /\ pc[self] = "ta_1_ld"
                 /\ old_t' = [old_t EXCEPT ![self] = word]
                 /\ IF (AndZ(old_t'[self], zl[self], WZHI) + (old_t'[self] & SPIN)) = 0
                       THEN /\ pc' = [pc EXCEPT ![self] = "ta_2_cas"]
                       ELSE /\ IF TaWoke
                                  THEN /\ pc' = [pc EXCEPT ![self] = "ta_4_ld"]
                                  ELSE /\ IF (old_t'[self] & (WRW + SPIN)) = 0
                                             THEN /\ pc' = [pc EXCEPT ![self] = "ta_3_cas"]
                                             ELSE /\ pc' = [pc EXCEPT ![self] = "ta_d"]
                 /\ UNCHANGED << word, queue, cvword, cvq, waiting, rmc, cvmu, 
                                 wl, wc, sc, nww, nwsem, nww2, nreg2, sem, 
                                 data, now, note, nreg, held, ret, sres, 
                                 picked, sleeps, inlock, ip, mw, pool, nalloc, 
                                 nq, muFreed, refs, nwalive, taint3, stack, 
                                 lt_l, clear, old_, zlo, zhi, wcnt, lw, lt_u, 
                                 old_u, tc, nwl, wtrs, wake, wty, sor, cor, 
                                 rmq_, late, lt_m, old_m, lt_mu, old_mu, 
                                 lt_mu_, ww, old_mu_, sdl, scn, lt, rc, zl, c, 
                                 dl_, cn_, old_mu_w, lt_, first, out_, rc_, 
                                 hadw, ata, so_, havel, tw, allr, omw, fca, 
                                 sorw, all, old_c, tws, alr, rmq, dl, cn, gen, 
                                 old_cv, lt_c, rc_c, so, out, ndl, wcn, old, 
                                 wq, still2, cvr, dw, k, cdw, ck >>

ta_2_cas(self) == /\ pc[self] = "ta_2_cas"
                  /\ IF word = old_t[self]
                        THEN /\ word' = Clr((old_t[self] + LTW.add) + SPIN, LTW.coa)
                             /\ pc' = [pc EXCEPT ![self] = "ta_5_ld"]
                        ELSE /\ IF TaWoke
                                   THEN /\ pc' = [pc EXCEPT ![self] = "ta_4_ld"]
                                   ELSE /\ IF (old_t[self] & (WRW + SPIN)) = 0
                                              THEN /\ pc' = [pc EXCEPT ![self] = "ta_3_cas"]
                                              ELSE /\ pc' = [pc EXCEPT ![self] = "ta_d"]
                             /\ word' = word
                  /\ UNCHANGED << queue, cvword, cvq, waiting, rmc, cvmu, wl, 
                                  wc, sc, nww, nwsem, nww2, nreg2, sem, data, 
                                  now, note, nreg, held, ret, sres, picked, 
                                  sleeps, inlock, ip, mw, pool, nalloc, nq, 
                                  muFreed, refs, nwalive, taint3, stack, lt_l, 
                                  clear, old_, zlo, zhi, wcnt, lw, lt_u, old_u, 
                                  tc, nwl, wtrs, wake, wty, sor, cor, rmq_, 
                                  late, lt_m, old_m, lt_mu, old_mu, lt_mu_, ww, 
                                  old_mu_, sdl, scn, lt, rc, old_t, zl, c, dl_, 
                                  cn_, old_mu_w, lt_, first, out_, rc_, hadw, 
                                  ata, so_, havel, tw, allr, omw, fca, sorw, 
                                  all, old_c, tws, alr, rmq, dl, cn, gen, 
                                  old_cv, lt_c, rc_c, so, out, ndl, wcn, old, 
                                  wq, still2, cvr, dw, k, cdw, ck >>

ta_4_ld(self) == /\ pc[self] = "ta_4_ld"
                 /\ IF waiting[W(self)] = 0
                       THEN /\ zl' = [zl EXCEPT ![self] = Clr(WZLO, LONGW)]
                       ELSE /\ TRUE
                            /\ zl' = zl
                 /\ IF (old_t[self] & (WRW + SPIN)) = 0
                       THEN /\ pc' = [pc EXCEPT ![self] = "ta_3_cas"]
                       ELSE /\ pc' = [pc EXCEPT ![self] = "ta_d"]
                 /\ UNCHANGED << word, queue, cvword, cvq, waiting, rmc, cvmu, 
                                 wl, wc, sc, nww, nwsem, nww2, nreg2, sem, 
                                 data, now, note, nreg, held, ret, sres, 
                                 picked, sleeps, inlock, ip, mw, pool, nalloc, 
                                 nq, muFreed, refs, nwalive, taint3, stack, 
                                 lt_l, clear, old_, zlo, zhi, wcnt, lw, lt_u, 
                                 old_u, tc, nwl, wtrs, wake, wty, sor, cor, 
                                 rmq_, late, lt_m, old_m, lt_mu, old_mu, 
                                 lt_mu_, ww, old_mu_, sdl, scn, lt, rc, old_t, 
                                 c, dl_, cn_, old_mu_w, lt_, first, out_, rc_, 
                                 hadw, ata, so_, havel, tw, allr, omw, fca, 
                                 sorw, all, old_c, tws, alr, rmq, dl, cn, gen, 
                                 old_cv, lt_c, rc_c, so, out, ndl, wcn, old, 
                                 wq, still2, cvr, dw, k, cdw, ck >>

ta_3_cas(self) == /\ pc[self] = "ta_3_cas"
                  /\ IF word = old_t[self]
                        THEN /\ word' = old_t[self] | WRW
                        ELSE /\ TRUE
                             /\ word' = word
                  /\ pc' = [pc EXCEPT ![self] = "ta_d"]
                  /\ UNCHANGED << queue, cvword, cvq, waiting, rmc, cvmu, wl, 
                                  wc, sc, nww, nwsem, nww2, nreg2, sem, data, 
                                  now, note, nreg, held, ret, sres, picked, 
                                  sleeps, inlock, ip, mw, pool, nalloc, nq, 
                                  muFreed, refs, nwalive, taint3, stack, lt_l, 
                                  clear, old_, zlo, zhi, wcnt, lw, lt_u, old_u, 
                                  tc, nwl, wtrs, wake, wty, sor, cor, rmq_, 
                                  late, lt_m, old_m, lt_mu, old_mu, lt_mu_, ww, 
                                  old_mu_, sdl, scn, lt, rc, old_t, zl, c, dl_, 
                                  cn_, old_mu_w, lt_, first, out_, rc_, hadw, 
                                  ata, so_, havel, tw, allr, omw, fca, sorw, 
                                  all, old_c, tws, alr, rmq, dl, cn, gen, 
                                  old_cv, lt_c, rc_c, so, out, ndl, wcn, old, 
                                  wq, still2, cvr, dw, k, cdw, ck >>

ta_d(self) == /\ pc[self] = "ta_d"
              /\ pc' = [pc EXCEPT ![self] = "ta_1_ld"]
              /\ UNCHANGED << word, queue, cvword, cvq, waiting, rmc, cvmu, wl, 
                              wc, sc, nww, nwsem, nww2, nreg2, sem, data, now, 
                              note, nreg, held, ret, sres, picked, sleeps, 
                              inlock, ip, mw, pool, nalloc, nq, muFreed, refs, 
                              nwalive, taint3, stack, lt_l, clear, old_, zlo, 
                              zhi, wcnt, lw, lt_u, old_u, tc, nwl, wtrs, wake, 
                              wty, sor, cor, rmq_, late, lt_m, old_m, lt_mu, 
                              old_mu, lt_mu_, ww, old_mu_, sdl, scn, lt, rc, 
                              old_t, zl, c, dl_, cn_, old_mu_w, lt_, first, 
                              out_, rc_, hadw, ata, so_, havel, tw, allr, omw, 
                              fca, sorw, all, old_c, tws, alr, rmq, dl, cn, 
                              gen, old_cv, lt_c, rc_c, so, out, ndl, wcn, old, 
                              wq, still2, cvr, dw, k, cdw, ck >>

ta_5_ld(self) == /\ pc[self] = "ta_5_ld"
                 /\ IF waiting[W(self)] = 0
                       THEN /\ pc' = [pc EXCEPT ![self] = "ta_9_st"]
                       ELSE /\ pc' = [pc EXCEPT ![self] = "ta_6_ld"]
                 /\ UNCHANGED << word, queue, cvword, cvq, waiting, rmc, cvmu, 
                                 wl, wc, sc, nww, nwsem, nww2, nreg2, sem, 
                                 data, now, note, nreg, held, ret, sres, 
                                 picked, sleeps, inlock, ip, mw, pool, nalloc, 
                                 nq, muFreed, refs, nwalive, taint3, stack, 
                                 lt_l, clear, old_, zlo, zhi, wcnt, lw, lt_u, 
                                 old_u, tc, nwl, wtrs, wake, wty, sor, cor, 
                                 rmq_, late, lt_m, old_m, lt_mu, old_mu, 
                                 lt_mu_, ww, old_mu_, sdl, scn, lt, rc, old_t, 
                                 zl, c, dl_, cn_, old_mu_w, lt_, first, out_, 
                                 rc_, hadw, ata, so_, havel, tw, allr, omw, 
                                 fca, sorw, all, old_c, tws, alr, rmq, dl, cn, 
                                 gen, old_cv, lt_c, rc_c, so, out, ndl, wcn, 
                                 old, wq, still2, cvr, dw, k, cdw, ck >>

ta_6_ld(self) == /\ pc[self] = "ta_6_ld"
                 /\ IF rc[self] # rmc[W(self)]
                       THEN /\ pc' = [pc EXCEPT ![self] = "ta_9_st"]
                            /\ UNCHANGED << queue, sc >>
                       ELSE /\ LET r == RemoveQ(queue, sc, wc, W(self)) IN
                                 /\ queue' = r.q
                                 /\ sc' = r.R
                            /\ pc' = [pc EXCEPT ![self] = "ta_7_ld"]
                 /\ UNCHANGED << word, cvword, cvq, waiting, rmc, cvmu, wl, wc, 
                                 nww, nwsem, nww2, nreg2, sem, data, now, note, 
                                 nreg, held, ret, sres, picked, sleeps, inlock, 
                                 ip, mw, pool, nalloc, nq, muFreed, refs, 
                                 nwalive, taint3, stack, lt_l, clear, old_, 
                                 zlo, zhi, wcnt, lw, lt_u, old_u, tc, nwl, 
                                 wtrs, wake, wty, sor, cor, rmq_, late, lt_m, 
                                 old_m, lt_mu, old_mu, lt_mu_, ww, old_mu_, 
                                 sdl, scn, lt, rc, old_t, zl, c, dl_, cn_, 
                                 old_mu_w, lt_, first, out_, rc_, hadw, ata, 
                                 so_, havel, tw, allr, omw, fca, sorw, all, 
                                 old_c, tws, alr, rmq, dl, cn, gen, old_cv, 
                                 lt_c, rc_c, so, out, ndl, wcn, old, wq, 
                                 still2, cvr, dw, k, cdw, ck >>

ta_7_ld(self) == /\ pc[self] = "ta_7_ld"
                 /\ TRUE
                 /\ pc' = [pc EXCEPT ![self] = "ta_7_cas"]
                 /\ UNCHANGED << word, queue, cvword, cvq, waiting, rmc, cvmu, 
                                 wl, wc, sc, nww, nwsem, nww2, nreg2, sem, 
                                 data, now, note, nreg, held, ret, sres, 
                                 picked, sleeps, inlock, ip, mw, pool, nalloc, 
                                 nq, muFreed, refs, nwalive, taint3, stack, 
                                 lt_l, clear, old_, zlo, zhi, wcnt, lw, lt_u, 
                                 old_u, tc, nwl, wtrs, wake, wty, sor, cor, 
                                 rmq_, late, lt_m, old_m, lt_mu, old_mu, 
                                 lt_mu_, ww, old_mu_, sdl, scn, lt, rc, old_t, 
                                 zl, c, dl_, cn_, old_mu_w, lt_, first, out_, 
                                 rc_, hadw, ata, so_, havel, tw, allr, omw, 
                                 fca, sorw, all, old_c, tws, alr, rmq, dl, cn, 
                                 gen, old_cv, lt_c, rc_c, so, out, ndl, wcn, 
                                 old, wq, still2, cvr, dw, k, cdw, ck >>

ta_7_cas(self) == /\ pc[self] = "ta_7_cas"
                  /\ rmc' = [rmc EXCEPT ![W(self)] = rmc[W(self)] + 1]
                  /\ pc' = [pc EXCEPT ![self] = "ta_8_st"]
                  /\ UNCHANGED << word, queue, cvword, cvq, waiting, cvmu, wl, 
                                  wc, sc, nww, nwsem, nww2, nreg2, sem, data, 
                                  now, note, nreg, held, ret, sres, picked, 
                                  sleeps, inlock, ip, mw, pool, nalloc, nq, 
                                  muFreed, refs, nwalive, taint3, stack, lt_l, 
                                  clear, old_, zlo, zhi, wcnt, lw, lt_u, old_u, 
                                  tc, nwl, wtrs, wake, wty, sor, cor, rmq_, 
                                  late, lt_m, old_m, lt_mu, old_mu, lt_mu_, ww, 
                                  old_mu_, sdl, scn, lt, rc, old_t, zl, c, dl_, 
                                  cn_, old_mu_w, lt_, first, out_, rc_, hadw, 
                                  ata, so_, havel, tw, allr, omw, fca, sorw, 
                                  all, old_c, tws, alr, rmq, dl, cn, gen, 
                                  old_cv, lt_c, rc_c, so, out, ndl, wcn, old, 
                                  wq, still2, cvr, dw, k, cdw, ck >>

ta_8_st(self) == /\ pc[self] = "ta_8_st"
                 /\ waiting' = [waiting EXCEPT ![W(self)] = 0]
                 /\ pc' = [pc EXCEPT ![self] = "ta_8b_st"]
                 /\ UNCHANGED << word, queue, cvword, cvq, rmc, cvmu, wl, wc, 
                                 sc, nww, nwsem, nww2, nreg2, sem, data, now, 
                                 note, nreg, held, ret, sres, picked, sleeps, 
                                 inlock, ip, mw, pool, nalloc, nq, muFreed, 
                                 refs, nwalive, taint3, stack, lt_l, clear, 
                                 old_, zlo, zhi, wcnt, lw, lt_u, old_u, tc, 
                                 nwl, wtrs, wake, wty, sor, cor, rmq_, late, 
                                 lt_m, old_m, lt_mu, old_mu, lt_mu_, ww, 
                                 old_mu_, sdl, scn, lt, rc, old_t, zl, c, dl_, 
                                 cn_, old_mu_w, lt_, first, out_, rc_, hadw, 
                                 ata, so_, havel, tw, allr, omw, fca, sorw, 
                                 all, old_c, tws, alr, rmq, dl, cn, gen, 
                                 old_cv, lt_c, rc_c, so, out, ndl, wcn, old, 
                                 wq, still2, cvr, dw, k, cdw, ck >>

ta_8b_st(self) == /\ pc[self] = "ta_8b_st"
                  /\ word' = (IF TaFix THEN Clr(old_t[self], LTW.coa) ELSE old_t[self]) + Add(lt[self])
                  /\ held' = [held EXCEPT ![self] = lt[self]]
                  /\ sres' = [sres EXCEPT ![self] = 1]
                  /\ pc' = [pc EXCEPT ![self] = Head(stack[self]).pc]
                  /\ old_t' = [old_t EXCEPT ![self] = Head(stack[self]).old_t]
                  /\ zl' = [zl EXCEPT ![self] = Head(stack[self]).zl]
                  /\ lt' = [lt EXCEPT ![self] = Head(stack[self]).lt]
                  /\ rc' = [rc EXCEPT ![self] = Head(stack[self]).rc]
                  /\ stack' = [stack EXCEPT ![self] = Tail(stack[self])]
                  /\ UNCHANGED << queue, cvword, cvq, waiting, rmc, cvmu, wl, 
                                  wc, sc, nww, nwsem, nww2, nreg2, sem, data, 
                                  now, note, nreg, ret, picked, sleeps, inlock, 
                                  ip, mw, pool, nalloc, nq, muFreed, refs, 
                                  nwalive, taint3, lt_l, clear, old_, zlo, zhi, 
                                  wcnt, lw, lt_u, old_u, tc, nwl, wtrs, wake, 
                                  wty, sor, cor, rmq_, late, lt_m, old_m, 
                                  lt_mu, old_mu, lt_mu_, ww, old_mu_, sdl, scn, 
                                  c, dl_, cn_, old_mu_w, lt_, first, out_, rc_, 
                                  hadw, ata, so_, havel, tw, allr, omw, fca, 
                                  sorw, all, old_c, tws, alr, rmq, dl, cn, gen, 
                                  old_cv, lt_c, rc_c, so, out, ndl, wcn, old, 
                                  wq, still2, cvr, dw, k, cdw, ck >>

ta_9_st(self) == /\ pc[self] = "ta_9_st"
                 /\ word' = IF TaFix THEN Clr(old_t[self], LTW.coa) ELSE old_t[self]
                 /\ sres' = [sres EXCEPT ![self] = 0]
                 /\ pc' = [pc EXCEPT ![self] = Head(stack[self]).pc]
                 /\ old_t' = [old_t EXCEPT ![self] = Head(stack[self]).old_t]
                 /\ zl' = [zl EXCEPT ![self] = Head(stack[self]).zl]
                 /\ lt' = [lt EXCEPT ![self] = Head(stack[self]).lt]
                 /\ rc' = [rc EXCEPT ![self] = Head(stack[self]).rc]
                 /\ stack' = [stack EXCEPT ![self] = Tail(stack[self])]
                 /\ UNCHANGED << queue, cvword, cvq, waiting, rmc, cvmu, wl, 
                                 wc, sc, nww, nwsem, nww2, nreg2, sem, data, 
                                 now, note, nreg, held, ret, picked, sleeps, 
                                 inlock, ip, mw, pool, nalloc, nq, muFreed, 
                                 refs, nwalive, taint3, lt_l, clear, old_, zlo, 
                                 zhi, wcnt, lw, lt_u, old_u, tc, nwl, wtrs, 
                                 wake, wty, sor, cor, rmq_, late, lt_m, old_m, 
                                 lt_mu, old_mu, lt_mu_, ww, old_mu_, sdl, scn, 
                                 c, dl_, cn_, old_mu_w, lt_, first, out_, rc_, 
                                 hadw, ata, so_, havel, tw, allr, omw, fca, 
                                 sorw, all, old_c, tws, alr, rmq, dl, cn, gen, 
                                 old_cv, lt_c, rc_c, so, out, ndl, wcn, old, 
                                 wq, still2, cvr, dw, k, cdw, ck >>

try_acquire(self) == ta_1_ld(self) \/ ta_2_cas(self) \/ ta_4_ld(self)
                        \/ ta_3_cas(self) \/ ta_d(self) \/ ta_5_ld(self)
                        \/ ta_6_ld(self) \/ ta_7_ld(self) \/ ta_7_cas(self)
                        \/ ta_8_st(self) \/ ta_8b_st(self) \/ ta_9_st(self)

mw_1_ld(self) == /\ pc[self] = "mw_1_ld"
                 /\ IF (c[self] = 0) \/ CondTrue(c[self], data)
                       THEN /\ ret' = [ret EXCEPT ![self] = 0]
                            /\ pc' = [pc EXCEPT ![self] = Head(stack[self]).pc]
                            /\ old_mu_w' = [old_mu_w EXCEPT ![self] = Head(stack[self]).old_mu_w]
                            /\ lt_' = [lt_ EXCEPT ![self] = Head(stack[self]).lt_]
                            /\ first' = [first EXCEPT ![self] = Head(stack[self]).first]
                            /\ out_' = [out_ EXCEPT ![self] = Head(stack[self]).out_]
                            /\ rc_' = [rc_ EXCEPT ![self] = Head(stack[self]).rc_]
                            /\ hadw' = [hadw EXCEPT ![self] = Head(stack[self]).hadw]
                            /\ ata' = [ata EXCEPT ![self] = Head(stack[self]).ata]
                            /\ so_' = [so_ EXCEPT ![self] = Head(stack[self]).so_]
                            /\ havel' = [havel EXCEPT ![self] = Head(stack[self]).havel]
                            /\ c' = [c EXCEPT ![self] = Head(stack[self]).c]
                            /\ dl_' = [dl_ EXCEPT ![self] = Head(stack[self]).dl_]
                            /\ cn_' = [cn_ EXCEPT ![self] = Head(stack[self]).cn_]
                            /\ stack' = [stack EXCEPT ![self] = Tail(stack[self])]
                            /\ UNCHANGED << mw, pool, nalloc >>
                       ELSE /\ lt_' = [lt_ EXCEPT ![self] = IF RF(word) # 0 THEN 2 ELSE 1]
                            /\ IF mw[self] = 0
                                  THEN /\ IF pool # <<>>
                                             THEN /\ mw' = [mw EXCEPT ![self] = Head(pool)]
                                                  /\ pool' = Tail(pool)
                                                  /\ UNCHANGED nalloc
                                             ELSE /\ mw' = [mw EXCEPT ![self] = nalloc + 1]
                                                  /\ nalloc' = nalloc + 1
                                                  /\ pool' = pool
                                  ELSE /\ TRUE
                                       /\ UNCHANGED << mw, pool, nalloc >>
                            /\ pc' = [pc EXCEPT ![self] = "mw_2_st"]
                            /\ UNCHANGED << ret, stack, c, dl_, cn_, old_mu_w, 
                                            first, out_, rc_, hadw, ata, so_, 
                                            havel >>
                 /\ UNCHANGED << word, queue, cvword, cvq, waiting, rmc, cvmu, 
                                 wl, wc, sc, nww, nwsem, nww2, nreg2, sem, 
                                 data, now, note, nreg, held, sres, picked, 
                                 sleeps, inlock, ip, nq, muFreed, refs, 
                                 nwalive, taint3, lt_l, clear, old_, zlo, zhi, 
                                 wcnt, lw, lt_u, old_u, tc, nwl, wtrs, wake, 
                                 wty, sor, cor, rmq_, late, lt_m, old_m, lt_mu, 
                                 old_mu, lt_mu_, ww, old_mu_, sdl, scn, lt, rc, 
                                 old_t, zl, tw, allr, omw, fca, sorw, all, 
                                 old_c, tws, alr, rmq, dl, cn, gen, old_cv, 
                                 lt_c, rc_c, so, out, ndl, wcn, old, wq, 
                                 still2, cvr, dw, k, cdw, ck >>

mw_2_st(self) == /\ pc[self] = "mw_2_st"
                 /\ waiting' = [waiting EXCEPT ![W(self)] = 1]
                 /\ cvmu' = [cvmu EXCEPT ![W(self)] = FALSE]
                 /\ wl' = [wl EXCEPT ![W(self)] = lt_[self]]
                 /\ wc' = [wc EXCEPT ![W(self)] = c[self]]
                 /\ pc' = [pc EXCEPT ![self] = "mw_3_ld"]
                 /\ UNCHANGED << word, queue, cvword, cvq, rmc, sc, nww, nwsem, 
                                 nww2, nreg2, sem, data, now, note, nreg, held, 
                                 ret, sres, picked, sleeps, inlock, ip, mw, 
                                 pool, nalloc, nq, muFreed, refs, nwalive, 
                                 taint3, stack, lt_l, clear, old_, zlo, zhi, 
                                 wcnt, lw, lt_u, old_u, tc, nwl, wtrs, wake, 
                                 wty, sor, cor, rmq_, late, lt_m, old_m, lt_mu, 
                                 old_mu, lt_mu_, ww, old_mu_, sdl, scn, lt, rc, 
                                 old_t, zl, c, dl_, cn_, old_mu_w, lt_, first, 
                                 out_, rc_, hadw, ata, so_, havel, tw, allr, 
                                 omw, fca, sorw, all, old_c, tws, alr, rmq, dl, 
                                 cn, gen, old_cv, lt_c, rc_c, so, out, ndl, 
                                 wcn, old, wq, still2, cvr, dw, k, cdw, ck >>

mw_3_ld(self) == /\ pc[self] = "mw_3_ld"
                 /\ rc_' = [rc_ EXCEPT ![self] = rmc[W(self)]]
                 /\ pc' = [pc EXCEPT ![self] = "mw_4_ld"]
                 /\ UNCHANGED << word, queue, cvword, cvq, waiting, rmc, cvmu, 
                                 wl, wc, sc, nww, nwsem, nww2, nreg2, sem, 
                                 data, now, note, nreg, held, ret, sres, 
                                 picked, sleeps, inlock, ip, mw, pool, nalloc, 
                                 nq, muFreed, refs, nwalive, taint3, stack, 
                                 lt_l, clear, old_, zlo, zhi, wcnt, lw, lt_u, 
                                 old_u, tc, nwl, wtrs, wake, wty, sor, cor, 
                                 rmq_, late, lt_m, old_m, lt_mu, old_mu, 
                                 lt_mu_, ww, old_mu_, sdl, scn, lt, rc, old_t, 
                                 zl, c, dl_, cn_, old_mu_w, lt_, first, out_, 
                                 hadw, ata, so_, havel, tw, allr, omw, fca, 
                                 sorw, all, old_c, tws, alr, rmq, dl, cn, gen, 
                                 old_cv, lt_c, rc_c, so, out, ndl, wcn, old, 
                                 wq, still2, cvr, dw, k, cdw, ck >>

mw_4_ld(self) == /\ pc[self] = "mw_4_ld"
                 /\ old_mu_w' = [old_mu_w EXCEPT ![self] = word]
                 /\ IF (old_mu_w'[self] & SPIN) # 0
                       THEN /\ pc' = [pc EXCEPT ![self] = "mw_4_d"]
                       ELSE /\ pc' = [pc EXCEPT ![self] = "mw_5_cas"]
                 /\ UNCHANGED << word, queue, cvword, cvq, waiting, rmc, cvmu, 
                                 wl, wc, sc, nww, nwsem, nww2, nreg2, sem, 
                                 data, now, note, nreg, held, ret, sres, 
                                 picked, sleeps, inlock, ip, mw, pool, nalloc, 
                                 nq, muFreed, refs, nwalive, taint3, stack, 
                                 lt_l, clear, old_, zlo, zhi, wcnt, lw, lt_u, 
                                 old_u, tc, nwl, wtrs, wake, wty, sor, cor, 
                                 rmq_, late, lt_m, old_m, lt_mu, old_mu, 
                                 lt_mu_, ww, old_mu_, sdl, scn, lt, rc, old_t, 
                                 zl, c, dl_, cn_, lt_, first, out_, rc_, hadw, 
                                 ata, so_, havel, tw, allr, omw, fca, sorw, 
                                 all, old_c, tws, alr, rmq, dl, cn, gen, 
                                 old_cv, lt_c, rc_c, so, out, ndl, wcn, old, 
                                 wq, still2, cvr, dw, k, cdw, ck >>

mw_5_cas(self) == /\ pc[self] = "mw_5_cas"
                  /\ IF word = old_mu_w[self]
                        THEN /\ word' = Clr(((old_mu_w[self] | SPIN) | WAITING) | (IF c[self] # 0 THEN CONDB ELSE 0), ALLF)
                             /\ hadw' = [hadw EXCEPT ![self] = IF MwFix THEN (old_mu_w[self] & WAITING) # 0 ELSE (old_mu_w[self] & (DESIG + WAITING)) = WAITING]
                             /\ IF first[self]
                                   THEN /\ sc' = Merge(sc, wc, Last(queue), W(self))
                                        /\ queue' = Append(queue, W(self))
                                        /\ nq' = (IF nq < N THEN nq + 1 ELSE nq)
                                   ELSE /\ sc' = Merge(sc, wc, W(self), First(queue))
                                        /\ queue' = <<W(self)>> \o queue
                                        /\ nq' = nq
                             /\ first' = [first EXCEPT ![self] = FALSE]
                             /\ held' = [held EXCEPT ![self] = 0]
                             /\ pc' = [pc EXCEPT ![self] = "mw_6_ld"]
                        ELSE /\ pc' = [pc EXCEPT ![self] = "mw_4_d"]
                             /\ UNCHANGED << word, queue, sc, held, nq, first, 
                                             hadw >>
                  /\ UNCHANGED << cvword, cvq, waiting, rmc, cvmu, wl, wc, nww, 
                                  nwsem, nww2, nreg2, sem, data, now, note, 
                                  nreg, ret, sres, picked, sleeps, inlock, ip, 
                                  mw, pool, nalloc, muFreed, refs, nwalive, 
                                  taint3, stack, lt_l, clear, old_, zlo, zhi, 
                                  wcnt, lw, lt_u, old_u, tc, nwl, wtrs, wake, 
                                  wty, sor, cor, rmq_, late, lt_m, old_m, 
                                  lt_mu, old_mu, lt_mu_, ww, old_mu_, sdl, scn, 
                                  lt, rc, old_t, zl, c, dl_, cn_, old_mu_w, 
                                  lt_, out_, rc_, ata, so_, havel, tw, allr, 
                                  omw, fca, sorw, all, old_c, tws, alr, rmq, 
                                  dl, cn, gen, old_cv, lt_c, rc_c, so, out, 
                                  ndl, wcn, old, wq, still2, cvr, dw, k, cdw, 
                                  ck >>

mw_4_d(self) == /\ pc[self] = "mw_4_d"
                /\ pc' = [pc EXCEPT ![self] = "mw_4_ld"]
                /\ UNCHANGED << word, queue, cvword, cvq, waiting, rmc, cvmu, 
                                wl, wc, sc, nww, nwsem, nww2, nreg2, sem, data, 
                                now, note, nreg, held, ret, sres, picked, 
                                sleeps, inlock, ip, mw, pool, nalloc, nq, 
                                muFreed, refs, nwalive, taint3, stack, lt_l, 
                                clear, old_, zlo, zhi, wcnt, lw, lt_u, old_u, 
                                tc, nwl, wtrs, wake, wty, sor, cor, rmq_, late, 
                                lt_m, old_m, lt_mu, old_mu, lt_mu_, ww, 
                                old_mu_, sdl, scn, lt, rc, old_t, zl, c, dl_, 
                                cn_, old_mu_w, lt_, first, out_, rc_, hadw, 
                                ata, so_, havel, tw, allr, omw, fca, sorw, all, 
                                old_c, tws, alr, rmq, dl, cn, gen, old_cv, 
                                lt_c, rc_c, so, out, ndl, wcn, old, wq, still2, 
                                cvr, dw, k, cdw, ck >>

mw_6_ld(self) == /\ pc[self] = "mw_6_ld"
                 /\ old_mu_w' = [old_mu_w EXCEPT ![self] = word]
                 /\ ata' = [ata EXCEPT ![self] = IF AnyLock(old_mu_w'[self] - Add(lt_[self])) = 0 /\ hadw[self] /\ (~MwFix \/ (old_mu_w'[self] & DESIG) = 0) THEN 0 ELSE Add(lt_[self])]
                 /\ pc' = [pc EXCEPT ![self] = "mw_7_cas"]
                 /\ UNCHANGED << word, queue, cvword, cvq, waiting, rmc, cvmu, 
                                 wl, wc, sc, nww, nwsem, nww2, nreg2, sem, 
                                 data, now, note, nreg, held, ret, sres, 
                                 picked, sleeps, inlock, ip, mw, pool, nalloc, 
                                 nq, muFreed, refs, nwalive, taint3, stack, 
                                 lt_l, clear, old_, zlo, zhi, wcnt, lw, lt_u, 
                                 old_u, tc, nwl, wtrs, wake, wty, sor, cor, 
                                 rmq_, late, lt_m, old_m, lt_mu, old_mu, 
                                 lt_mu_, ww, old_mu_, sdl, scn, lt, rc, old_t, 
                                 zl, c, dl_, cn_, lt_, first, out_, rc_, hadw, 
                                 so_, havel, tw, allr, omw, fca, sorw, all, 
                                 old_c, tws, alr, rmq, dl, cn, gen, old_cv, 
                                 lt_c, rc_c, so, out, ndl, wcn, old, wq, 
                                 still2, cvr, dw, k, cdw, ck >>

mw_7_cas(self) == /\ pc[self] = "mw_7_cas"
                  /\ IF word = old_mu_w[self]
                        THEN /\ word' = Clr(old_mu_w[self] - ata[self], SPIN)
                             /\ so_' = [so_ EXCEPT ![self] = 0]
                             /\ havel' = [havel EXCEPT ![self] = FALSE]
                             /\ IF ata[self] = 0
                                   THEN /\ /\ lt_u' = [lt_u EXCEPT ![self] = lt_[self]]
                                           /\ stack' = [stack EXCEPT ![self] = << [ procedure |->  "unlock_slow",
                                                                                    pc        |->  "mw_8_ld",
                                                                                    old_u     |->  old_u[self],
                                                                                    tc        |->  tc[self],
                                                                                    nwl       |->  nwl[self],
                                                                                    wtrs      |->  wtrs[self],
                                                                                    wake      |->  wake[self],
                                                                                    wty       |->  wty[self],
                                                                                    sor       |->  sor[self],
                                                                                    cor       |->  cor[self],
                                                                                    rmq_      |->  rmq_[self],
                                                                                    late      |->  late[self],
                                                                                    lt_u      |->  lt_u[self] ] >>
                                                                                \o stack[self]]
                                        /\ old_u' = [old_u EXCEPT ![self] = 0]
                                        /\ tc' = [tc EXCEPT ![self] = FALSE]
                                        /\ nwl' = [nwl EXCEPT ![self] = <<>>]
                                        /\ wtrs' = [wtrs EXCEPT ![self] = <<>>]
                                        /\ wake' = [wake EXCEPT ![self] = <<>>]
                                        /\ wty' = [wty EXCEPT ![self] = 0]
                                        /\ sor' = [sor EXCEPT ![self] = 0]
                                        /\ cor' = [cor EXCEPT ![self] = 0]
                                        /\ rmq_' = [rmq_ EXCEPT ![self] = <<>>]
                                        /\ late' = [late EXCEPT ![self] = 0]
                                        /\ pc' = [pc EXCEPT ![self] = "us_1_ld"]
                                   ELSE /\ pc' = [pc EXCEPT ![self] = "mw_8_ld"]
                                        /\ UNCHANGED << stack, lt_u, old_u, tc, 
                                                        nwl, wtrs, wake, wty, 
                                                        sor, cor, rmq_, late >>
                        ELSE /\ pc' = [pc EXCEPT ![self] = "mw_6_ld"]
                             /\ UNCHANGED << word, stack, lt_u, old_u, tc, nwl, 
                                             wtrs, wake, wty, sor, cor, rmq_, 
                                             late, so_, havel >>
                  /\ UNCHANGED << queue, cvword, cvq, waiting, rmc, cvmu, wl, 
                                  wc, sc, nww, nwsem, nww2, nreg2, sem, data, 
                                  now, note, nreg, held, ret, sres, picked, 
                                  sleeps, inlock, ip, mw, pool, nalloc, nq, 
                                  muFreed, refs, nwalive, taint3, lt_l, clear, 
                                  old_, zlo, zhi, wcnt, lw, lt_m, old_m, lt_mu, 
                                  old_mu, lt_mu_, ww, old_mu_, sdl, scn, lt, 
                                  rc, old_t, zl, c, dl_, cn_, old_mu_w, lt_, 
                                  first, out_, rc_, hadw, ata, tw, allr, omw, 
                                  fca, sorw, all, old_c, tws, alr, rmq, dl, cn, 
                                  gen, old_cv, lt_c, rc_c, so, out, ndl, wcn, 
                                  old, wq, still2, cvr, dw, k, cdw, ck >>

mw_8_ld(self) == /\ pc[self] = "mw_8_ld"
                 /\ IF waiting[W(self)] = 0
                       THEN /\ pc' = [pc EXCEPT ![self] = "mw_13_l"]
                            /\ UNCHANGED << stack, sdl, scn >>
                       ELSE /\ IF so_[self] # 0
                                  THEN /\ pc' = [pc EXCEPT ![self] = "mw_12_ld"]
                                       /\ UNCHANGED << stack, sdl, scn >>
                                  ELSE /\ /\ scn' = [scn EXCEPT ![self] = cn_[self]]
                                          /\ sdl' = [sdl EXCEPT ![self] = dl_[self]]
                                          /\ stack' = [stack EXCEPT ![self] = << [ procedure |->  "sem_wait",
                                                                                   pc        |->  "mw_9b_l",
                                                                                   sdl       |->  sdl[self],
                                                                                   scn       |->  scn[self] ] >>
                                                                               \o stack[self]]
                                       /\ pc' = [pc EXCEPT ![self] = "sw_1_r"]
                 /\ UNCHANGED << word, queue, cvword, cvq, waiting, rmc, cvmu, 
                                 wl, wc, sc, nww, nwsem, nww2, nreg2, sem, 
                                 data, now, note, nreg, held, ret, sres, 
                                 picked, sleeps, inlock, ip, mw, pool, nalloc, 
                                 nq, muFreed, refs, nwalive, taint3, lt_l, 
                                 clear, old_, zlo, zhi, wcnt, lw, lt_u, old_u, 
                                 tc, nwl, wtrs, wake, wty, sor, cor, rmq_, 
                                 late, lt_m, old_m, lt_mu, old_mu, lt_mu_, ww, 
                                 old_mu_, lt, rc, old_t, zl, c, dl_, cn_, 
                                 old_mu_w, lt_, first, out_, rc_, hadw, ata, 
                                 so_, havel, tw, allr, omw, fca, sorw, all, 
                                 old_c, tws, alr, rmq, dl, cn, gen, old_cv, 
                                 lt_c, rc_c, so, out, ndl, wcn, old, wq, 
                                 still2, cvr, dw, k, cdw, ck >>

mw_9b_l(self) == /\ pc[self] = "mw_9b_l"
                 /\ so_' = [so_ EXCEPT ![self] = sres[self]]
                 /\ IF so_'[self] = 0
                       THEN /\ pc' = [pc EXCEPT ![self] = "mw_12_ld"]
                       ELSE /\ pc' = [pc EXCEPT ![self] = "mw_10_ld"]
                 /\ UNCHANGED << word, queue, cvword, cvq, waiting, rmc, cvmu, 
                                 wl, wc, sc, nww, nwsem, nww2, nreg2, sem, 
                                 data, now, note, nreg, held, ret, sres, 
                                 picked, sleeps, inlock, ip, mw, pool, nalloc, 
                                 nq, muFreed, refs, nwalive, taint3, stack, 
                                 lt_l, clear, old_, zlo, zhi, wcnt, lw, lt_u, 
                                 old_u, tc, nwl, wtrs, wake, wty, sor, cor, 
                                 rmq_, late, lt_m, old_m, lt_mu, old_mu, 
                                 lt_mu_, ww, old_mu_, sdl, scn, lt, rc, old_t, 
                                 zl, c, dl_, cn_, old_mu_w, lt_, first, out_, 
                                 rc_, hadw, ata, havel, tw, allr, omw, fca, 
                                 sorw, all, old_c, tws, alr, rmq, dl, cn, gen, 
                                 old_cv, lt_c, rc_c, so, out, ndl, wcn, old, 
                                 wq, still2, cvr, dw, k, cdw, ck >>

mw_10_ld(self) == /\ pc[self] = "mw_10_ld"
                  /\ IF waiting[W(self)] = 0
                        THEN /\ pc' = [pc EXCEPT ![self] = "mw_12_ld"]
                        ELSE /\ pc' = [pc EXCEPT ![self] = "mw_11_l"]
                  /\ UNCHANGED << word, queue, cvword, cvq, waiting, rmc, cvmu, 
                                  wl, wc, sc, nww, nwsem, nww2, nreg2, sem, 
                                  data, now, note, nreg, held, ret, sres, 
                                  picked, sleeps, inlock, ip, mw, pool, nalloc, 
                                  nq, muFreed, refs, nwalive, taint3, stack, 
                                  lt_l, clear, old_, zlo, zhi, wcnt, lw, lt_u, 
                                  old_u, tc, nwl, wtrs, wake, wty, sor, cor, 
                                  rmq_, late, lt_m, old_m, lt_mu, old_mu, 
                                  lt_mu_, ww, old_mu_, sdl, scn, lt, rc, old_t, 
                                  zl, c, dl_, cn_, old_mu_w, lt_, first, out_, 
                                  rc_, hadw, ata, so_, havel, tw, allr, omw, 
                                  fca, sorw, all, old_c, tws, alr, rmq, dl, cn, 
                                  gen, old_cv, lt_c, rc_c, so, out, ndl, wcn, 
                                  old, wq, still2, cvr, dw, k, cdw, ck >>

mw_11_l(self) == /\ pc[self] = "mw_11_l"
                 /\ /\ lt' = [lt EXCEPT ![self] = lt_[self]]
                    /\ rc' = [rc EXCEPT ![self] = rc_[self]]
                    /\ stack' = [stack EXCEPT ![self] = << [ procedure |->  "try_acquire",
                                                             pc        |->  "mw_11b_l",
                                                             old_t     |->  old_t[self],
                                                             zl        |->  zl[self],
                                                             lt        |->  lt[self],
                                                             rc        |->  rc[self] ] >>
                                                         \o stack[self]]
                 /\ old_t' = [old_t EXCEPT ![self] = 0]
                 /\ zl' = [zl EXCEPT ![self] = WZLO]
                 /\ pc' = [pc EXCEPT ![self] = "ta_1_ld"]
                 /\ UNCHANGED << word, queue, cvword, cvq, waiting, rmc, cvmu, 
                                 wl, wc, sc, nww, nwsem, nww2, nreg2, sem, 
                                 data, now, note, nreg, held, ret, sres, 
                                 picked, sleeps, inlock, ip, mw, pool, nalloc, 
                                 nq, muFreed, refs, nwalive, taint3, lt_l, 
                                 clear, old_, zlo, zhi, wcnt, lw, lt_u, old_u, 
                                 tc, nwl, wtrs, wake, wty, sor, cor, rmq_, 
                                 late, lt_m, old_m, lt_mu, old_mu, lt_mu_, ww, 
                                 old_mu_, sdl, scn, c, dl_, cn_, old_mu_w, lt_, 
                                 first, out_, rc_, hadw, ata, so_, havel, tw, 
                                 allr, omw, fca, sorw, all, old_c, tws, alr, 
                                 rmq, dl, cn, gen, old_cv, lt_c, rc_c, so, out, 
                                 ndl, wcn, old, wq, still2, cvr, dw, k, cdw, 
                                 ck >>

mw_11b_l(self) == /\ pc[self] = "mw_11b_l"
                  /\ havel' = [havel EXCEPT ![self] = (sres[self] = 1)]
                  /\ IF havel'[self]
                        THEN /\ out_' = [out_ EXCEPT ![self] = so_[self]]
                        ELSE /\ TRUE
                             /\ out_' = out_
                  /\ pc' = [pc EXCEPT ![self] = "mw_12_ld"]
                  /\ UNCHANGED << word, queue, cvword, cvq, waiting, rmc, cvmu, 
                                  wl, wc, sc, nww, nwsem, nww2, nreg2, sem, 
                                  data, now, note, nreg, held, ret, sres, 
                                  picked, sleeps, inlock, ip, mw, pool, nalloc, 
                                  nq, muFreed, refs, nwalive, taint3, stack, 
                                  lt_l, clear, old_, zlo, zhi, wcnt, lw, lt_u, 
                                  old_u, tc, nwl, wtrs, wake, wty, sor, cor, 
                                  rmq_, late, lt_m, old_m, lt_mu, old_mu, 
                                  lt_mu_, ww, old_mu_, sdl, scn, lt, rc, old_t, 
                                  zl, c, dl_, cn_, old_mu_w, lt_, first, rc_, 
                                  hadw, ata, so_, tw, allr, omw, fca, sorw, 
                                  all, old_c, tws, alr, rmq, dl, cn, gen, 
                                  old_cv, lt_c, rc_c, so, out, ndl, wcn, old, 
                                  wq, still2, cvr, dw, k, cdw, ck >>

mw_12_ld(self) == /\ pc[self] = "mw_12_ld"
                  /\ IF waiting[W(self)] # 0
                        THEN /\ pc' = [pc EXCEPT ![self] = "mw_12_d"]
                        ELSE /\ pc' = [pc EXCEPT ![self] = "mw_8_ld"]
                  /\ UNCHANGED << word, queue, cvword, cvq, waiting, rmc, cvmu, 
                                  wl, wc, sc, nww, nwsem, nww2, nreg2, sem, 
                                  data, now, note, nreg, held, ret, sres, 
                                  picked, sleeps, inlock, ip, mw, pool, nalloc, 
                                  nq, muFreed, refs, nwalive, taint3, stack, 
                                  lt_l, clear, old_, zlo, zhi, wcnt, lw, lt_u, 
                                  old_u, tc, nwl, wtrs, wake, wty, sor, cor, 
                                  rmq_, late, lt_m, old_m, lt_mu, old_mu, 
                                  lt_mu_, ww, old_mu_, sdl, scn, lt, rc, old_t, 
                                  zl, c, dl_, cn_, old_mu_w, lt_, first, out_, 
                                  rc_, hadw, ata, so_, havel, tw, allr, omw, 
                                  fca, sorw, all, old_c, tws, alr, rmq, dl, cn, 
                                  gen, old_cv, lt_c, rc_c, so, out, ndl, wcn, 
                                  old, wq, still2, cvr, dw, k, cdw, ck >>

mw_12_d(self) == /\ pc[self] = "mw_12_d"
                 /\ pc' = [pc EXCEPT ![self] = "mw_8_ld"]
                 /\ UNCHANGED << word, queue, cvword, cvq, waiting, rmc, cvmu, 
                                 wl, wc, sc, nww, nwsem, nww2, nreg2, sem, 
                                 data, now, note, nreg, held, ret, sres, 
                                 picked, sleeps, inlock, ip, mw, pool, nalloc, 
                                 nq, muFreed, refs, nwalive, taint3, stack, 
                                 lt_l, clear, old_, zlo, zhi, wcnt, lw, lt_u, 
                                 old_u, tc, nwl, wtrs, wake, wty, sor, cor, 
                                 rmq_, late, lt_m, old_m, lt_mu, old_mu, 
                                 lt_mu_, ww, old_mu_, sdl, scn, lt, rc, old_t, 
                                 zl, c, dl_, cn_, old_mu_w, lt_, first, out_, 
                                 rc_, hadw, ata, so_, havel, tw, allr, omw, 
                                 fca, sorw, all, old_c, tws, alr, rmq, dl, cn, 
                                 gen, old_cv, lt_c, rc_c, so, out, ndl, wcn, 
                                 old, wq, still2, cvr, dw, k, cdw, ck >>

mw_13_l(self) == /\ pc[self] = "mw_13_l"
                 /\ IF ~havel[self]
                       THEN /\ /\ clear' = [clear EXCEPT ![self] = DESIG]
                               /\ lt_l' = [lt_l EXCEPT ![self] = lt_[self]]
                               /\ stack' = [stack EXCEPT ![self] = << [ procedure |->  "lock_slow",
                                                                        pc        |->  "mw_14_l",
                                                                        old_      |->  old_[self],
                                                                        zlo       |->  zlo[self],
                                                                        zhi       |->  zhi[self],
                                                                        wcnt      |->  wcnt[self],
                                                                        lw        |->  lw[self],
                                                                        lt_l      |->  lt_l[self],
                                                                        clear     |->  clear[self] ] >>
                                                                    \o stack[self]]
                            /\ old_' = [old_ EXCEPT ![self] = 0]
                            /\ zlo' = [zlo EXCEPT ![self] = 0]
                            /\ zhi' = [zhi EXCEPT ![self] = FALSE]
                            /\ wcnt' = [wcnt EXCEPT ![self] = 0]
                            /\ lw' = [lw EXCEPT ![self] = 0]
                            /\ pc' = [pc EXCEPT ![self] = "ls_1_ld"]
                       ELSE /\ pc' = [pc EXCEPT ![self] = "mw_14_l"]
                            /\ UNCHANGED << stack, lt_l, clear, old_, zlo, zhi, 
                                            wcnt, lw >>
                 /\ UNCHANGED << word, queue, cvword, cvq, waiting, rmc, cvmu, 
                                 wl, wc, sc, nww, nwsem, nww2, nreg2, sem, 
                                 data, now, note, nreg, held, ret, sres, 
                                 picked, sleeps, inlock, ip, mw, pool, nalloc, 
                                 nq, muFreed, refs, nwalive, taint3, lt_u, 
                                 old_u, tc, nwl, wtrs, wake, wty, sor, cor, 
                                 rmq_, late, lt_m, old_m, lt_mu, old_mu, 
                                 lt_mu_, ww, old_mu_, sdl, scn, lt, rc, old_t, 
                                 zl, c, dl_, cn_, old_mu_w, lt_, first, out_, 
                                 rc_, hadw, ata, so_, havel, tw, allr, omw, 
                                 fca, sorw, all, old_c, tws, alr, rmq, dl, cn, 
                                 gen, old_cv, lt_c, rc_c, so, out, ndl, wcn, 
                                 old, wq, still2, cvr, dw, k, cdw, ck >>

mw_14_l(self) == /\ pc[self] = "mw_14_l"
                 /\ IF out_[self] = 0 /\ ~((c[self] = 0) \/ CondTrue(c[self], data))
                       THEN /\ pc' = [pc EXCEPT ![self] = "mw_2_st"]
                            /\ UNCHANGED << ret, stack, c, dl_, cn_, old_mu_w, 
                                            lt_, first, out_, rc_, hadw, ata, 
                                            so_, havel >>
                       ELSE /\ ret' = [ret EXCEPT ![self] = IF (c[self] = 0) \/ CondTrue(c[self], data) THEN 0 ELSE out_[self]]
                            /\ pc' = [pc EXCEPT ![self] = Head(stack[self]).pc]
                            /\ old_mu_w' = [old_mu_w EXCEPT ![self] = Head(stack[self]).old_mu_w]
                            /\ lt_' = [lt_ EXCEPT ![self] = Head(stack[self]).lt_]
                            /\ first' = [first EXCEPT ![self] = Head(stack[self]).first]
                            /\ out_' = [out_ EXCEPT ![self] = Head(stack[self]).out_]
                            /\ rc_' = [rc_ EXCEPT ![self] = Head(stack[self]).rc_]
                            /\ hadw' = [hadw EXCEPT ![self] = Head(stack[self]).hadw]
                            /\ ata' = [ata EXCEPT ![self] = Head(stack[self]).ata]
                            /\ so_' = [so_ EXCEPT ![self] = Head(stack[self]).so_]
                            /\ havel' = [havel EXCEPT ![self] = Head(stack[self]).havel]
                            /\ c' = [c EXCEPT ![self] = Head(stack[self]).c]
                            /\ dl_' = [dl_ EXCEPT ![self] = Head(stack[self]).dl_]
                            /\ cn_' = [cn_ EXCEPT ![self] = Head(stack[self]).cn_]
                            /\ stack' = [stack EXCEPT ![self] = Tail(stack[self])]
                 /\ UNCHANGED << word, queue, cvword, cvq, waiting, rmc, cvmu, 
                                 wl, wc, sc, nww, nwsem, nww2, nreg2, sem, 
                                 data, now, note, nreg, held, sres, picked, 
                                 sleeps, inlock, ip, mw, pool, nalloc, nq, 
                                 muFreed, refs, nwalive, taint3, lt_l, clear, 
                                 old_, zlo, zhi, wcnt, lw, lt_u, old_u, tc, 
                                 nwl, wtrs, wake, wty, sor, cor, rmq_, late, 
                                 lt_m, old_m, lt_mu, old_mu, lt_mu_, ww, 
                                 old_mu_, sdl, scn, lt, rc, old_t, zl, tw, 
                                 allr, omw, fca, sorw, all, old_c, tws, alr, 
                                 rmq, dl, cn, gen, old_cv, lt_c, rc_c, so, out, 
                                 ndl, wcn, old, wq, still2, cvr, dw, k, cdw, 
                                 ck >>

mu_wait(self) == mw_1_ld(self) \/ mw_2_st(self) \/ mw_3_ld(self)
                    \/ mw_4_ld(self) \/ mw_5_cas(self) \/ mw_4_d(self)
                    \/ mw_6_ld(self) \/ mw_7_cas(self) \/ mw_8_ld(self)
                    \/ mw_9b_l(self) \/ mw_10_ld(self) \/ mw_11_l(self)
                    \/ mw_11b_l(self) \/ mw_12_ld(self) \/ mw_12_d(self)
                    \/ mw_13_l(self) \/ mw_14_l(self)

ww_0_l(self) == /\ pc[self] = "ww_0_l"
                /\ IF ~(IsMuCv(Head(tw[self])) /\ cvmu[Head(tw[self])])
                      THEN /\ pc' = [pc EXCEPT ![self] = "ww_5_st"]
                      ELSE /\ pc' = [pc EXCEPT ![self] = "ww_1_ld"]
                /\ UNCHANGED << word, queue, cvword, cvq, waiting, rmc, cvmu, 
                                wl, wc, sc, nww, nwsem, nww2, nreg2, sem, data, 
                                now, note, nreg, held, ret, sres, picked, 
                                sleeps, inlock, ip, mw, pool, nalloc, nq, 
                                muFreed, refs, nwalive, taint3, stack, lt_l, 
                                clear, old_, zlo, zhi, wcnt, lw, lt_u, old_u, 
                                tc, nwl, wtrs, wake, wty, sor, cor, rmq_, late, 
                                lt_m, old_m, lt_mu, old_mu, lt_mu_, ww, 
                                old_mu_, sdl, scn, lt, rc, old_t, zl, c, dl_, 
                                cn_, old_mu_w, lt_, first, out_, rc_, hadw, 
                                ata, so_, havel, tw, allr, omw, fca, sorw, all, 
                                old_c, tws, alr, rmq, dl, cn, gen, old_cv, 
                                lt_c, rc_c, so, out, ndl, wcn, old, wq, still2, 
                                cvr, dw, k, cdw, ck >>

ww_1_ld(self) == /\ pc[self] = "ww_1_ld"
                 /\ omw' = [omw EXCEPT ![self] = word]
                 /\ fca' = [fca EXCEPT ![self] = AndZ(omw'[self], LT(wl[Head(tw[self])]).zlo, LT(wl[Head(tw[self])]).zhi) # 0]
                 /\ IF ~(AnyLock(omw'[self]) # 0 /\ (omw'[self] & SPIN) = 0 /\ (fca'[self] \/ (Len(tw[self]) > 1 /\ ~allr[self])))
                       THEN /\ pc' = [pc EXCEPT ![self] = "ww_5_st"]
                       ELSE /\ pc' = [pc EXCEPT ![self] = "ww_2_cas"]
                 /\ UNCHANGED << word, queue, cvword, cvq, waiting, rmc, cvmu, 
                                 wl, wc, sc, nww, nwsem, nww2, nreg2, sem, 
                                 data, now, note, nreg, held, ret, sres, 
                                 picked, sleeps, inlock, ip, mw, pool, nalloc, 
                                 nq, muFreed, refs, nwalive, taint3, stack, 
                                 lt_l, clear, old_, zlo, zhi, wcnt, lw, lt_u, 
                                 old_u, tc, nwl, wtrs, wake, wty, sor, cor, 
                                 rmq_, late, lt_m, old_m, lt_mu, old_mu, 
                                 lt_mu_, ww, old_mu_, sdl, scn, lt, rc, old_t, 
                                 zl, c, dl_, cn_, old_mu_w, lt_, first, out_, 
                                 rc_, hadw, ata, so_, havel, tw, allr, sorw, 
                                 all, old_c, tws, alr, rmq, dl, cn, gen, 
                                 old_cv, lt_c, rc_c, so, out, ndl, wcn, old, 
                                 wq, still2, cvr, dw, k, cdw, ck >>

ww_2_cas(self) == /\ pc[self] = "ww_2_cas"
                  /\ IF word = omw[self]
                        THEN /\ word' = Clr((omw[self] | SPIN) | WAITING, ALLF)
                             /\ LET x == Xfer(tw[self], wl, cvmu, fca[self]) IN
                                  /\ queue' = queue \o x.move
                                  /\ cvmu' = [u \in Waiters |-> IF \E i \in 1..Len(x.move) : x.move[i] = u THEN FALSE ELSE cvmu[u]]
                                  /\ tw' = [tw EXCEPT ![self] = x.keep]
                                  /\ sorw' = [sorw EXCEPT ![self] = IF x.tw /\ ~x.wr THEN WRW ELSE 0]
                             /\ pc' = [pc EXCEPT ![self] = "ww_3_ld"]
                        ELSE /\ pc' = [pc EXCEPT ![self] = "ww_5_st"]
                             /\ UNCHANGED << word, queue, cvmu, tw, sorw >>
                  /\ UNCHANGED << cvword, cvq, waiting, rmc, wl, wc, sc, nww, 
                                  nwsem, nww2, nreg2, sem, data, now, note, 
                                  nreg, held, ret, sres, picked, sleeps, 
                                  inlock, ip, mw, pool, nalloc, nq, muFreed, 
                                  refs, nwalive, taint3, stack, lt_l, clear, 
                                  old_, zlo, zhi, wcnt, lw, lt_u, old_u, tc, 
                                  nwl, wtrs, wake, wty, sor, cor, rmq_, late, 
                                  lt_m, old_m, lt_mu, old_mu, lt_mu_, ww, 
                                  old_mu_, sdl, scn, lt, rc, old_t, zl, c, dl_, 
                                  cn_, old_mu_w, lt_, first, out_, rc_, hadw, 
                                  ata, so_, havel, allr, omw, fca, all, old_c, 
                                  tws, alr, rmq, dl, cn, gen, old_cv, lt_c, 
                                  rc_c, so, out, ndl, wcn, old, wq, still2, 
                                  cvr, dw, k, cdw, ck >>

ww_3_ld(self) == /\ pc[self] = "ww_3_ld"
                 /\ omw' = [omw EXCEPT ![self] = word]
                 /\ pc' = [pc EXCEPT ![self] = "ww_4_cas"]
                 /\ UNCHANGED << word, queue, cvword, cvq, waiting, rmc, cvmu, 
                                 wl, wc, sc, nww, nwsem, nww2, nreg2, sem, 
                                 data, now, note, nreg, held, ret, sres, 
                                 picked, sleeps, inlock, ip, mw, pool, nalloc, 
                                 nq, muFreed, refs, nwalive, taint3, stack, 
                                 lt_l, clear, old_, zlo, zhi, wcnt, lw, lt_u, 
                                 old_u, tc, nwl, wtrs, wake, wty, sor, cor, 
                                 rmq_, late, lt_m, old_m, lt_mu, old_mu, 
                                 lt_mu_, ww, old_mu_, sdl, scn, lt, rc, old_t, 
                                 zl, c, dl_, cn_, old_mu_w, lt_, first, out_, 
                                 rc_, hadw, ata, so_, havel, tw, allr, fca, 
                                 sorw, all, old_c, tws, alr, rmq, dl, cn, gen, 
                                 old_cv, lt_c, rc_c, so, out, ndl, wcn, old, 
                                 wq, still2, cvr, dw, k, cdw, ck >>

ww_4_cas(self) == /\ pc[self] = "ww_4_cas"
                  /\ IF word = omw[self]
                        THEN /\ word' = Clr(omw[self] | sorw[self], SPIN)
                             /\ pc' = [pc EXCEPT ![self] = "ww_4b_l"]
                        ELSE /\ pc' = [pc EXCEPT ![self] = "ww_3_ld"]
                             /\ word' = word
                  /\ UNCHANGED << queue, cvword, cvq, waiting, rmc, cvmu, wl, 
                                  wc, sc, nww, nwsem, nww2, nreg2, sem, data, 
                                  now, note, nreg, held, ret, sres, picked, 
                                  sleeps, inlock, ip, mw, pool, nalloc, nq, 
                                  muFreed, refs, nwalive, taint3, stack, lt_l, 
                                  clear, old_, zlo, zhi, wcnt, lw, lt_u, old_u, 
                                  tc, nwl, wtrs, wake, wty, sor, cor, rmq_, 
                                  late, lt_m, old_m, lt_mu, old_mu, lt_mu_, ww, 
                                  old_mu_, sdl, scn, lt, rc, old_t, zl, c, dl_, 
                                  cn_, old_mu_w, lt_, first, out_, rc_, hadw, 
                                  ata, so_, havel, tw, allr, omw, fca, sorw, 
                                  all, old_c, tws, alr, rmq, dl, cn, gen, 
                                  old_cv, lt_c, rc_c, so, out, ndl, wcn, old, 
                                  wq, still2, cvr, dw, k, cdw, ck >>

ww_4b_l(self) == /\ pc[self] = "ww_4b_l"
                 /\ IF tw[self] = <<>>
                       THEN /\ pc' = [pc EXCEPT ![self] = Head(stack[self]).pc]
                            /\ omw' = [omw EXCEPT ![self] = Head(stack[self]).omw]
                            /\ fca' = [fca EXCEPT ![self] = Head(stack[self]).fca]
                            /\ sorw' = [sorw EXCEPT ![self] = Head(stack[self]).sorw]
                            /\ tw' = [tw EXCEPT ![self] = Head(stack[self]).tw]
                            /\ allr' = [allr EXCEPT ![self] = Head(stack[self]).allr]
                            /\ stack' = [stack EXCEPT ![self] = Tail(stack[self])]
                       ELSE /\ pc' = [pc EXCEPT ![self] = "ww_5_st"]
                            /\ UNCHANGED << stack, tw, allr, omw, fca, sorw >>
                 /\ UNCHANGED << word, queue, cvword, cvq, waiting, rmc, cvmu, 
                                 wl, wc, sc, nww, nwsem, nww2, nreg2, sem, 
                                 data, now, note, nreg, held, ret, sres, 
                                 picked, sleeps, inlock, ip, mw, pool, nalloc, 
                                 nq, muFreed, refs, nwalive, taint3, lt_l, 
                                 clear, old_, zlo, zhi, wcnt, lw, lt_u, old_u, 
                                 tc, nwl, wtrs, wake, wty, sor, cor, rmq_, 
                                 late, lt_m, old_m, lt_mu, old_mu, lt_mu_, ww, 
                                 old_mu_, sdl, scn, lt, rc, old_t, zl, c, dl_, 
                                 cn_, old_mu_w, lt_, first, out_, rc_, hadw, 
                                 ata, so_, havel, all, old_c, tws, alr, rmq, 
                                 dl, cn, gen, old_cv, lt_c, rc_c, so, out, ndl, 
                                 wcn, old, wq, still2, cvr, dw, k, cdw, ck >>

ww_5_st(self) == /\ pc[self] = "ww_5_st"
                 /\ IF IsMuCv(Head(tw[self]))
                       THEN /\ waiting' = [waiting EXCEPT ![Head(tw[self])] = 0]
                            /\ nww' = nww
                       ELSE /\ nww' = [nww EXCEPT ![-Head(tw[self])] = 0]
                            /\ UNCHANGED waiting
                 /\ pc' = [pc EXCEPT ![self] = "ww_6_v"]
                 /\ UNCHANGED << word, queue, cvword, cvq, rmc, cvmu, wl, wc, 
                                 sc, nwsem, nww2, nreg2, sem, data, now, note, 
                                 nreg, held, ret, sres, picked, sleeps, inlock, 
                                 ip, mw, pool, nalloc, nq, muFreed, refs, 
                                 nwalive, taint3, stack, lt_l, clear, old_, 
                                 zlo, zhi, wcnt, lw, lt_u, old_u, tc, nwl, 
                                 wtrs, wake, wty, sor, cor, rmq_, late, lt_m, 
                                 old_m, lt_mu, old_mu, lt_mu_, ww, old_mu_, 
                                 sdl, scn, lt, rc, old_t, zl, c, dl_, cn_, 
                                 old_mu_w, lt_, first, out_, rc_, hadw, ata, 
                                 so_, havel, tw, allr, omw, fca, sorw, all, 
                                 old_c, tws, alr, rmq, dl, cn, gen, old_cv, 
                                 lt_c, rc_c, so, out, ndl, wcn, old, wq, 
                                 still2, cvr, dw, k, cdw, ck >>

ww_6_v(self) == /\ pc[self] = "ww_6_v"
                /\ sem' = [sem EXCEPT ![SemOf(Head(tw[self]))] = SetV(sem[SemOf(Head(tw[self]))])]
                /\ IF Len(tw[self]) = 1
                      THEN /\ pc' = [pc EXCEPT ![self] = Head(stack[self]).pc]
                           /\ omw' = [omw EXCEPT ![self] = Head(stack[self]).omw]
                           /\ fca' = [fca EXCEPT ![self] = Head(stack[self]).fca]
                           /\ sorw' = [sorw EXCEPT ![self] = Head(stack[self]).sorw]
                           /\ tw' = [tw EXCEPT ![self] = Head(stack[self]).tw]
                           /\ allr' = [allr EXCEPT ![self] = Head(stack[self]).allr]
                           /\ stack' = [stack EXCEPT ![self] = Tail(stack[self])]
                      ELSE /\ tw' = [tw EXCEPT ![self] = Tail(tw[self])]
                           /\ pc' = [pc EXCEPT ![self] = "ww_5_st"]
                           /\ UNCHANGED << stack, allr, omw, fca, sorw >>
                /\ UNCHANGED << word, queue, cvword, cvq, waiting, rmc, cvmu, 
                                wl, wc, sc, nww, nwsem, nww2, nreg2, data, now, 
                                note, nreg, held, ret, sres, picked, sleeps, 
                                inlock, ip, mw, pool, nalloc, nq, muFreed, 
                                refs, nwalive, taint3, lt_l, clear, old_, zlo, 
                                zhi, wcnt, lw, lt_u, old_u, tc, nwl, wtrs, 
                                wake, wty, sor, cor, rmq_, late, lt_m, old_m, 
                                lt_mu, old_mu, lt_mu_, ww, old_mu_, sdl, scn, 
                                lt, rc, old_t, zl, c, dl_, cn_, old_mu_w, lt_, 
                                first, out_, rc_, hadw, ata, so_, havel, all, 
                                old_c, tws, alr, rmq, dl, cn, gen, old_cv, 
                                lt_c, rc_c, so, out, ndl, wcn, old, wq, still2, 
                                cvr, dw, k, cdw, ck >>

wake_waiters(self) == ww_0_l(self) \/ ww_1_ld(self) \/ ww_2_cas(self)
                         \/ ww_3_ld(self) \/ ww_4_cas(self)
                         \/ ww_4b_l(self) \/ ww_5_st(self) \/ ww_6_v(self)

cs_1_ld(self) == /\ pc[self] = "cs_1_ld"
                 /\ IF (cvword & CVNE) = 0
                       THEN /\ pc' = [pc EXCEPT ![self] = Head(stack[self]).pc]
                            /\ old_c' = [old_c EXCEPT ![self] = Head(stack[self]).old_c]
                            /\ tws' = [tws EXCEPT ![self] = Head(stack[self]).tws]
                            /\ alr' = [alr EXCEPT ![self] = Head(stack[self]).alr]
                            /\ rmq' = [rmq EXCEPT ![self] = Head(stack[self]).rmq]
                            /\ all' = [all EXCEPT ![self] = Head(stack[self]).all]
                            /\ stack' = [stack EXCEPT ![self] = Tail(stack[self])]
                       ELSE /\ pc' = [pc EXCEPT ![self] = "cs_2_ld"]
                            /\ UNCHANGED << stack, all, old_c, tws, alr, rmq >>
                 /\ UNCHANGED << word, queue, cvword, cvq, waiting, rmc, cvmu, 
                                 wl, wc, sc, nww, nwsem, nww2, nreg2, sem, 
                                 data, now, note, nreg, held, ret, sres, 
                                 picked, sleeps, inlock, ip, mw, pool, nalloc, 
                                 nq, muFreed, refs, nwalive, taint3, lt_l, 
                                 clear, old_, zlo, zhi, wcnt, lw, lt_u, old_u, 
                                 tc, nwl, wtrs, wake, wty, sor, cor, rmq_, 
                                 late, lt_m, old_m, lt_mu, old_mu, lt_mu_, ww, 
                                 old_mu_, sdl, scn, lt, rc, old_t, zl, c, dl_, 
                                 cn_, old_mu_w, lt_, first, out_, rc_, hadw, 
                                 ata, so_, havel, tw, allr, omw, fca, sorw, dl, 
                                 cn, gen, old_cv, lt_c, rc_c, so, out, ndl, 
                                 wcn, old, wq, still2, cvr, dw, k, cdw, ck >>

cs_2_ld(self) == /\ pc[self] = "cs_2_ld"
                 /\ old_c' = [old_c EXCEPT ![self] = cvword]
                 /\ IF (old_c'[self] & CVSPIN) # 0
                       THEN /\ pc' = [pc EXCEPT ![self] = "cs_2_d"]
                       ELSE /\ pc' = [pc EXCEPT ![self] = "cs_3_cas"]
                 /\ UNCHANGED << word, queue, cvword, cvq, waiting, rmc, cvmu, 
                                 wl, wc, sc, nww, nwsem, nww2, nreg2, sem, 
                                 data, now, note, nreg, held, ret, sres, 
                                 picked, sleeps, inlock, ip, mw, pool, nalloc, 
                                 nq, muFreed, refs, nwalive, taint3, stack, 
                                 lt_l, clear, old_, zlo, zhi, wcnt, lw, lt_u, 
                                 old_u, tc, nwl, wtrs, wake, wty, sor, cor, 
                                 rmq_, late, lt_m, old_m, lt_mu, old_mu, 
                                 lt_mu_, ww, old_mu_, sdl, scn, lt, rc, old_t, 
                                 zl, c, dl_, cn_, old_mu_w, lt_, first, out_, 
                                 rc_, hadw, ata, so_, havel, tw, allr, omw, 
                                 fca, sorw, all, tws, alr, rmq, dl, cn, gen, 
                                 old_cv, lt_c, rc_c, so, out, ndl, wcn, old, 
                                 wq, still2, cvr, dw, k, cdw, ck >>

cs_3_cas(self) == /\ pc[self] = "cs_3_cas"
                  /\ IF cvword = old_c[self]
                        THEN /\ cvword' = old_c[self] | CVSPIN
                             /\ IF cvq # <<>>
                                   THEN /\ IF all[self]
                                              THEN /\ tws' = [tws EXCEPT ![self] = cvq]
                                                   /\ alr' = [alr EXCEPT ![self] = AllReaders(cvq, wl)]
                                                   /\ cvq' = <<>>
                                              ELSE /\ LET x == SignalPick(cvq, wl) IN
                                                        /\ tws' = [tws EXCEPT ![self] = x.tw]
                                                        /\ alr' = [alr EXCEPT ![self] = x.allr]
                                                        /\ cvq' = x.rest
                                   ELSE /\ TRUE
                                        /\ UNCHANGED << cvq, tws, alr >>
                             /\ pc' = [pc EXCEPT ![self] = "cs_3b_l"]
                        ELSE /\ pc' = [pc EXCEPT ![self] = "cs_2_d"]
                             /\ UNCHANGED << cvword, cvq, tws, alr >>
                  /\ UNCHANGED << word, queue, waiting, rmc, cvmu, wl, wc, sc, 
                                  nww, nwsem, nww2, nreg2, sem, data, now, 
                                  note, nreg, held, ret, sres, picked, sleeps, 
                                  inlock, ip, mw, pool, nalloc, nq, muFreed, 
                                  refs, nwalive, taint3, stack, lt_l, clear, 
                                  old_, zlo, zhi, wcnt, lw, lt_u, old_u, tc, 
                                  nwl, wtrs, wake, wty, sor, cor, rmq_, late, 
                                  lt_m, old_m, lt_mu, old_mu, lt_mu_, ww, 
                                  old_mu_, sdl, scn, lt, rc, old_t, zl, c, dl_, 
                                  cn_, old_mu_w, lt_, first, out_, rc_, hadw, 
                                  ata, so_, havel, tw, allr, omw, fca, sorw, 
                                  all, old_c, rmq, dl, cn, gen, old_cv, lt_c, 
                                  rc_c, so, out, ndl, wcn, old, wq, still2, 
                                  cvr, dw, k, cdw, ck >>

cs_3b_l(self) == /\ pc[self] = "cs_3b_l"
                 /\ rmq' = [rmq EXCEPT ![self] = IF CvFix THEN tws[self] ELSE SelectSeq(tws[self], IsMuCv)]
                 /\ picked' = [u \in Threads |-> picked[u] \/ (\E i \in 1..Len(tws[self]) : ThreadOf(tws[self][i]) = u)]
                 /\ tws' = [tws EXCEPT ![self] = IF CvFix THEN SelectSeq(tws[self], IsMuCv) ELSE tws[self]]
                 /\ pc' = [pc EXCEPT ![self] = "cs_rmq_l"]
                 /\ UNCHANGED << word, queue, cvword, cvq, waiting, rmc, cvmu, 
                                 wl, wc, sc, nww, nwsem, nww2, nreg2, sem, 
                                 data, now, note, nreg, held, ret, sres, 
                                 sleeps, inlock, ip, mw, pool, nalloc, nq, 
                                 muFreed, refs, nwalive, taint3, stack, lt_l, 
                                 clear, old_, zlo, zhi, wcnt, lw, lt_u, old_u, 
                                 tc, nwl, wtrs, wake, wty, sor, cor, rmq_, 
                                 late, lt_m, old_m, lt_mu, old_mu, lt_mu_, ww, 
                                 old_mu_, sdl, scn, lt, rc, old_t, zl, c, dl_, 
                                 cn_, old_mu_w, lt_, first, out_, rc_, hadw, 
                                 ata, so_, havel, tw, allr, omw, fca, sorw, 
                                 all, old_c, alr, dl, cn, gen, old_cv, lt_c, 
                                 rc_c, so, out, ndl, wcn, old, wq, still2, cvr, 
                                 dw, k, cdw, ck >>

cs_2_d(self) == /\ pc[self] = "cs_2_d"
                /\ pc' = [pc EXCEPT ![self] = "cs_2_ld"]
                /\ UNCHANGED << word, queue, cvword, cvq, waiting, rmc, cvmu, 
                                wl, wc, sc, nww, nwsem, nww2, nreg2, sem, data, 
                                now, note, nreg, held, ret, sres, picked, 
                                sleeps, inlock, ip, mw, pool, nalloc, nq, 
                                muFreed, refs, nwalive, taint3, stack, lt_l, 
                                clear, old_, zlo, zhi, wcnt, lw, lt_u, old_u, 
                                tc, nwl, wtrs, wake, wty, sor, cor, rmq_, late, 
                                lt_m, old_m, lt_mu, old_mu, lt_mu_, ww, 
                                old_mu_, sdl, scn, lt, rc, old_t, zl, c, dl_, 
                                cn_, old_mu_w, lt_, first, out_, rc_, hadw, 
                                ata, so_, havel, tw, allr, omw, fca, sorw, all, 
                                old_c, tws, alr, rmq, dl, cn, gen, old_cv, 
                                lt_c, rc_c, so, out, ndl, wcn, old, wq, still2, 
                                cvr, dw, k, cdw, ck >>

cs_rmq_l(self) == /\ pc[self] = "cs_rmq_l"
                  /\ IF rmq[self] = <<>>
                        THEN /\ pc' = [pc EXCEPT ![self] = "cs_4_st"]
                        ELSE /\ IF ~IsMuCv(Head(rmq[self]))
                                   THEN /\ pc' = [pc EXCEPT ![self] = "cs_f_st"]
                                   ELSE /\ pc' = [pc EXCEPT ![self] = "cs_rm_ld"]
                  /\ UNCHANGED << word, queue, cvword, cvq, waiting, rmc, cvmu, 
                                  wl, wc, sc, nww, nwsem, nww2, nreg2, sem, 
                                  data, now, note, nreg, held, ret, sres, 
                                  picked, sleeps, inlock, ip, mw, pool, nalloc, 
                                  nq, muFreed, refs, nwalive, taint3, stack, 
                                  lt_l, clear, old_, zlo, zhi, wcnt, lw, lt_u, 
                                  old_u, tc, nwl, wtrs, wake, wty, sor, cor, 
                                  rmq_, late, lt_m, old_m, lt_mu, old_mu, 
                                  lt_mu_, ww, old_mu_, sdl, scn, lt, rc, old_t, 
                                  zl, c, dl_, cn_, old_mu_w, lt_, first, out_, 
                                  rc_, hadw, ata, so_, havel, tw, allr, omw, 
                                  fca, sorw, all, old_c, tws, alr, rmq, dl, cn, 
                                  gen, old_cv, lt_c, rc_c, so, out, ndl, wcn, 
                                  old, wq, still2, cvr, dw, k, cdw, ck >>

cs_rm_ld(self) == /\ pc[self] = "cs_rm_ld"
                  /\ TRUE
                  /\ pc' = [pc EXCEPT ![self] = "cs_rm_cas"]
                  /\ UNCHANGED << word, queue, cvword, cvq, waiting, rmc, cvmu, 
                                  wl, wc, sc, nww, nwsem, nww2, nreg2, sem, 
                                  data, now, note, nreg, held, ret, sres, 
                                  picked, sleeps, inlock, ip, mw, pool, nalloc, 
                                  nq, muFreed, refs, nwalive, taint3, stack, 
                                  lt_l, clear, old_, zlo, zhi, wcnt, lw, lt_u, 
                                  old_u, tc, nwl, wtrs, wake, wty, sor, cor, 
                                  rmq_, late, lt_m, old_m, lt_mu, old_mu, 
                                  lt_mu_, ww, old_mu_, sdl, scn, lt, rc, old_t, 
                                  zl, c, dl_, cn_, old_mu_w, lt_, first, out_, 
                                  rc_, hadw, ata, so_, havel, tw, allr, omw, 
                                  fca, sorw, all, old_c, tws, alr, rmq, dl, cn, 
                                  gen, old_cv, lt_c, rc_c, so, out, ndl, wcn, 
                                  old, wq, still2, cvr, dw, k, cdw, ck >>

cs_rm_cas(self) == /\ pc[self] = "cs_rm_cas"
                   /\ rmc' = [rmc EXCEPT ![Head(rmq[self])] = rmc[Head(rmq[self])] + 1]
                   /\ rmq' = [rmq EXCEPT ![self] = Tail(rmq[self])]
                   /\ pc' = [pc EXCEPT ![self] = "cs_rmq_l"]
                   /\ UNCHANGED << word, queue, cvword, cvq, waiting, cvmu, wl, 
                                   wc, sc, nww, nwsem, nww2, nreg2, sem, data, 
                                   now, note, nreg, held, ret, sres, picked, 
                                   sleeps, inlock, ip, mw, pool, nalloc, nq, 
                                   muFreed, refs, nwalive, taint3, stack, lt_l, 
                                   clear, old_, zlo, zhi, wcnt, lw, lt_u, 
                                   old_u, tc, nwl, wtrs, wake, wty, sor, cor, 
                                   rmq_, late, lt_m, old_m, lt_mu, old_mu, 
                                   lt_mu_, ww, old_mu_, sdl, scn, lt, rc, 
                                   old_t, zl, c, dl_, cn_, old_mu_w, lt_, 
                                   first, out_, rc_, hadw, ata, so_, havel, tw, 
                                   allr, omw, fca, sorw, all, old_c, tws, alr, 
                                   dl, cn, gen, old_cv, lt_c, rc_c, so, out, 
                                   ndl, wcn, old, wq, still2, cvr, dw, k, cdw, 
                                   ck >>

cs_f_st(self) == /\ pc[self] = "cs_f_st"
                 /\ nww' = [nww EXCEPT ![-Head(rmq[self])] = 0]
                 /\ pc' = [pc EXCEPT ![self] = "cs_f_v"]
                 /\ UNCHANGED << word, queue, cvword, cvq, waiting, rmc, cvmu, 
                                 wl, wc, sc, nwsem, nww2, nreg2, sem, data, 
                                 now, note, nreg, held, ret, sres, picked, 
                                 sleeps, inlock, ip, mw, pool, nalloc, nq, 
                                 muFreed, refs, nwalive, taint3, stack, lt_l, 
                                 clear, old_, zlo, zhi, wcnt, lw, lt_u, old_u, 
                                 tc, nwl, wtrs, wake, wty, sor, cor, rmq_, 
                                 late, lt_m, old_m, lt_mu, old_mu, lt_mu_, ww, 
                                 old_mu_, sdl, scn, lt, rc, old_t, zl, c, dl_, 
                                 cn_, old_mu_w, lt_, first, out_, rc_, hadw, 
                                 ata, so_, havel, tw, allr, omw, fca, sorw, 
                                 all, old_c, tws, alr, rmq, dl, cn, gen, 
                                 old_cv, lt_c, rc_c, so, out, ndl, wcn, old, 
                                 wq, still2, cvr, dw, k, cdw, ck >>

cs_f_v(self) == /\ pc[self] = "cs_f_v"
                /\ sem' = [sem EXCEPT ![SemOf(Head(rmq[self]))] = SetV(sem[SemOf(Head(rmq[self]))])]
                /\ rmq' = [rmq EXCEPT ![self] = Tail(rmq[self])]
                /\ pc' = [pc EXCEPT ![self] = "cs_rmq_l"]
                /\ UNCHANGED << word, queue, cvword, cvq, waiting, rmc, cvmu, 
                                wl, wc, sc, nww, nwsem, nww2, nreg2, data, now, 
                                note, nreg, held, ret, sres, picked, sleeps, 
                                inlock, ip, mw, pool, nalloc, nq, muFreed, 
                                refs, nwalive, taint3, stack, lt_l, clear, 
                                old_, zlo, zhi, wcnt, lw, lt_u, old_u, tc, nwl, 
                                wtrs, wake, wty, sor, cor, rmq_, late, lt_m, 
                                old_m, lt_mu, old_mu, lt_mu_, ww, old_mu_, sdl, 
                                scn, lt, rc, old_t, zl, c, dl_, cn_, old_mu_w, 
                                lt_, first, out_, rc_, hadw, ata, so_, havel, 
                                tw, allr, omw, fca, sorw, all, old_c, tws, alr, 
                                dl, cn, gen, old_cv, lt_c, rc_c, so, out, ndl, 
                                wcn, old, wq, still2, cvr, dw, k, cdw, ck >>

cs_4_st(self) == /\ pc[self] = "cs_4_st"
                 /\ cvword' = IF all[self] THEN 0 ELSE (IF cvq = <<>> THEN Clr(old_c[self], CVNE) ELSE old_c[self])
                 /\ IF tws[self] = <<>>
                       THEN /\ pc' = [pc EXCEPT ![self] = Head(stack[self]).pc]
                            /\ old_c' = [old_c EXCEPT ![self] = Head(stack[self]).old_c]
                            /\ tws' = [tws EXCEPT ![self] = Head(stack[self]).tws]
                            /\ alr' = [alr EXCEPT ![self] = Head(stack[self]).alr]
                            /\ rmq' = [rmq EXCEPT ![self] = Head(stack[self]).rmq]
                            /\ all' = [all EXCEPT ![self] = Head(stack[self]).all]
                            /\ stack' = [stack EXCEPT ![self] = Tail(stack[self])]
                            /\ UNCHANGED << tw, allr, omw, fca, sorw >>
                       ELSE /\ /\ allr' = [allr EXCEPT ![self] = alr[self]]
                               /\ alr' = [alr EXCEPT ![self] = Head(stack[self]).alr]
                               /\ old_c' = [old_c EXCEPT ![self] = Head(stack[self]).old_c]
                               /\ rmq' = [rmq EXCEPT ![self] = Head(stack[self]).rmq]
                               /\ stack' = [stack EXCEPT ![self] = << [ procedure |->  "wake_waiters",
                                                                        pc        |->  Head(stack[self]).pc,
                                                                        omw       |->  omw[self],
                                                                        fca       |->  fca[self],
                                                                        sorw      |->  sorw[self],
                                                                        tw        |->  tw[self],
                                                                        allr      |->  allr[self] ] >>
                                                                    \o Tail(stack[self])]
                               /\ tw' = [tw EXCEPT ![self] = tws[self]]
                               /\ tws' = [tws EXCEPT ![self] = Head(stack[self]).tws]
                            /\ omw' = [omw EXCEPT ![self] = 0]
                            /\ fca' = [fca EXCEPT ![self] = FALSE]
                            /\ sorw' = [sorw EXCEPT ![self] = 0]
                            /\ pc' = [pc EXCEPT ![self] = "ww_0_l"]
                            /\ all' = all
                 /\ UNCHANGED << word, queue, cvq, waiting, rmc, cvmu, wl, wc, 
                                 sc, nww, nwsem, nww2, nreg2, sem, data, now, 
                                 note, nreg, held, ret, sres, picked, sleeps, 
                                 inlock, ip, mw, pool, nalloc, nq, muFreed, 
                                 refs, nwalive, taint3, lt_l, clear, old_, zlo, 
                                 zhi, wcnt, lw, lt_u, old_u, tc, nwl, wtrs, 
                                 wake, wty, sor, cor, rmq_, late, lt_m, old_m, 
                                 lt_mu, old_mu, lt_mu_, ww, old_mu_, sdl, scn, 
                                 lt, rc, old_t, zl, c, dl_, cn_, old_mu_w, lt_, 
                                 first, out_, rc_, hadw, ata, so_, havel, dl, 
                                 cn, gen, old_cv, lt_c, rc_c, so, out, ndl, 
                                 wcn, old, wq, still2, cvr, dw, k, cdw, ck >>

cv_wake(self) == cs_1_ld(self) \/ cs_2_ld(self) \/ cs_3_cas(self)
                    \/ cs_3b_l(self) \/ cs_2_d(self) \/ cs_rmq_l(self)
                    \/ cs_rm_ld(self) \/ cs_rm_cas(self) \/ cs_f_st(self)
                    \/ cs_f_v(self) \/ cs_4_st(self)

cw_1_st(self) == /\ pc[self] = "cw_1_st"
                 /\ waiting' = [waiting EXCEPT ![W(self)] = 1]
                 /\ wc' = [wc EXCEPT ![W(self)] = 0]
                 /\ picked' = [picked EXCEPT ![self] = FALSE]
                 /\ IF gen[self]
                       THEN /\ cvmu' = [cvmu EXCEPT ![W(self)] = FALSE]
                            /\ wl' = [wl EXCEPT ![W(self)] = 0]
                            /\ lt_c' = [lt_c EXCEPT ![self] = 1]
                            /\ pc' = [pc EXCEPT ![self] = "cw_3_ld"]
                       ELSE /\ pc' = [pc EXCEPT ![self] = "cw_2_ld"]
                            /\ UNCHANGED << cvmu, wl, lt_c >>
                 /\ UNCHANGED << word, queue, cvword, cvq, rmc, sc, nww, nwsem, 
                                 nww2, nreg2, sem, data, now, note, nreg, held, 
                                 ret, sres, sleeps, inlock, ip, mw, pool, 
                                 nalloc, nq, muFreed, refs, nwalive, taint3, 
                                 stack, lt_l, clear, old_, zlo, zhi, wcnt, lw, 
                                 lt_u, old_u, tc, nwl, wtrs, wake, wty, sor, 
                                 cor, rmq_, late, lt_m, old_m, lt_mu, old_mu, 
                                 lt_mu_, ww, old_mu_, sdl, scn, lt, rc, old_t, 
                                 zl, c, dl_, cn_, old_mu_w, lt_, first, out_, 
                                 rc_, hadw, ata, so_, havel, tw, allr, omw, 
                                 fca, sorw, all, old_c, tws, alr, rmq, dl, cn, 
                                 gen, old_cv, rc_c, so, out, ndl, wcn, old, wq, 
                                 still2, cvr, dw, k, cdw, ck >>

cw_2_ld(self) == /\ pc[self] = "cw_2_ld"
                 /\ lt_c' = [lt_c EXCEPT ![self] = IF (word & WLOCK) # 0 THEN 1 ELSE 2]
                 /\ cvmu' = [cvmu EXCEPT ![W(self)] = TRUE]
                 /\ wl' = [wl EXCEPT ![W(self)] = lt_c'[self]]
                 /\ pc' = [pc EXCEPT ![self] = "cw_3_ld"]
                 /\ UNCHANGED << word, queue, cvword, cvq, waiting, rmc, wc, 
                                 sc, nww, nwsem, nww2, nreg2, sem, data, now, 
                                 note, nreg, held, ret, sres, picked, sleeps, 
                                 inlock, ip, mw, pool, nalloc, nq, muFreed, 
                                 refs, nwalive, taint3, stack, lt_l, clear, 
                                 old_, zlo, zhi, wcnt, lw, lt_u, old_u, tc, 
                                 nwl, wtrs, wake, wty, sor, cor, rmq_, late, 
                                 lt_m, old_m, lt_mu, old_mu, lt_mu_, ww, 
                                 old_mu_, sdl, scn, lt, rc, old_t, zl, c, dl_, 
                                 cn_, old_mu_w, lt_, first, out_, rc_, hadw, 
                                 ata, so_, havel, tw, allr, omw, fca, sorw, 
                                 all, old_c, tws, alr, rmq, dl, cn, gen, 
                                 old_cv, rc_c, so, out, ndl, wcn, old, wq, 
                                 still2, cvr, dw, k, cdw, ck >>

cw_3_ld(self) == /\ pc[self] = "cw_3_ld"
                 /\ old_cv' = [old_cv EXCEPT ![self] = cvword]
                 /\ IF (old_cv'[self] & CVSPIN) # 0
                       THEN /\ pc' = [pc EXCEPT ![self] = "cw_3_d"]
                       ELSE /\ pc' = [pc EXCEPT ![self] = "cw_4_cas"]
                 /\ UNCHANGED << word, queue, cvword, cvq, waiting, rmc, cvmu, 
                                 wl, wc, sc, nww, nwsem, nww2, nreg2, sem, 
                                 data, now, note, nreg, held, ret, sres, 
                                 picked, sleeps, inlock, ip, mw, pool, nalloc, 
                                 nq, muFreed, refs, nwalive, taint3, stack, 
                                 lt_l, clear, old_, zlo, zhi, wcnt, lw, lt_u, 
                                 old_u, tc, nwl, wtrs, wake, wty, sor, cor, 
                                 rmq_, late, lt_m, old_m, lt_mu, old_mu, 
                                 lt_mu_, ww, old_mu_, sdl, scn, lt, rc, old_t, 
                                 zl, c, dl_, cn_, old_mu_w, lt_, first, out_, 
                                 rc_, hadw, ata, so_, havel, tw, allr, omw, 
                                 fca, sorw, all, old_c, tws, alr, rmq, dl, cn, 
                                 gen, lt_c, rc_c, so, out, ndl, wcn, old, wq, 
                                 still2, cvr, dw, k, cdw, ck >>

cw_4_cas(self) == /\ pc[self] = "cw_4_cas"
                  /\ IF cvword = old_cv[self]
                        THEN /\ cvword' = (old_cv[self] | CVSPIN) | CVNE
                             /\ cvq' = Append(cvq, W(self))
                             /\ nq' = (IF nq < N THEN nq + 1 ELSE nq)
                             /\ pc' = [pc EXCEPT ![self] = "cw_5_ld"]
                        ELSE /\ pc' = [pc EXCEPT ![self] = "cw_3_d"]
                             /\ UNCHANGED << cvword, cvq, nq >>
                  /\ UNCHANGED << word, queue, waiting, rmc, cvmu, wl, wc, sc, 
                                  nww, nwsem, nww2, nreg2, sem, data, now, 
                                  note, nreg, held, ret, sres, picked, sleeps, 
                                  inlock, ip, mw, pool, nalloc, muFreed, refs, 
                                  nwalive, taint3, stack, lt_l, clear, old_, 
                                  zlo, zhi, wcnt, lw, lt_u, old_u, tc, nwl, 
                                  wtrs, wake, wty, sor, cor, rmq_, late, lt_m, 
                                  old_m, lt_mu, old_mu, lt_mu_, ww, old_mu_, 
                                  sdl, scn, lt, rc, old_t, zl, c, dl_, cn_, 
                                  old_mu_w, lt_, first, out_, rc_, hadw, ata, 
                                  so_, havel, tw, allr, omw, fca, sorw, all, 
                                  old_c, tws, alr, rmq, dl, cn, gen, old_cv, 
                                  lt_c, rc_c, so, out, ndl, wcn, old, wq, 
                                  still2, cvr, dw, k, cdw, ck >>

cw_3_d(self) == /\ pc[self] = "cw_3_d"
                /\ pc' = [pc EXCEPT ![self] = "cw_3_ld"]
                /\ UNCHANGED << word, queue, cvword, cvq, waiting, rmc, cvmu, 
                                wl, wc, sc, nww, nwsem, nww2, nreg2, sem, data, 
                                now, note, nreg, held, ret, sres, picked, 
                                sleeps, inlock, ip, mw, pool, nalloc, nq, 
                                muFreed, refs, nwalive, taint3, stack, lt_l, 
                                clear, old_, zlo, zhi, wcnt, lw, lt_u, old_u, 
                                tc, nwl, wtrs, wake, wty, sor, cor, rmq_, late, 
                                lt_m, old_m, lt_mu, old_mu, lt_mu_, ww, 
                                old_mu_, sdl, scn, lt, rc, old_t, zl, c, dl_, 
                                cn_, old_mu_w, lt_, first, out_, rc_, hadw, 
                                ata, so_, havel, tw, allr, omw, fca, sorw, all, 
                                old_c, tws, alr, rmq, dl, cn, gen, old_cv, 
                                lt_c, rc_c, so, out, ndl, wcn, old, wq, still2, 
                                cvr, dw, k, cdw, ck >>

cw_5_ld(self) == /\ pc[self] = "cw_5_ld"
                 /\ rc_c' = [rc_c EXCEPT ![self] = rmc[W(self)]]
                 /\ pc' = [pc EXCEPT ![self] = "cw_6_st"]
                 /\ UNCHANGED << word, queue, cvword, cvq, waiting, rmc, cvmu, 
                                 wl, wc, sc, nww, nwsem, nww2, nreg2, sem, 
                                 data, now, note, nreg, held, ret, sres, 
                                 picked, sleeps, inlock, ip, mw, pool, nalloc, 
                                 nq, muFreed, refs, nwalive, taint3, stack, 
                                 lt_l, clear, old_, zlo, zhi, wcnt, lw, lt_u, 
                                 old_u, tc, nwl, wtrs, wake, wty, sor, cor, 
                                 rmq_, late, lt_m, old_m, lt_mu, old_mu, 
                                 lt_mu_, ww, old_mu_, sdl, scn, lt, rc, old_t, 
                                 zl, c, dl_, cn_, old_mu_w, lt_, first, out_, 
                                 rc_, hadw, ata, so_, havel, tw, allr, omw, 
                                 fca, sorw, all, old_c, tws, alr, rmq, dl, cn, 
                                 gen, old_cv, lt_c, so, out, ndl, wcn, old, wq, 
                                 still2, cvr, dw, k, cdw, ck >>

cw_6_st(self) == /\ pc[self] = "cw_6_st"
                 /\ cvword' = old_cv[self] | CVNE
                 /\ held' = [held EXCEPT ![self] = 0]
                 /\ so' = [so EXCEPT ![self] = 0]
                 /\ out' = [out EXCEPT ![self] = 0]
                 /\ /\ lt_mu_' = [lt_mu_ EXCEPT ![self] = lt_c[self]]
                    /\ stack' = [stack EXCEPT ![self] = << [ procedure |->  "mu_unlock",
                                                             pc        |->  "cw_7_ld",
                                                             old_mu_   |->  old_mu_[self],
                                                             lt_mu_    |->  lt_mu_[self],
                                                             ww        |->  ww[self] ] >>
                                                         \o stack[self]]
                    /\ ww' = [ww EXCEPT ![self] = FALSE]
                 /\ old_mu_' = [old_mu_ EXCEPT ![self] = 0]
                 /\ pc' = [pc EXCEPT ![self] = "ul_1_cas"]
                 /\ UNCHANGED << word, queue, cvq, waiting, rmc, cvmu, wl, wc, 
                                 sc, nww, nwsem, nww2, nreg2, sem, data, now, 
                                 note, nreg, ret, sres, picked, sleeps, inlock, 
                                 ip, mw, pool, nalloc, nq, muFreed, refs, 
                                 nwalive, taint3, lt_l, clear, old_, zlo, zhi, 
                                 wcnt, lw, lt_u, old_u, tc, nwl, wtrs, wake, 
                                 wty, sor, cor, rmq_, late, lt_m, old_m, lt_mu, 
                                 old_mu, sdl, scn, lt, rc, old_t, zl, c, dl_, 
                                 cn_, old_mu_w, lt_, first, out_, rc_, hadw, 
                                 ata, so_, havel, tw, allr, omw, fca, sorw, 
                                 all, old_c, tws, alr, rmq, dl, cn, gen, 
                                 old_cv, lt_c, rc_c, ndl, wcn, old, wq, still2, 
                                 cvr, dw, k, cdw, ck >>

cw_7_ld(self) == /\ pc[self] = "cw_7_ld"
                 /\ IF waiting[W(self)] = 0
                       THEN /\ pc' = [pc EXCEPT ![self] = "cw_17_l"]
                            /\ UNCHANGED << stack, sdl, scn >>
                       ELSE /\ IF so[self] # 0
                                  THEN /\ pc' = [pc EXCEPT ![self] = "cw_9_ld"]
                                       /\ UNCHANGED << stack, sdl, scn >>
                                  ELSE /\ /\ scn' = [scn EXCEPT ![self] = cn[self]]
                                          /\ sdl' = [sdl EXCEPT ![self] = dl[self]]
                                          /\ stack' = [stack EXCEPT ![self] = << [ procedure |->  "sem_wait",
                                                                                   pc        |->  "cw_8b_l",
                                                                                   sdl       |->  sdl[self],
                                                                                   scn       |->  scn[self] ] >>
                                                                               \o stack[self]]
                                       /\ pc' = [pc EXCEPT ![self] = "sw_1_r"]
                 /\ UNCHANGED << word, queue, cvword, cvq, waiting, rmc, cvmu, 
                                 wl, wc, sc, nww, nwsem, nww2, nreg2, sem, 
                                 data, now, note, nreg, held, ret, sres, 
                                 picked, sleeps, inlock, ip, mw, pool, nalloc, 
                                 nq, muFreed, refs, nwalive, taint3, lt_l, 
                                 clear, old_, zlo, zhi, wcnt, lw, lt_u, old_u, 
                                 tc, nwl, wtrs, wake, wty, sor, cor, rmq_, 
                                 late, lt_m, old_m, lt_mu, old_mu, lt_mu_, ww, 
                                 old_mu_, lt, rc, old_t, zl, c, dl_, cn_, 
                                 old_mu_w, lt_, first, out_, rc_, hadw, ata, 
                                 so_, havel, tw, allr, omw, fca, sorw, all, 
                                 old_c, tws, alr, rmq, dl, cn, gen, old_cv, 
                                 lt_c, rc_c, so, out, ndl, wcn, old, wq, 
                                 still2, cvr, dw, k, cdw, ck >>

cw_8b_l(self) == /\ pc[self] = "cw_8b_l"
                 /\ so' = [so EXCEPT ![self] = sres[self]]
                 /\ IF so'[self] = 0
                       THEN /\ pc' = [pc EXCEPT ![self] = "cw_16_ld"]
                       ELSE /\ pc' = [pc EXCEPT ![self] = "cw_9_ld"]
                 /\ UNCHANGED << word, queue, cvword, cvq, waiting, rmc, cvmu, 
                                 wl, wc, sc, nww, nwsem, nww2, nreg2, sem, 
                                 data, now, note, nreg, held, ret, sres, 
                                 picked, sleeps, inlock, ip, mw, pool, nalloc, 
                                 nq, muFreed, refs, nwalive, taint3, stack, 
                                 lt_l, clear, old_, zlo, zhi, wcnt, lw, lt_u, 
                                 old_u, tc, nwl, wtrs, wake, wty, sor, cor, 
                                 rmq_, late, lt_m, old_m, lt_mu, old_mu, 
                                 lt_mu_, ww, old_mu_, sdl, scn, lt, rc, old_t, 
                                 zl, c, dl_, cn_, old_mu_w, lt_, first, out_, 
                                 rc_, hadw, ata, so_, havel, tw, allr, omw, 
                                 fca, sorw, all, old_c, tws, alr, rmq, dl, cn, 
                                 gen, old_cv, lt_c, rc_c, out, ndl, wcn, old, 
                                 wq, still2, cvr, dw, k, cdw, ck >>

cw_9_ld(self) == /\ pc[self] = "cw_9_ld"
                 /\ IF waiting[W(self)] = 0
                       THEN /\ pc' = [pc EXCEPT ![self] = "cw_16_ld"]
                       ELSE /\ pc' = [pc EXCEPT ![self] = "cw_10_ld"]
                 /\ UNCHANGED << word, queue, cvword, cvq, waiting, rmc, cvmu, 
                                 wl, wc, sc, nww, nwsem, nww2, nreg2, sem, 
                                 data, now, note, nreg, held, ret, sres, 
                                 picked, sleeps, inlock, ip, mw, pool, nalloc, 
                                 nq, muFreed, refs, nwalive, taint3, stack, 
                                 lt_l, clear, old_, zlo, zhi, wcnt, lw, lt_u, 
                                 old_u, tc, nwl, wtrs, wake, wty, sor, cor, 
                                 rmq_, late, lt_m, old_m, lt_mu, old_mu, 
                                 lt_mu_, ww, old_mu_, sdl, scn, lt, rc, old_t, 
                                 zl, c, dl_, cn_, old_mu_w, lt_, first, out_, 
                                 rc_, hadw, ata, so_, havel, tw, allr, omw, 
                                 fca, sorw, all, old_c, tws, alr, rmq, dl, cn, 
                                 gen, old_cv, lt_c, rc_c, so, out, ndl, wcn, 
                                 old, wq, still2, cvr, dw, k, cdw, ck >>

cw_10_ld(self) == /\ pc[self] = "cw_10_ld"
                  /\ old_cv' = [old_cv EXCEPT ![self] = cvword]
                  /\ IF (old_cv'[self] & CVSPIN) # 0
                        THEN /\ pc' = [pc EXCEPT ![self] = "cw_10_d"]
                        ELSE /\ pc' = [pc EXCEPT ![self] = "cw_11_cas"]
                  /\ UNCHANGED << word, queue, cvword, cvq, waiting, rmc, cvmu, 
                                  wl, wc, sc, nww, nwsem, nww2, nreg2, sem, 
                                  data, now, note, nreg, held, ret, sres, 
                                  picked, sleeps, inlock, ip, mw, pool, nalloc, 
                                  nq, muFreed, refs, nwalive, taint3, stack, 
                                  lt_l, clear, old_, zlo, zhi, wcnt, lw, lt_u, 
                                  old_u, tc, nwl, wtrs, wake, wty, sor, cor, 
                                  rmq_, late, lt_m, old_m, lt_mu, old_mu, 
                                  lt_mu_, ww, old_mu_, sdl, scn, lt, rc, old_t, 
                                  zl, c, dl_, cn_, old_mu_w, lt_, first, out_, 
                                  rc_, hadw, ata, so_, havel, tw, allr, omw, 
                                  fca, sorw, all, old_c, tws, alr, rmq, dl, cn, 
                                  gen, lt_c, rc_c, so, out, ndl, wcn, old, wq, 
                                  still2, cvr, dw, k, cdw, ck >>

cw_11_cas(self) == /\ pc[self] = "cw_11_cas"
                   /\ IF cvword = old_cv[self]
                         THEN /\ cvword' = old_cv[self] | CVSPIN
                              /\ pc' = [pc EXCEPT ![self] = "cw_12_ld"]
                         ELSE /\ pc' = [pc EXCEPT ![self] = "cw_10_d"]
                              /\ UNCHANGED cvword
                   /\ UNCHANGED << word, queue, cvq, waiting, rmc, cvmu, wl, 
                                   wc, sc, nww, nwsem, nww2, nreg2, sem, data, 
                                   now, note, nreg, held, ret, sres, picked, 
                                   sleeps, inlock, ip, mw, pool, nalloc, nq, 
                                   muFreed, refs, nwalive, taint3, stack, lt_l, 
                                   clear, old_, zlo, zhi, wcnt, lw, lt_u, 
                                   old_u, tc, nwl, wtrs, wake, wty, sor, cor, 
                                   rmq_, late, lt_m, old_m, lt_mu, old_mu, 
                                   lt_mu_, ww, old_mu_, sdl, scn, lt, rc, 
                                   old_t, zl, c, dl_, cn_, old_mu_w, lt_, 
                                   first, out_, rc_, hadw, ata, so_, havel, tw, 
                                   allr, omw, fca, sorw, all, old_c, tws, alr, 
                                   rmq, dl, cn, gen, old_cv, lt_c, rc_c, so, 
                                   out, ndl, wcn, old, wq, still2, cvr, dw, k, 
                                   cdw, ck >>

cw_10_d(self) == /\ pc[self] = "cw_10_d"
                 /\ pc' = [pc EXCEPT ![self] = "cw_10_ld"]
                 /\ UNCHANGED << word, queue, cvword, cvq, waiting, rmc, cvmu, 
                                 wl, wc, sc, nww, nwsem, nww2, nreg2, sem, 
                                 data, now, note, nreg, held, ret, sres, 
                                 picked, sleeps, inlock, ip, mw, pool, nalloc, 
                                 nq, muFreed, refs, nwalive, taint3, stack, 
                                 lt_l, clear, old_, zlo, zhi, wcnt, lw, lt_u, 
                                 old_u, tc, nwl, wtrs, wake, wty, sor, cor, 
                                 rmq_, late, lt_m, old_m, lt_mu, old_mu, 
                                 lt_mu_, ww, old_mu_, sdl, scn, lt, rc, old_t, 
                                 zl, c, dl_, cn_, old_mu_w, lt_, first, out_, 
                                 rc_, hadw, ata, so_, havel, tw, allr, omw, 
                                 fca, sorw, all, old_c, tws, alr, rmq, dl, cn, 
                                 gen, old_cv, lt_c, rc_c, so, out, ndl, wcn, 
                                 old, wq, still2, cvr, dw, k, cdw, ck >>

cw_12_ld(self) == /\ pc[self] = "cw_12_ld"
                  /\ IF waiting[W(self)] = 0
                        THEN /\ pc' = [pc EXCEPT ![self] = "cw_15_st"]
                        ELSE /\ pc' = [pc EXCEPT ![self] = "cw_13_ld"]
                  /\ UNCHANGED << word, queue, cvword, cvq, waiting, rmc, cvmu, 
                                  wl, wc, sc, nww, nwsem, nww2, nreg2, sem, 
                                  data, now, note, nreg, held, ret, sres, 
                                  picked, sleeps, inlock, ip, mw, pool, nalloc, 
                                  nq, muFreed, refs, nwalive, taint3, stack, 
                                  lt_l, clear, old_, zlo, zhi, wcnt, lw, lt_u, 
                                  old_u, tc, nwl, wtrs, wake, wty, sor, cor, 
                                  rmq_, late, lt_m, old_m, lt_mu, old_mu, 
                                  lt_mu_, ww, old_mu_, sdl, scn, lt, rc, old_t, 
                                  zl, c, dl_, cn_, old_mu_w, lt_, first, out_, 
                                  rc_, hadw, ata, so_, havel, tw, allr, omw, 
                                  fca, sorw, all, old_c, tws, alr, rmq, dl, cn, 
                                  gen, old_cv, lt_c, rc_c, so, out, ndl, wcn, 
                                  old, wq, still2, cvr, dw, k, cdw, ck >>

cw_13_ld(self) == /\ pc[self] = "cw_13_ld"
                  /\ IF rc_c[self] # rmc[W(self)]
                        THEN /\ pc' = [pc EXCEPT ![self] = "cw_15_st"]
                             /\ UNCHANGED << cvq, out >>
                        ELSE /\ out' = [out EXCEPT ![self] = so[self]]
                             /\ cvq' = Without(cvq, W(self))
                             /\ pc' = [pc EXCEPT ![self] = "cw_14_ld"]
                  /\ UNCHANGED << word, queue, cvword, waiting, rmc, cvmu, wl, 
                                  wc, sc, nww, nwsem, nww2, nreg2, sem, data, 
                                  now, note, nreg, held, ret, sres, picked, 
                                  sleeps, inlock, ip, mw, pool, nalloc, nq, 
                                  muFreed, refs, nwalive, taint3, stack, lt_l, 
                                  clear, old_, zlo, zhi, wcnt, lw, lt_u, old_u, 
                                  tc, nwl, wtrs, wake, wty, sor, cor, rmq_, 
                                  late, lt_m, old_m, lt_mu, old_mu, lt_mu_, ww, 
                                  old_mu_, sdl, scn, lt, rc, old_t, zl, c, dl_, 
                                  cn_, old_mu_w, lt_, first, out_, rc_, hadw, 
                                  ata, so_, havel, tw, allr, omw, fca, sorw, 
                                  all, old_c, tws, alr, rmq, dl, cn, gen, 
                                  old_cv, lt_c, rc_c, so, ndl, wcn, old, wq, 
                                  still2, cvr, dw, k, cdw, ck >>

cw_14_ld(self) == /\ pc[self] = "cw_14_ld"
                  /\ TRUE
                  /\ pc' = [pc EXCEPT ![self] = "cw_14_cas"]
                  /\ UNCHANGED << word, queue, cvword, cvq, waiting, rmc, cvmu, 
                                  wl, wc, sc, nww, nwsem, nww2, nreg2, sem, 
                                  data, now, note, nreg, held, ret, sres, 
                                  picked, sleeps, inlock, ip, mw, pool, nalloc, 
                                  nq, muFreed, refs, nwalive, taint3, stack, 
                                  lt_l, clear, old_, zlo, zhi, wcnt, lw, lt_u, 
                                  old_u, tc, nwl, wtrs, wake, wty, sor, cor, 
                                  rmq_, late, lt_m, old_m, lt_mu, old_mu, 
                                  lt_mu_, ww, old_mu_, sdl, scn, lt, rc, old_t, 
                                  zl, c, dl_, cn_, old_mu_w, lt_, first, out_, 
                                  rc_, hadw, ata, so_, havel, tw, allr, omw, 
                                  fca, sorw, all, old_c, tws, alr, rmq, dl, cn, 
                                  gen, old_cv, lt_c, rc_c, so, out, ndl, wcn, 
                                  old, wq, still2, cvr, dw, k, cdw, ck >>

cw_14_cas(self) == /\ pc[self] = "cw_14_cas"
                   /\ rmc' = [rmc EXCEPT ![W(self)] = rmc[W(self)] + 1]
                   /\ old_cv' = [old_cv EXCEPT ![self] = IF cvq = <<>> THEN Clr(old_cv[self], CVNE) ELSE old_cv[self]]
                   /\ pc' = [pc EXCEPT ![self] = "cw_14_st"]
                   /\ UNCHANGED << word, queue, cvword, cvq, waiting, cvmu, wl, 
                                   wc, sc, nww, nwsem, nww2, nreg2, sem, data, 
                                   now, note, nreg, held, ret, sres, picked, 
                                   sleeps, inlock, ip, mw, pool, nalloc, nq, 
                                   muFreed, refs, nwalive, taint3, stack, lt_l, 
                                   clear, old_, zlo, zhi, wcnt, lw, lt_u, 
                                   old_u, tc, nwl, wtrs, wake, wty, sor, cor, 
                                   rmq_, late, lt_m, old_m, lt_mu, old_mu, 
                                   lt_mu_, ww, old_mu_, sdl, scn, lt, rc, 
                                   old_t, zl, c, dl_, cn_, old_mu_w, lt_, 
                                   first, out_, rc_, hadw, ata, so_, havel, tw, 
                                   allr, omw, fca, sorw, all, old_c, tws, alr, 
                                   rmq, dl, cn, gen, lt_c, rc_c, so, out, ndl, 
                                   wcn, old, wq, still2, cvr, dw, k, cdw, ck >>

cw_14_st(self) == /\ pc[self] = "cw_14_st"
                  /\ waiting' = [waiting EXCEPT ![W(self)] = 0]
                  /\ pc' = [pc EXCEPT ![self] = "cw_15_st"]
                  /\ UNCHANGED << word, queue, cvword, cvq, rmc, cvmu, wl, wc, 
                                  sc, nww, nwsem, nww2, nreg2, sem, data, now, 
                                  note, nreg, held, ret, sres, picked, sleeps, 
                                  inlock, ip, mw, pool, nalloc, nq, muFreed, 
                                  refs, nwalive, taint3, stack, lt_l, clear, 
                                  old_, zlo, zhi, wcnt, lw, lt_u, old_u, tc, 
                                  nwl, wtrs, wake, wty, sor, cor, rmq_, late, 
                                  lt_m, old_m, lt_mu, old_mu, lt_mu_, ww, 
                                  old_mu_, sdl, scn, lt, rc, old_t, zl, c, dl_, 
                                  cn_, old_mu_w, lt_, first, out_, rc_, hadw, 
                                  ata, so_, havel, tw, allr, omw, fca, sorw, 
                                  all, old_c, tws, alr, rmq, dl, cn, gen, 
                                  old_cv, lt_c, rc_c, so, out, ndl, wcn, old, 
                                  wq, still2, cvr, dw, k, cdw, ck >>

cw_15_st(self) == /\ pc[self] = "cw_15_st"
                  /\ cvword' = old_cv[self]
                  /\ pc' = [pc EXCEPT ![self] = "cw_16_ld"]
                  /\ UNCHANGED << word, queue, cvq, waiting, rmc, cvmu, wl, wc, 
                                  sc, nww, nwsem, nww2, nreg2, sem, data, now, 
                                  note, nreg, held, ret, sres, picked, sleeps, 
                                  inlock, ip, mw, pool, nalloc, nq, muFreed, 
                                  refs, nwalive, taint3, stack, lt_l, clear, 
                                  old_, zlo, zhi, wcnt, lw, lt_u, old_u, tc, 
                                  nwl, wtrs, wake, wty, sor, cor, rmq_, late, 
                                  lt_m, old_m, lt_mu, old_mu, lt_mu_, ww, 
                                  old_mu_, sdl, scn, lt, rc, old_t, zl, c, dl_, 
                                  cn_, old_mu_w, lt_, first, out_, rc_, hadw, 
                                  ata, so_, havel, tw, allr, omw, fca, sorw, 
                                  all, old_c, tws, alr, rmq, dl, cn, gen, 
                                  old_cv, lt_c, rc_c, so, out, ndl, wcn, old, 
                                  wq, still2, cvr, dw, k, cdw, ck >>

cw_16_ld(self) == /\ pc[self] = "cw_16_ld"
                  /\ IF waiting[W(self)] # 0
                        THEN /\ pc' = [pc EXCEPT ![self] = "cw_16_d"]
                        ELSE /\ pc' = [pc EXCEPT ![self] = "cw_7_ld"]
                  /\ UNCHANGED << word, queue, cvword, cvq, waiting, rmc, cvmu, 
                                  wl, wc, sc, nww, nwsem, nww2, nreg2, sem, 
                                  data, now, note, nreg, held, ret, sres, 
                                  picked, sleeps, inlock, ip, mw, pool, nalloc, 
                                  nq, muFreed, refs, nwalive, taint3, stack, 
                                  lt_l, clear, old_, zlo, zhi, wcnt, lw, lt_u, 
                                  old_u, tc, nwl, wtrs, wake, wty, sor, cor, 
                                  rmq_, late, lt_m, old_m, lt_mu, old_mu, 
                                  lt_mu_, ww, old_mu_, sdl, scn, lt, rc, old_t, 
                                  zl, c, dl_, cn_, old_mu_w, lt_, first, out_, 
                                  rc_, hadw, ata, so_, havel, tw, allr, omw, 
                                  fca, sorw, all, old_c, tws, alr, rmq, dl, cn, 
                                  gen, old_cv, lt_c, rc_c, so, out, ndl, wcn, 
                                  old, wq, still2, cvr, dw, k, cdw, ck >>

cw_16_d(self) == /\ pc[self] = "cw_16_d"
                 /\ pc' = [pc EXCEPT ![self] = "cw_7_ld"]
                 /\ UNCHANGED << word, queue, cvword, cvq, waiting, rmc, cvmu, 
                                 wl, wc, sc, nww, nwsem, nww2, nreg2, sem, 
                                 data, now, note, nreg, held, ret, sres, 
                                 picked, sleeps, inlock, ip, mw, pool, nalloc, 
                                 nq, muFreed, refs, nwalive, taint3, stack, 
                                 lt_l, clear, old_, zlo, zhi, wcnt, lw, lt_u, 
                                 old_u, tc, nwl, wtrs, wake, wty, sor, cor, 
                                 rmq_, late, lt_m, old_m, lt_mu, old_mu, 
                                 lt_mu_, ww, old_mu_, sdl, scn, lt, rc, old_t, 
                                 zl, c, dl_, cn_, old_mu_w, lt_, first, out_, 
                                 rc_, hadw, ata, so_, havel, tw, allr, omw, 
                                 fca, sorw, all, old_c, tws, alr, rmq, dl, cn, 
                                 gen, old_cv, lt_c, rc_c, so, out, ndl, wcn, 
                                 old, wq, still2, cvr, dw, k, cdw, ck >>

cw_17_l(self) == /\ pc[self] = "cw_17_l"
                 /\ IF ~gen[self] /\ ~cvmu[W(self)]
                       THEN /\ /\ clear' = [clear EXCEPT ![self] = DESIG]
                               /\ lt_l' = [lt_l EXCEPT ![self] = lt_c[self]]
                               /\ stack' = [stack EXCEPT ![self] = << [ procedure |->  "lock_slow",
                                                                        pc        |->  "cw_18_l",
                                                                        old_      |->  old_[self],
                                                                        zlo       |->  zlo[self],
                                                                        zhi       |->  zhi[self],
                                                                        wcnt      |->  wcnt[self],
                                                                        lw        |->  lw[self],
                                                                        lt_l      |->  lt_l[self],
                                                                        clear     |->  clear[self] ] >>
                                                                    \o stack[self]]
                            /\ old_' = [old_ EXCEPT ![self] = 0]
                            /\ zlo' = [zlo EXCEPT ![self] = 0]
                            /\ zhi' = [zhi EXCEPT ![self] = FALSE]
                            /\ wcnt' = [wcnt EXCEPT ![self] = 0]
                            /\ lw' = [lw EXCEPT ![self] = 0]
                            /\ pc' = [pc EXCEPT ![self] = "ls_1_ld"]
                            /\ UNCHANGED << lt_m, old_m >>
                       ELSE /\ /\ lt_m' = [lt_m EXCEPT ![self] = lt_c[self]]
                               /\ stack' = [stack EXCEPT ![self] = << [ procedure |->  "mu_lock",
                                                                        pc        |->  "cw_18_l",
                                                                        old_m     |->  old_m[self],
                                                                        lt_m      |->  lt_m[self] ] >>
                                                                    \o stack[self]]
                            /\ old_m' = [old_m EXCEPT ![self] = 0]
                            /\ pc' = [pc EXCEPT ![self] = "lk_1_cas"]
                            /\ UNCHANGED << lt_l, clear, old_, zlo, zhi, wcnt, 
                                            lw >>
                 /\ UNCHANGED << word, queue, cvword, cvq, waiting, rmc, cvmu, 
                                 wl, wc, sc, nww, nwsem, nww2, nreg2, sem, 
                                 data, now, note, nreg, held, ret, sres, 
                                 picked, sleeps, inlock, ip, mw, pool, nalloc, 
                                 nq, muFreed, refs, nwalive, taint3, lt_u, 
                                 old_u, tc, nwl, wtrs, wake, wty, sor, cor, 
                                 rmq_, late, lt_mu, old_mu, lt_mu_, ww, 
                                 old_mu_, sdl, scn, lt, rc, old_t, zl, c, dl_, 
                                 cn_, old_mu_w, lt_, first, out_, rc_, hadw, 
                                 ata, so_, havel, tw, allr, omw, fca, sorw, 
                                 all, old_c, tws, alr, rmq, dl, cn, gen, 
                                 old_cv, lt_c, rc_c, so, out, ndl, wcn, old, 
                                 wq, still2, cvr, dw, k, cdw, ck >>

cw_18_l(self) == /\ pc[self] = "cw_18_l"
                 /\ ret' = [ret EXCEPT ![self] = out[self]]
                 /\ pc' = [pc EXCEPT ![self] = Head(stack[self]).pc]
                 /\ old_cv' = [old_cv EXCEPT ![self] = Head(stack[self]).old_cv]
                 /\ lt_c' = [lt_c EXCEPT ![self] = Head(stack[self]).lt_c]
                 /\ rc_c' = [rc_c EXCEPT ![self] = Head(stack[self]).rc_c]
                 /\ so' = [so EXCEPT ![self] = Head(stack[self]).so]
                 /\ out' = [out EXCEPT ![self] = Head(stack[self]).out]
                 /\ dl' = [dl EXCEPT ![self] = Head(stack[self]).dl]
                 /\ cn' = [cn EXCEPT ![self] = Head(stack[self]).cn]
                 /\ gen' = [gen EXCEPT ![self] = Head(stack[self]).gen]
                 /\ stack' = [stack EXCEPT ![self] = Tail(stack[self])]
                 /\ UNCHANGED << word, queue, cvword, cvq, waiting, rmc, cvmu, 
                                 wl, wc, sc, nww, nwsem, nww2, nreg2, sem, 
                                 data, now, note, nreg, held, sres, picked, 
                                 sleeps, inlock, ip, mw, pool, nalloc, nq, 
                                 muFreed, refs, nwalive, taint3, lt_l, clear, 
                                 old_, zlo, zhi, wcnt, lw, lt_u, old_u, tc, 
                                 nwl, wtrs, wake, wty, sor, cor, rmq_, late, 
                                 lt_m, old_m, lt_mu, old_mu, lt_mu_, ww, 
                                 old_mu_, sdl, scn, lt, rc, old_t, zl, c, dl_, 
                                 cn_, old_mu_w, lt_, first, out_, rc_, hadw, 
                                 ata, so_, havel, tw, allr, omw, fca, sorw, 
                                 all, old_c, tws, alr, rmq, ndl, wcn, old, wq, 
                                 still2, cvr, dw, k, cdw, ck >>

cv_wait(self) == cw_1_st(self) \/ cw_2_ld(self) \/ cw_3_ld(self)
                    \/ cw_4_cas(self) \/ cw_3_d(self) \/ cw_5_ld(self)
                    \/ cw_6_st(self) \/ cw_7_ld(self) \/ cw_8b_l(self)
                    \/ cw_9_ld(self) \/ cw_10_ld(self) \/ cw_11_cas(self)
                    \/ cw_10_d(self) \/ cw_12_ld(self) \/ cw_13_ld(self)
                    \/ cw_14_ld(self) \/ cw_14_cas(self) \/ cw_14_st(self)
                    \/ cw_15_st(self) \/ cw_16_ld(self) \/ cw_16_d(self)
                    \/ cw_17_l(self) \/ cw_18_l(self)

wn_0_l(self) == /\ pc[self] = "wn_0_l"
                /\ IF ~wcn[self]
                      THEN /\ IF mw[self] = 0
                                 THEN /\ IF pool # <<>>
                                            THEN /\ mw' = [mw EXCEPT ![self] = Head(pool)]
                                                 /\ pool' = Tail(pool)
                                                 /\ UNCHANGED nalloc
                                            ELSE /\ mw' = [mw EXCEPT ![self] = nalloc + 1]
                                                 /\ nalloc' = nalloc + 1
                                                 /\ pool' = pool
                                 ELSE /\ TRUE
                                      /\ UNCHANGED << mw, pool, nalloc >>
                           /\ pc' = [pc EXCEPT ![self] = "wn_1_st"]
                      ELSE /\ pc' = [pc EXCEPT ![self] = "wn_0_r"]
                           /\ UNCHANGED << mw, pool, nalloc >>
                /\ UNCHANGED << word, queue, cvword, cvq, waiting, rmc, cvmu, 
                                wl, wc, sc, nww, nwsem, nww2, nreg2, sem, data, 
                                now, note, nreg, held, ret, sres, picked, 
                                sleeps, inlock, ip, nq, muFreed, refs, nwalive, 
                                taint3, stack, lt_l, clear, old_, zlo, zhi, 
                                wcnt, lw, lt_u, old_u, tc, nwl, wtrs, wake, 
                                wty, sor, cor, rmq_, late, lt_m, old_m, lt_mu, 
                                old_mu, lt_mu_, ww, old_mu_, sdl, scn, lt, rc, 
                                old_t, zl, c, dl_, cn_, old_mu_w, lt_, first, 
                                out_, rc_, hadw, ata, so_, havel, tw, allr, 
                                omw, fca, sorw, all, old_c, tws, alr, rmq, dl, 
                                cn, gen, old_cv, lt_c, rc_c, so, out, ndl, wcn, 
                                old, wq, still2, cvr, dw, k, cdw, ck >>

wn_0_r(self) == /\ pc[self] = "wn_0_r"
                /\ IF note
                      THEN /\ ret' = [ret EXCEPT ![self] = 1]
                           /\ pc' = [pc EXCEPT ![self] = Head(stack[self]).pc]
                           /\ old' = [old EXCEPT ![self] = Head(stack[self]).old]
                           /\ wq' = [wq EXCEPT ![self] = Head(stack[self]).wq]
                           /\ still2' = [still2 EXCEPT ![self] = Head(stack[self]).still2]
                           /\ cvr' = [cvr EXCEPT ![self] = Head(stack[self]).cvr]
                           /\ ndl' = [ndl EXCEPT ![self] = Head(stack[self]).ndl]
                           /\ wcn' = [wcn EXCEPT ![self] = Head(stack[self]).wcn]
                           /\ stack' = [stack EXCEPT ![self] = Tail(stack[self])]
                           /\ UNCHANGED << mw, pool, nalloc >>
                      ELSE /\ IF mw[self] = 0
                                 THEN /\ IF pool # <<>>
                                            THEN /\ mw' = [mw EXCEPT ![self] = Head(pool)]
                                                 /\ pool' = Tail(pool)
                                                 /\ UNCHANGED nalloc
                                            ELSE /\ mw' = [mw EXCEPT ![self] = nalloc + 1]
                                                 /\ nalloc' = nalloc + 1
                                                 /\ pool' = pool
                                 ELSE /\ TRUE
                                      /\ UNCHANGED << mw, pool, nalloc >>
                           /\ pc' = [pc EXCEPT ![self] = "wn_1_st"]
                           /\ UNCHANGED << ret, stack, ndl, wcn, old, wq, 
                                           still2, cvr >>
                /\ UNCHANGED << word, queue, cvword, cvq, waiting, rmc, cvmu, 
                                wl, wc, sc, nww, nwsem, nww2, nreg2, sem, data, 
                                now, note, nreg, held, sres, picked, sleeps, 
                                inlock, ip, nq, muFreed, refs, nwalive, taint3, 
                                lt_l, clear, old_, zlo, zhi, wcnt, lw, lt_u, 
                                old_u, tc, nwl, wtrs, wake, wty, sor, cor, 
                                rmq_, late, lt_m, old_m, lt_mu, old_mu, lt_mu_, 
                                ww, old_mu_, sdl, scn, lt, rc, old_t, zl, c, 
                                dl_, cn_, old_mu_w, lt_, first, out_, rc_, 
                                hadw, ata, so_, havel, tw, allr, omw, fca, 
                                sorw, all, old_c, tws, alr, rmq, dl, cn, gen, 
                                old_cv, lt_c, rc_c, so, out, dw, k, cdw, ck >>

wn_1_st(self) == /\ pc[self] = "wn_1_st"
                 /\ nww' = [nww EXCEPT ![self] = 0]
                 /\ picked' = [picked EXCEPT ![self] = FALSE]
                 /\ nwalive' = [nwalive EXCEPT ![self] = TRUE]
                 /\ nwsem' = [nwsem EXCEPT ![self] = W(self)]
                 /\ pc' = [pc EXCEPT ![self] = "wn_2_ld"]
                 /\ UNCHANGED << word, queue, cvword, cvq, waiting, rmc, cvmu, 
                                 wl, wc, sc, nww2, nreg2, sem, data, now, note, 
                                 nreg, held, ret, sres, sleeps, inlock, ip, mw, 
                                 pool, nalloc, nq, muFreed, refs, taint3, 
                                 stack, lt_l, clear, old_, zlo, zhi, wcnt, lw, 
                                 lt_u, old_u, tc, nwl, wtrs, wake, wty, sor, 
                                 cor, rmq_, late, lt_m, old_m, lt_mu, old_mu, 
                                 lt_mu_, ww, old_mu_, sdl, scn, lt, rc, old_t, 
                                 zl, c, dl_, cn_, old_mu_w, lt_, first, out_, 
                                 rc_, hadw, ata, so_, havel, tw, allr, omw, 
                                 fca, sorw, all, old_c, tws, alr, rmq, dl, cn, 
                                 gen, old_cv, lt_c, rc_c, so, out, ndl, wcn, 
                                 old, wq, still2, cvr, dw, k, cdw, ck >>

wn_2_ld(self) == /\ pc[self] = "wn_2_ld"
                 /\ old' = [old EXCEPT ![self] = cvword]
                 /\ IF (old'[self] & CVSPIN) # 0
                       THEN /\ pc' = [pc EXCEPT ![self] = "wn_2_d"]
                       ELSE /\ pc' = [pc EXCEPT ![self] = "wn_3_cas"]
                 /\ UNCHANGED << word, queue, cvword, cvq, waiting, rmc, cvmu, 
                                 wl, wc, sc, nww, nwsem, nww2, nreg2, sem, 
                                 data, now, note, nreg, held, ret, sres, 
                                 picked, sleeps, inlock, ip, mw, pool, nalloc, 
                                 nq, muFreed, refs, nwalive, taint3, stack, 
                                 lt_l, clear, old_, zlo, zhi, wcnt, lw, lt_u, 
                                 old_u, tc, nwl, wtrs, wake, wty, sor, cor, 
                                 rmq_, late, lt_m, old_m, lt_mu, old_mu, 
                                 lt_mu_, ww, old_mu_, sdl, scn, lt, rc, old_t, 
                                 zl, c, dl_, cn_, old_mu_w, lt_, first, out_, 
                                 rc_, hadw, ata, so_, havel, tw, allr, omw, 
                                 fca, sorw, all, old_c, tws, alr, rmq, dl, cn, 
                                 gen, old_cv, lt_c, rc_c, so, out, ndl, wcn, 
                                 wq, still2, cvr, dw, k, cdw, ck >>

wn_3_cas(self) == /\ pc[self] = "wn_3_cas"
                  /\ IF cvword = old[self]
                        THEN /\ cvword' = old[self] | CVSPIN
                             /\ cvq' = Append(cvq, -self)
                             /\ nq' = (IF nq < N THEN nq + 1 ELSE nq)
                             /\ pc' = [pc EXCEPT ![self] = "wn_4_st"]
                        ELSE /\ pc' = [pc EXCEPT ![self] = "wn_2_d"]
                             /\ UNCHANGED << cvword, cvq, nq >>
                  /\ UNCHANGED << word, queue, waiting, rmc, cvmu, wl, wc, sc, 
                                  nww, nwsem, nww2, nreg2, sem, data, now, 
                                  note, nreg, held, ret, sres, picked, sleeps, 
                                  inlock, ip, mw, pool, nalloc, muFreed, refs, 
                                  nwalive, taint3, stack, lt_l, clear, old_, 
                                  zlo, zhi, wcnt, lw, lt_u, old_u, tc, nwl, 
                                  wtrs, wake, wty, sor, cor, rmq_, late, lt_m, 
                                  old_m, lt_mu, old_mu, lt_mu_, ww, old_mu_, 
                                  sdl, scn, lt, rc, old_t, zl, c, dl_, cn_, 
                                  old_mu_w, lt_, first, out_, rc_, hadw, ata, 
                                  so_, havel, tw, allr, omw, fca, sorw, all, 
                                  old_c, tws, alr, rmq, dl, cn, gen, old_cv, 
                                  lt_c, rc_c, so, out, ndl, wcn, old, wq, 
                                  still2, cvr, dw, k, cdw, ck >>

wn_2_d(self) == /\ pc[self] = "wn_2_d"
                /\ pc' = [pc EXCEPT ![self] = "wn_2_ld"]
                /\ UNCHANGED << word, queue, cvword, cvq, waiting, rmc, cvmu, 
                                wl, wc, sc, nww, nwsem, nww2, nreg2, sem, data, 
                                now, note, nreg, held, ret, sres, picked, 
                                sleeps, inlock, ip, mw, pool, nalloc, nq, 
                                muFreed, refs, nwalive, taint3, stack, lt_l, 
                                clear, old_, zlo, zhi, wcnt, lw, lt_u, old_u, 
                                tc, nwl, wtrs, wake, wty, sor, cor, rmq_, late, 
                                lt_m, old_m, lt_mu, old_mu, lt_mu_, ww, 
                                old_mu_, sdl, scn, lt, rc, old_t, zl, c, dl_, 
                                cn_, old_mu_w, lt_, first, out_, rc_, hadw, 
                                ata, so_, havel, tw, allr, omw, fca, sorw, all, 
                                old_c, tws, alr, rmq, dl, cn, gen, old_cv, 
                                lt_c, rc_c, so, out, ndl, wcn, old, wq, still2, 
                                cvr, dw, k, cdw, ck >>

wn_4_st(self) == /\ pc[self] = "wn_4_st"
                 /\ nww' = [nww EXCEPT ![self] = 1]
                 /\ pc' = [pc EXCEPT ![self] = "wn_5_st"]
                 /\ UNCHANGED << word, queue, cvword, cvq, waiting, rmc, cvmu, 
                                 wl, wc, sc, nwsem, nww2, nreg2, sem, data, 
                                 now, note, nreg, held, ret, sres, picked, 
                                 sleeps, inlock, ip, mw, pool, nalloc, nq, 
                                 muFreed, refs, nwalive, taint3, stack, lt_l, 
                                 clear, old_, zlo, zhi, wcnt, lw, lt_u, old_u, 
                                 tc, nwl, wtrs, wake, wty, sor, cor, rmq_, 
                                 late, lt_m, old_m, lt_mu, old_mu, lt_mu_, ww, 
                                 old_mu_, sdl, scn, lt, rc, old_t, zl, c, dl_, 
                                 cn_, old_mu_w, lt_, first, out_, rc_, hadw, 
                                 ata, so_, havel, tw, allr, omw, fca, sorw, 
                                 all, old_c, tws, alr, rmq, dl, cn, gen, 
                                 old_cv, lt_c, rc_c, so, out, ndl, wcn, old, 
                                 wq, still2, cvr, dw, k, cdw, ck >>

wn_5_st(self) == /\ pc[self] = "wn_5_st"
                 /\ cvword' = old[self] | CVNE
                 /\ pc' = [pc EXCEPT ![self] = "wn_5_l"]
                 /\ UNCHANGED << word, queue, cvq, waiting, rmc, cvmu, wl, wc, 
                                 sc, nww, nwsem, nww2, nreg2, sem, data, now, 
                                 note, nreg, held, ret, sres, picked, sleeps, 
                                 inlock, ip, mw, pool, nalloc, nq, muFreed, 
                                 refs, nwalive, taint3, stack, lt_l, clear, 
                                 old_, zlo, zhi, wcnt, lw, lt_u, old_u, tc, 
                                 nwl, wtrs, wake, wty, sor, cor, rmq_, late, 
                                 lt_m, old_m, lt_mu, old_mu, lt_mu_, ww, 
                                 old_mu_, sdl, scn, lt, rc, old_t, zl, c, dl_, 
                                 cn_, old_mu_w, lt_, first, out_, rc_, hadw, 
                                 ata, so_, havel, tw, allr, omw, fca, sorw, 
                                 all, old_c, tws, alr, rmq, dl, cn, gen, 
                                 old_cv, lt_c, rc_c, so, out, ndl, wcn, old, 
                                 wq, still2, cvr, dw, k, cdw, ck >>

wn_5_l(self) == /\ pc[self] = "wn_5_l"
                /\ IF ~wcn[self]
                      THEN /\ pc' = [pc EXCEPT ![self] = "wn_5u_l"]
                      ELSE /\ pc' = [pc EXCEPT ![self] = "wn_5a_st"]
                /\ UNCHANGED << word, queue, cvword, cvq, waiting, rmc, cvmu, 
                                wl, wc, sc, nww, nwsem, nww2, nreg2, sem, data, 
                                now, note, nreg, held, ret, sres, picked, 
                                sleeps, inlock, ip, mw, pool, nalloc, nq, 
                                muFreed, refs, nwalive, taint3, stack, lt_l, 
                                clear, old_, zlo, zhi, wcnt, lw, lt_u, old_u, 
                                tc, nwl, wtrs, wake, wty, sor, cor, rmq_, late, 
                                lt_m, old_m, lt_mu, old_mu, lt_mu_, ww, 
                                old_mu_, sdl, scn, lt, rc, old_t, zl, c, dl_, 
                                cn_, old_mu_w, lt_, first, out_, rc_, hadw, 
                                ata, so_, havel, tw, allr, omw, fca, sorw, all, 
                                old_c, tws, alr, rmq, dl, cn, gen, old_cv, 
                                lt_c, rc_c, so, out, ndl, wcn, old, wq, still2, 
                                cvr, dw, k, cdw, ck >>

wn_5a_st(self) == /\ pc[self] = "wn_5a_st"
                  /\ nww2' = [nww2 EXCEPT ![self] = 0]
                  /\ pc' = [pc EXCEPT ![self] = "wn_5b_r"]
                  /\ UNCHANGED << word, queue, cvword, cvq, waiting, rmc, cvmu, 
                                  wl, wc, sc, nww, nwsem, nreg2, sem, data, 
                                  now, note, nreg, held, ret, sres, picked, 
                                  sleeps, inlock, ip, mw, pool, nalloc, nq, 
                                  muFreed, refs, nwalive, taint3, stack, lt_l, 
                                  clear, old_, zlo, zhi, wcnt, lw, lt_u, old_u, 
                                  tc, nwl, wtrs, wake, wty, sor, cor, rmq_, 
                                  late, lt_m, old_m, lt_mu, old_mu, lt_mu_, ww, 
                                  old_mu_, sdl, scn, lt, rc, old_t, zl, c, dl_, 
                                  cn_, old_mu_w, lt_, first, out_, rc_, hadw, 
                                  ata, so_, havel, tw, allr, omw, fca, sorw, 
                                  all, old_c, tws, alr, rmq, dl, cn, gen, 
                                  old_cv, lt_c, rc_c, so, out, ndl, wcn, old, 
                                  wq, still2, cvr, dw, k, cdw, ck >>

wn_5b_r(self) == /\ pc[self] = "wn_5b_r"
                 /\ IF ~note
                       THEN /\ nww2' = [nww2 EXCEPT ![self] = 1]
                            /\ nreg2' = (nreg2 \cup {self})
                       ELSE /\ TRUE
                            /\ UNCHANGED << nww2, nreg2 >>
                 /\ pc' = [pc EXCEPT ![self] = "wn_5u_l"]
                 /\ UNCHANGED << word, queue, cvword, cvq, waiting, rmc, cvmu, 
                                 wl, wc, sc, nww, nwsem, sem, data, now, note, 
                                 nreg, held, ret, sres, picked, sleeps, inlock, 
                                 ip, mw, pool, nalloc, nq, muFreed, refs, 
                                 nwalive, taint3, stack, lt_l, clear, old_, 
                                 zlo, zhi, wcnt, lw, lt_u, old_u, tc, nwl, 
                                 wtrs, wake, wty, sor, cor, rmq_, late, lt_m, 
                                 old_m, lt_mu, old_mu, lt_mu_, ww, old_mu_, 
                                 sdl, scn, lt, rc, old_t, zl, c, dl_, cn_, 
                                 old_mu_w, lt_, first, out_, rc_, hadw, ata, 
                                 so_, havel, tw, allr, omw, fca, sorw, all, 
                                 old_c, tws, alr, rmq, dl, cn, gen, old_cv, 
                                 lt_c, rc_c, so, out, ndl, wcn, old, wq, 
                                 still2, cvr, dw, k, cdw, ck >>

wn_5u_l(self) == /\ pc[self] = "wn_5u_l"
                 /\ held' = [held EXCEPT ![self] = 0]
                 /\ /\ lt_mu_' = [lt_mu_ EXCEPT ![self] = 1]
                    /\ stack' = [stack EXCEPT ![self] = << [ procedure |->  "mu_unlock",
                                                             pc        |->  "wn_6_ld",
                                                             old_mu_   |->  old_mu_[self],
                                                             lt_mu_    |->  lt_mu_[self],
                                                             ww        |->  ww[self] ] >>
                                                         \o stack[self]]
                    /\ ww' = [ww EXCEPT ![self] = FALSE]
                 /\ old_mu_' = [old_mu_ EXCEPT ![self] = 0]
                 /\ pc' = [pc EXCEPT ![self] = "ul_1_cas"]
                 /\ UNCHANGED << word, queue, cvword, cvq, waiting, rmc, cvmu, 
                                 wl, wc, sc, nww, nwsem, nww2, nreg2, sem, 
                                 data, now, note, nreg, ret, sres, picked, 
                                 sleeps, inlock, ip, mw, pool, nalloc, nq, 
                                 muFreed, refs, nwalive, taint3, lt_l, clear, 
                                 old_, zlo, zhi, wcnt, lw, lt_u, old_u, tc, 
                                 nwl, wtrs, wake, wty, sor, cor, rmq_, late, 
                                 lt_m, old_m, lt_mu, old_mu, sdl, scn, lt, rc, 
                                 old_t, zl, c, dl_, cn_, old_mu_w, lt_, first, 
                                 out_, rc_, hadw, ata, so_, havel, tw, allr, 
                                 omw, fca, sorw, all, old_c, tws, alr, rmq, dl, 
                                 cn, gen, old_cv, lt_c, rc_c, so, out, ndl, 
                                 wcn, old, wq, still2, cvr, dw, k, cdw, ck >>

wn_6_ld(self) == /\ pc[self] = "wn_6_ld"
                 /\ cvr' = [cvr EXCEPT ![self] = (nww[self] = 0)]
                 /\ pc' = [pc EXCEPT ![self] = "wn_6_l"]
                 /\ UNCHANGED << word, queue, cvword, cvq, waiting, rmc, cvmu, 
                                 wl, wc, sc, nww, nwsem, nww2, nreg2, sem, 
                                 data, now, note, nreg, held, ret, sres, 
                                 picked, sleeps, inlock, ip, mw, pool, nalloc, 
                                 nq, muFreed, refs, nwalive, taint3, stack, 
                                 lt_l, clear, old_, zlo, zhi, wcnt, lw, lt_u, 
                                 old_u, tc, nwl, wtrs, wake, wty, sor, cor, 
                                 rmq_, late, lt_m, old_m, lt_mu, old_mu, 
                                 lt_mu_, ww, old_mu_, sdl, scn, lt, rc, old_t, 
                                 zl, c, dl_, cn_, old_mu_w, lt_, first, out_, 
                                 rc_, hadw, ata, so_, havel, tw, allr, omw, 
                                 fca, sorw, all, old_c, tws, alr, rmq, dl, cn, 
                                 gen, old_cv, lt_c, rc_c, so, out, ndl, wcn, 
                                 old, wq, still2, dw, k, cdw, ck >>

wn_6_l(self) == /\ pc[self] = "wn_6_l"
                /\ IF ~wcn[self]
                      THEN /\ IF cvr[self]
                                 THEN /\ pc' = [pc EXCEPT ![self] = "wn_8_ld"]
                                 ELSE /\ pc' = [pc EXCEPT ![self] = "wn_7_pd"]
                      ELSE /\ pc' = [pc EXCEPT ![self] = "wn_6a_r"]
                /\ UNCHANGED << word, queue, cvword, cvq, waiting, rmc, cvmu, 
                                wl, wc, sc, nww, nwsem, nww2, nreg2, sem, data, 
                                now, note, nreg, held, ret, sres, picked, 
                                sleeps, inlock, ip, mw, pool, nalloc, nq, 
                                muFreed, refs, nwalive, taint3, stack, lt_l, 
                                clear, old_, zlo, zhi, wcnt, lw, lt_u, old_u, 
                                tc, nwl, wtrs, wake, wty, sor, cor, rmq_, late, 
                                lt_m, old_m, lt_mu, old_mu, lt_mu_, ww, 
                                old_mu_, sdl, scn, lt, rc, old_t, zl, c, dl_, 
                                cn_, old_mu_w, lt_, first, out_, rc_, hadw, 
                                ata, so_, havel, tw, allr, omw, fca, sorw, all, 
                                old_c, tws, alr, rmq, dl, cn, gen, old_cv, 
                                lt_c, rc_c, so, out, ndl, wcn, old, wq, still2, 
                                cvr, dw, k, cdw, ck >>

wn_6a_r(self) == /\ pc[self] = "wn_6a_r"
                 /\ IF cvr[self] \/ note
                       THEN /\ pc' = [pc EXCEPT ![self] = "wn_8_ld"]
                       ELSE /\ pc' = [pc EXCEPT ![self] = "wn_7_pd"]
                 /\ UNCHANGED << word, queue, cvword, cvq, waiting, rmc, cvmu, 
                                 wl, wc, sc, nww, nwsem, nww2, nreg2, sem, 
                                 data, now, note, nreg, held, ret, sres, 
                                 picked, sleeps, inlock, ip, mw, pool, nalloc, 
                                 nq, muFreed, refs, nwalive, taint3, stack, 
                                 lt_l, clear, old_, zlo, zhi, wcnt, lw, lt_u, 
                                 old_u, tc, nwl, wtrs, wake, wty, sor, cor, 
                                 rmq_, late, lt_m, old_m, lt_mu, old_mu, 
                                 lt_mu_, ww, old_mu_, sdl, scn, lt, rc, old_t, 
                                 zl, c, dl_, cn_, old_mu_w, lt_, first, out_, 
                                 rc_, hadw, ata, so_, havel, tw, allr, omw, 
                                 fca, sorw, all, old_c, tws, alr, rmq, dl, cn, 
                                 gen, old_cv, lt_c, rc_c, so, out, ndl, wcn, 
                                 old, wq, still2, cvr, dw, k, cdw, ck >>

wn_7_pd(self) == /\ pc[self] = "wn_7_pd"
                 /\ sem[W(self)] > 0 \/ Expired(ndl[self], now)
                 /\ IF sem[W(self)] > 0
                       THEN /\ sem' = [sem EXCEPT ![W(self)] = sem[W(self)] - 1]
                            /\ pc' = [pc EXCEPT ![self] = "wn_6_ld"]
                       ELSE /\ pc' = [pc EXCEPT ![self] = "wn_8_ld"]
                            /\ sem' = sem
                 /\ UNCHANGED << word, queue, cvword, cvq, waiting, rmc, cvmu, 
                                 wl, wc, sc, nww, nwsem, nww2, nreg2, data, 
                                 now, note, nreg, held, ret, sres, picked, 
                                 sleeps, inlock, ip, mw, pool, nalloc, nq, 
                                 muFreed, refs, nwalive, taint3, stack, lt_l, 
                                 clear, old_, zlo, zhi, wcnt, lw, lt_u, old_u, 
                                 tc, nwl, wtrs, wake, wty, sor, cor, rmq_, 
                                 late, lt_m, old_m, lt_mu, old_mu, lt_mu_, ww, 
                                 old_mu_, sdl, scn, lt, rc, old_t, zl, c, dl_, 
                                 cn_, old_mu_w, lt_, first, out_, rc_, hadw, 
                                 ata, so_, havel, tw, allr, omw, fca, sorw, 
                                 all, old_c, tws, alr, rmq, dl, cn, gen, 
                                 old_cv, lt_c, rc_c, so, out, ndl, wcn, old, 
                                 wq, still2, cvr, dw, k, cdw, ck >>

wn_8_ld(self) == /\ pc[self] = "wn_8_ld"
                 /\ old' = [old EXCEPT ![self] = cvword]
                 /\ IF (old'[self] & CVSPIN) # 0
                       THEN /\ pc' = [pc EXCEPT ![self] = "wn_8_d"]
                       ELSE /\ pc' = [pc EXCEPT ![self] = "wn_9_cas"]
                 /\ UNCHANGED << word, queue, cvword, cvq, waiting, rmc, cvmu, 
                                 wl, wc, sc, nww, nwsem, nww2, nreg2, sem, 
                                 data, now, note, nreg, held, ret, sres, 
                                 picked, sleeps, inlock, ip, mw, pool, nalloc, 
                                 nq, muFreed, refs, nwalive, taint3, stack, 
                                 lt_l, clear, old_, zlo, zhi, wcnt, lw, lt_u, 
                                 old_u, tc, nwl, wtrs, wake, wty, sor, cor, 
                                 rmq_, late, lt_m, old_m, lt_mu, old_mu, 
                                 lt_mu_, ww, old_mu_, sdl, scn, lt, rc, old_t, 
                                 zl, c, dl_, cn_, old_mu_w, lt_, first, out_, 
                                 rc_, hadw, ata, so_, havel, tw, allr, omw, 
                                 fca, sorw, all, old_c, tws, alr, rmq, dl, cn, 
                                 gen, old_cv, lt_c, rc_c, so, out, ndl, wcn, 
                                 wq, still2, cvr, dw, k, cdw, ck >>

wn_9_cas(self) == /\ pc[self] = "wn_9_cas"
                  /\ IF cvword = old[self]
                        THEN /\ cvword' = old[self] | CVSPIN
                             /\ pc' = [pc EXCEPT ![self] = "wn_10_ld"]
                        ELSE /\ pc' = [pc EXCEPT ![self] = "wn_8_d"]
                             /\ UNCHANGED cvword
                  /\ UNCHANGED << word, queue, cvq, waiting, rmc, cvmu, wl, wc, 
                                  sc, nww, nwsem, nww2, nreg2, sem, data, now, 
                                  note, nreg, held, ret, sres, picked, sleeps, 
                                  inlock, ip, mw, pool, nalloc, nq, muFreed, 
                                  refs, nwalive, taint3, stack, lt_l, clear, 
                                  old_, zlo, zhi, wcnt, lw, lt_u, old_u, tc, 
                                  nwl, wtrs, wake, wty, sor, cor, rmq_, late, 
                                  lt_m, old_m, lt_mu, old_mu, lt_mu_, ww, 
                                  old_mu_, sdl, scn, lt, rc, old_t, zl, c, dl_, 
                                  cn_, old_mu_w, lt_, first, out_, rc_, hadw, 
                                  ata, so_, havel, tw, allr, omw, fca, sorw, 
                                  all, old_c, tws, alr, rmq, dl, cn, gen, 
                                  old_cv, lt_c, rc_c, so, out, ndl, wcn, old, 
                                  wq, still2, cvr, dw, k, cdw, ck >>

wn_8_d(self) == /\ pc[self] = "wn_8_d"
                /\ pc' = [pc EXCEPT ![self] = "wn_8_ld"]
                /\ UNCHANGED << word, queue, cvword, cvq, waiting, rmc, cvmu, 
                                wl, wc, sc, nww, nwsem, nww2, nreg2, sem, data, 
                                now, note, nreg, held, ret, sres, picked, 
                                sleeps, inlock, ip, mw, pool, nalloc, nq, 
                                muFreed, refs, nwalive, taint3, stack, lt_l, 
                                clear, old_, zlo, zhi, wcnt, lw, lt_u, old_u, 
                                tc, nwl, wtrs, wake, wty, sor, cor, rmq_, late, 
                                lt_m, old_m, lt_mu, old_mu, lt_mu_, ww, 
                                old_mu_, sdl, scn, lt, rc, old_t, zl, c, dl_, 
                                cn_, old_mu_w, lt_, first, out_, rc_, hadw, 
                                ata, so_, havel, tw, allr, omw, fca, sorw, all, 
                                old_c, tws, alr, rmq, dl, cn, gen, old_cv, 
                                lt_c, rc_c, so, out, ndl, wcn, old, wq, still2, 
                                cvr, dw, k, cdw, ck >>

wn_10_ld(self) == /\ pc[self] = "wn_10_ld"
                  /\ IF nww[self] = 0
                        THEN /\ wq' = [wq EXCEPT ![self] = FALSE]
                             /\ pc' = [pc EXCEPT ![self] = "wn_12_st"]
                             /\ UNCHANGED << cvq, taint3 >>
                        ELSE /\ taint3' = (taint3 \/ ~InQ(cvq, -self))
                             /\ cvq' = Without(cvq, -self)
                             /\ wq' = [wq EXCEPT ![self] = TRUE]
                             /\ pc' = [pc EXCEPT ![self] = "wn_11_st"]
                  /\ UNCHANGED << word, queue, cvword, waiting, rmc, cvmu, wl, 
                                  wc, sc, nww, nwsem, nww2, nreg2, sem, data, 
                                  now, note, nreg, held, ret, sres, picked, 
                                  sleeps, inlock, ip, mw, pool, nalloc, nq, 
                                  muFreed, refs, nwalive, stack, lt_l, clear, 
                                  old_, zlo, zhi, wcnt, lw, lt_u, old_u, tc, 
                                  nwl, wtrs, wake, wty, sor, cor, rmq_, late, 
                                  lt_m, old_m, lt_mu, old_mu, lt_mu_, ww, 
                                  old_mu_, sdl, scn, lt, rc, old_t, zl, c, dl_, 
                                  cn_, old_mu_w, lt_, first, out_, rc_, hadw, 
                                  ata, so_, havel, tw, allr, omw, fca, sorw, 
                                  all, old_c, tws, alr, rmq, dl, cn, gen, 
                                  old_cv, lt_c, rc_c, so, out, ndl, wcn, old, 
                                  still2, cvr, dw, k, cdw, ck >>

wn_11_st(self) == /\ pc[self] = "wn_11_st"
                  /\ nww' = [nww EXCEPT ![self] = 0]
                  /\ pc' = [pc EXCEPT ![self] = "wn_12_st"]
                  /\ UNCHANGED << word, queue, cvword, cvq, waiting, rmc, cvmu, 
                                  wl, wc, sc, nwsem, nww2, nreg2, sem, data, 
                                  now, note, nreg, held, ret, sres, picked, 
                                  sleeps, inlock, ip, mw, pool, nalloc, nq, 
                                  muFreed, refs, nwalive, taint3, stack, lt_l, 
                                  clear, old_, zlo, zhi, wcnt, lw, lt_u, old_u, 
                                  tc, nwl, wtrs, wake, wty, sor, cor, rmq_, 
                                  late, lt_m, old_m, lt_mu, old_mu, lt_mu_, ww, 
                                  old_mu_, sdl, scn, lt, rc, old_t, zl, c, dl_, 
                                  cn_, old_mu_w, lt_, first, out_, rc_, hadw, 
                                  ata, so_, havel, tw, allr, omw, fca, sorw, 
                                  all, old_c, tws, alr, rmq, dl, cn, gen, 
                                  old_cv, lt_c, rc_c, so, out, ndl, wcn, old, 
                                  wq, still2, cvr, dw, k, cdw, ck >>

wn_12_st(self) == /\ pc[self] = "wn_12_st"
                  /\ cvword' = (IF cvq = <<>> THEN Clr(old[self], CVNE) ELSE old[self])
                  /\ pc' = [pc EXCEPT ![self] = "wn_12_l"]
                  /\ UNCHANGED << word, queue, cvq, waiting, rmc, cvmu, wl, wc, 
                                  sc, nww, nwsem, nww2, nreg2, sem, data, now, 
                                  note, nreg, held, ret, sres, picked, sleeps, 
                                  inlock, ip, mw, pool, nalloc, nq, muFreed, 
                                  refs, nwalive, taint3, stack, lt_l, clear, 
                                  old_, zlo, zhi, wcnt, lw, lt_u, old_u, tc, 
                                  nwl, wtrs, wake, wty, sor, cor, rmq_, late, 
                                  lt_m, old_m, lt_mu, old_mu, lt_mu_, ww, 
                                  old_mu_, sdl, scn, lt, rc, old_t, zl, c, dl_, 
                                  cn_, old_mu_w, lt_, first, out_, rc_, hadw, 
                                  ata, so_, havel, tw, allr, omw, fca, sorw, 
                                  all, old_c, tws, alr, rmq, dl, cn, gen, 
                                  old_cv, lt_c, rc_c, so, out, ndl, wcn, old, 
                                  wq, still2, cvr, dw, k, cdw, ck >>

wn_12_l(self) == /\ pc[self] = "wn_12_l"
                 /\ IF ~wcn[self]
                       THEN /\ pc' = [pc EXCEPT ![self] = "wn_12u_l"]
                       ELSE /\ pc' = [pc EXCEPT ![self] = "wn_12a_r"]
                 /\ UNCHANGED << word, queue, cvword, cvq, waiting, rmc, cvmu, 
                                 wl, wc, sc, nww, nwsem, nww2, nreg2, sem, 
                                 data, now, note, nreg, held, ret, sres, 
                                 picked, sleeps, inlock, ip, mw, pool, nalloc, 
                                 nq, muFreed, refs, nwalive, taint3, stack, 
                                 lt_l, clear, old_, zlo, zhi, wcnt, lw, lt_u, 
                                 old_u, tc, nwl, wtrs, wake, wty, sor, cor, 
                                 rmq_, late, lt_m, old_m, lt_mu, old_mu, 
                                 lt_mu_, ww, old_mu_, sdl, scn, lt, rc, old_t, 
                                 zl, c, dl_, cn_, old_mu_w, lt_, first, out_, 
                                 rc_, hadw, ata, so_, havel, tw, allr, omw, 
                                 fca, sorw, all, old_c, tws, alr, rmq, dl, cn, 
                                 gen, old_cv, lt_c, rc_c, so, out, ndl, wcn, 
                                 old, wq, still2, cvr, dw, k, cdw, ck >>

wn_12a_r(self) == /\ pc[self] = "wn_12a_r"
                  /\ still2' = [still2 EXCEPT ![self] = ~note]
                  /\ nreg2' = nreg2 \ {self}
                  /\ nww2' = [nww2 EXCEPT ![self] = 0]
                  /\ pc' = [pc EXCEPT ![self] = "wn_12u_l"]
                  /\ UNCHANGED << word, queue, cvword, cvq, waiting, rmc, cvmu, 
                                  wl, wc, sc, nww, nwsem, sem, data, now, note, 
                                  nreg, held, ret, sres, picked, sleeps, 
                                  inlock, ip, mw, pool, nalloc, nq, muFreed, 
                                  refs, nwalive, taint3, stack, lt_l, clear, 
                                  old_, zlo, zhi, wcnt, lw, lt_u, old_u, tc, 
                                  nwl, wtrs, wake, wty, sor, cor, rmq_, late, 
                                  lt_m, old_m, lt_mu, old_mu, lt_mu_, ww, 
                                  old_mu_, sdl, scn, lt, rc, old_t, zl, c, dl_, 
                                  cn_, old_mu_w, lt_, first, out_, rc_, hadw, 
                                  ata, so_, havel, tw, allr, omw, fca, sorw, 
                                  all, old_c, tws, alr, rmq, dl, cn, gen, 
                                  old_cv, lt_c, rc_c, so, out, ndl, wcn, old, 
                                  wq, cvr, dw, k, cdw, ck >>

wn_12u_l(self) == /\ pc[self] = "wn_12u_l"
                  /\ /\ lt_m' = [lt_m EXCEPT ![self] = 1]
                     /\ stack' = [stack EXCEPT ![self] = << [ procedure |->  "mu_lock",
                                                              pc        |->  "wn_13_l",
                                                              old_m     |->  old_m[self],
                                                              lt_m      |->  lt_m[self] ] >>
                                                          \o stack[self]]
                  /\ old_m' = [old_m EXCEPT ![self] = 0]
                  /\ pc' = [pc EXCEPT ![self] = "lk_1_cas"]
                  /\ UNCHANGED << word, queue, cvword, cvq, waiting, rmc, cvmu, 
                                  wl, wc, sc, nww, nwsem, nww2, nreg2, sem, 
                                  data, now, note, nreg, held, ret, sres, 
                                  picked, sleeps, inlock, ip, mw, pool, nalloc, 
                                  nq, muFreed, refs, nwalive, taint3, lt_l, 
                                  clear, old_, zlo, zhi, wcnt, lw, lt_u, old_u, 
                                  tc, nwl, wtrs, wake, wty, sor, cor, rmq_, 
                                  late, lt_mu, old_mu, lt_mu_, ww, old_mu_, 
                                  sdl, scn, lt, rc, old_t, zl, c, dl_, cn_, 
                                  old_mu_w, lt_, first, out_, rc_, hadw, ata, 
                                  so_, havel, tw, allr, omw, fca, sorw, all, 
                                  old_c, tws, alr, rmq, dl, cn, gen, old_cv, 
                                  lt_c, rc_c, so, out, ndl, wcn, old, wq, 
                                  still2, cvr, dw, k, cdw, ck >>

wn_13_l(self) == /\ pc[self] = "wn_13_l"
                 /\ ret' = [ret EXCEPT ![self] = IF ~wq[self] THEN 0 ELSE IF wcn[self] /\ ~still2[self] THEN 1 ELSE (IF wcn[self] THEN 2 ELSE 1)]
                 /\ nwalive' = [nwalive EXCEPT ![self] = FALSE]
                 /\ pc' = [pc EXCEPT ![self] = Head(stack[self]).pc]
                 /\ old' = [old EXCEPT ![self] = Head(stack[self]).old]
                 /\ wq' = [wq EXCEPT ![self] = Head(stack[self]).wq]
                 /\ still2' = [still2 EXCEPT ![self] = Head(stack[self]).still2]
                 /\ cvr' = [cvr EXCEPT ![self] = Head(stack[self]).cvr]
                 /\ ndl' = [ndl EXCEPT ![self] = Head(stack[self]).ndl]
                 /\ wcn' = [wcn EXCEPT ![self] = Head(stack[self]).wcn]
                 /\ stack' = [stack EXCEPT ![self] = Tail(stack[self])]
                 /\ UNCHANGED << word, queue, cvword, cvq, waiting, rmc, cvmu, 
                                 wl, wc, sc, nww, nwsem, nww2, nreg2, sem, 
                                 data, now, note, nreg, held, sres, picked, 
                                 sleeps, inlock, ip, mw, pool, nalloc, nq, 
                                 muFreed, refs, taint3, lt_l, clear, old_, zlo, 
                                 zhi, wcnt, lw, lt_u, old_u, tc, nwl, wtrs, 
                                 wake, wty, sor, cor, rmq_, late, lt_m, old_m, 
                                 lt_mu, old_mu, lt_mu_, ww, old_mu_, sdl, scn, 
                                 lt, rc, old_t, zl, c, dl_, cn_, old_mu_w, lt_, 
                                 first, out_, rc_, hadw, ata, so_, havel, tw, 
                                 allr, omw, fca, sorw, all, old_c, tws, alr, 
                                 rmq, dl, cn, gen, old_cv, lt_c, rc_c, so, out, 
                                 dw, k, cdw, ck >>

wait_n(self) == wn_0_l(self) \/ wn_0_r(self) \/ wn_1_st(self)
                   \/ wn_2_ld(self) \/ wn_3_cas(self) \/ wn_2_d(self)
                   \/ wn_4_st(self) \/ wn_5_st(self) \/ wn_5_l(self)
                   \/ wn_5a_st(self) \/ wn_5b_r(self) \/ wn_5u_l(self)
                   \/ wn_6_ld(self) \/ wn_6_l(self) \/ wn_6a_r(self)
                   \/ wn_7_pd(self) \/ wn_8_ld(self) \/ wn_9_cas(self)
                   \/ wn_8_d(self) \/ wn_10_ld(self) \/ wn_11_st(self)
                   \/ wn_12_st(self) \/ wn_12_l(self) \/ wn_12a_r(self)
                   \/ wn_12u_l(self) \/ wn_13_l(self)

db_1_ld(self) == /\ pc[self] = "db_1_ld"
                 /\ IF (word & WAITING) = 0
                       THEN /\ pc' = [pc EXCEPT ![self] = Head(stack[self]).pc]
                            /\ dw' = [dw EXCEPT ![self] = Head(stack[self]).dw]
                            /\ k' = [k EXCEPT ![self] = Head(stack[self]).k]
                            /\ stack' = [stack EXCEPT ![self] = Tail(stack[self])]
                       ELSE /\ pc' = [pc EXCEPT ![self] = "db_2_ld"]
                            /\ UNCHANGED << stack, dw, k >>
                 /\ UNCHANGED << word, queue, cvword, cvq, waiting, rmc, cvmu, 
                                 wl, wc, sc, nww, nwsem, nww2, nreg2, sem, 
                                 data, now, note, nreg, held, ret, sres, 
                                 picked, sleeps, inlock, ip, mw, pool, nalloc, 
                                 nq, muFreed, refs, nwalive, taint3, lt_l, 
                                 clear, old_, zlo, zhi, wcnt, lw, lt_u, old_u, 
                                 tc, nwl, wtrs, wake, wty, sor, cor, rmq_, 
                                 late, lt_m, old_m, lt_mu, old_mu, lt_mu_, ww, 
                                 old_mu_, sdl, scn, lt, rc, old_t, zl, c, dl_, 
                                 cn_, old_mu_w, lt_, first, out_, rc_, hadw, 
                                 ata, so_, havel, tw, allr, omw, fca, sorw, 
                                 all, old_c, tws, alr, rmq, dl, cn, gen, 
                                 old_cv, lt_c, rc_c, so, out, ndl, wcn, old, 
                                 wq, still2, cvr, cdw, ck >>

db_2_ld(self) == /\ pc[self] = "db_2_ld"
                 /\ dw' = [dw EXCEPT ![self] = word]
                 /\ IF (dw'[self] & SPIN) # 0
                       THEN /\ pc' = [pc EXCEPT ![self] = "db_d"]
                       ELSE /\ pc' = [pc EXCEPT ![self] = "db_3_cas"]
                 /\ UNCHANGED << word, queue, cvword, cvq, waiting, rmc, cvmu, 
                                 wl, wc, sc, nww, nwsem, nww2, nreg2, sem, 
                                 data, now, note, nreg, held, ret, sres, 
                                 picked, sleeps, inlock, ip, mw, pool, nalloc, 
                                 nq, muFreed, refs, nwalive, taint3, stack, 
                                 lt_l, clear, old_, zlo, zhi, wcnt, lw, lt_u, 
                                 old_u, tc, nwl, wtrs, wake, wty, sor, cor, 
                                 rmq_, late, lt_m, old_m, lt_mu, old_mu, 
                                 lt_mu_, ww, old_mu_, sdl, scn, lt, rc, old_t, 
                                 zl, c, dl_, cn_, old_mu_w, lt_, first, out_, 
                                 rc_, hadw, ata, so_, havel, tw, allr, omw, 
                                 fca, sorw, all, old_c, tws, alr, rmq, dl, cn, 
                                 gen, old_cv, lt_c, rc_c, so, out, ndl, wcn, 
                                 old, wq, still2, cvr, k, cdw, ck >>

db_3_cas(self) == /\ pc[self] = "db_3_cas"
                  /\ IF word = dw[self]
                        THEN /\ word' = dw[self] | SPIN
                             /\ k' = [k EXCEPT ![self] = Len(queue)]
                             /\ pc' = [pc EXCEPT ![self] = "db_w_l"]
                        ELSE /\ pc' = [pc EXCEPT ![self] = "db_d"]
                             /\ UNCHANGED << word, k >>
                  /\ UNCHANGED << queue, cvword, cvq, waiting, rmc, cvmu, wl, 
                                  wc, sc, nww, nwsem, nww2, nreg2, sem, data, 
                                  now, note, nreg, held, ret, sres, picked, 
                                  sleeps, inlock, ip, mw, pool, nalloc, nq, 
                                  muFreed, refs, nwalive, taint3, stack, lt_l, 
                                  clear, old_, zlo, zhi, wcnt, lw, lt_u, old_u, 
                                  tc, nwl, wtrs, wake, wty, sor, cor, rmq_, 
                                  late, lt_m, old_m, lt_mu, old_mu, lt_mu_, ww, 
                                  old_mu_, sdl, scn, lt, rc, old_t, zl, c, dl_, 
                                  cn_, old_mu_w, lt_, first, out_, rc_, hadw, 
                                  ata, so_, havel, tw, allr, omw, fca, sorw, 
                                  all, old_c, tws, alr, rmq, dl, cn, gen, 
                                  old_cv, lt_c, rc_c, so, out, ndl, wcn, old, 
                                  wq, still2, cvr, dw, cdw, ck >>

db_d(self) == /\ pc[self] = "db_d"
              /\ pc' = [pc EXCEPT ![self] = "db_2_ld"]
              /\ UNCHANGED << word, queue, cvword, cvq, waiting, rmc, cvmu, wl, 
                              wc, sc, nww, nwsem, nww2, nreg2, sem, data, now, 
                              note, nreg, held, ret, sres, picked, sleeps, 
                              inlock, ip, mw, pool, nalloc, nq, muFreed, refs, 
                              nwalive, taint3, stack, lt_l, clear, old_, zlo, 
                              zhi, wcnt, lw, lt_u, old_u, tc, nwl, wtrs, wake, 
                              wty, sor, cor, rmq_, late, lt_m, old_m, lt_mu, 
                              old_mu, lt_mu_, ww, old_mu_, sdl, scn, lt, rc, 
                              old_t, zl, c, dl_, cn_, old_mu_w, lt_, first, 
                              out_, rc_, hadw, ata, so_, havel, tw, allr, omw, 
                              fca, sorw, all, old_c, tws, alr, rmq, dl, cn, 
                              gen, old_cv, lt_c, rc_c, so, out, ndl, wcn, old, 
                              wq, still2, cvr, dw, k, cdw, ck >>

db_w_l(self) == /\ pc[self] = "db_w_l"
                /\ IF k[self] = 0
                      THEN /\ pc' = [pc EXCEPT ![self] = "db_rel_l"]
                      ELSE /\ pc' = [pc EXCEPT ![self] = "db_w1_ld"]
                /\ UNCHANGED << word, queue, cvword, cvq, waiting, rmc, cvmu, 
                                wl, wc, sc, nww, nwsem, nww2, nreg2, sem, data, 
                                now, note, nreg, held, ret, sres, picked, 
                                sleeps, inlock, ip, mw, pool, nalloc, nq, 
                                muFreed, refs, nwalive, taint3, stack, lt_l, 
                                clear, old_, zlo, zhi, wcnt, lw, lt_u, old_u, 
                                tc, nwl, wtrs, wake, wty, sor, cor, rmq_, late, 
                                lt_m, old_m, lt_mu, old_mu, lt_mu_, ww, 
                                old_mu_, sdl, scn, lt, rc, old_t, zl, c, dl_, 
                                cn_, old_mu_w, lt_, first, out_, rc_, hadw, 
                                ata, so_, havel, tw, allr, omw, fca, sorw, all, 
                                old_c, tws, alr, rmq, dl, cn, gen, old_cv, 
                                lt_c, rc_c, so, out, ndl, wcn, old, wq, still2, 
                                cvr, dw, k, cdw, ck >>

db_w1_ld(self) == /\ pc[self] = "db_w1_ld"
                  /\ TRUE
                  /\ pc' = [pc EXCEPT ![self] = "db_w2_ld"]
                  /\ UNCHANGED << word, queue, cvword, cvq, waiting, rmc, cvmu, 
                                  wl, wc, sc, nww, nwsem, nww2, nreg2, sem, 
                                  data, now, note, nreg, held, ret, sres, 
                                  picked, sleeps, inlock, ip, mw, pool, nalloc, 
                                  nq, muFreed, refs, nwalive, taint3, stack, 
                                  lt_l, clear, old_, zlo, zhi, wcnt, lw, lt_u, 
                                  old_u, tc, nwl, wtrs, wake, wty, sor, cor, 
                                  rmq_, late, lt_m, old_m, lt_mu, old_mu, 
                                  lt_mu_, ww, old_mu_, sdl, scn, lt, rc, old_t, 
                                  zl, c, dl_, cn_, old_mu_w, lt_, first, out_, 
                                  rc_, hadw, ata, so_, havel, tw, allr, omw, 
                                  fca, sorw, all, old_c, tws, alr, rmq, dl, cn, 
                                  gen, old_cv, lt_c, rc_c, so, out, ndl, wcn, 
                                  old, wq, still2, cvr, dw, k, cdw, ck >>

db_w2_ld(self) == /\ pc[self] = "db_w2_ld"
                  /\ k' = [k EXCEPT ![self] = k[self] - 1]
                  /\ pc' = [pc EXCEPT ![self] = "db_w_l"]
                  /\ UNCHANGED << word, queue, cvword, cvq, waiting, rmc, cvmu, 
                                  wl, wc, sc, nww, nwsem, nww2, nreg2, sem, 
                                  data, now, note, nreg, held, ret, sres, 
                                  picked, sleeps, inlock, ip, mw, pool, nalloc, 
                                  nq, muFreed, refs, nwalive, taint3, stack, 
                                  lt_l, clear, old_, zlo, zhi, wcnt, lw, lt_u, 
                                  old_u, tc, nwl, wtrs, wake, wty, sor, cor, 
                                  rmq_, late, lt_m, old_m, lt_mu, old_mu, 
                                  lt_mu_, ww, old_mu_, sdl, scn, lt, rc, old_t, 
                                  zl, c, dl_, cn_, old_mu_w, lt_, first, out_, 
                                  rc_, hadw, ata, so_, havel, tw, allr, omw, 
                                  fca, sorw, all, old_c, tws, alr, rmq, dl, cn, 
                                  gen, old_cv, lt_c, rc_c, so, out, ndl, wcn, 
                                  old, wq, still2, cvr, dw, cdw, ck >>

db_rel_l(self) == /\ pc[self] = "db_rel_l"
                  /\ IF DbgFixed
                        THEN /\ pc' = [pc EXCEPT ![self] = "db_5_ld"]
                        ELSE /\ pc' = [pc EXCEPT ![self] = "db_4_st"]
                  /\ UNCHANGED << word, queue, cvword, cvq, waiting, rmc, cvmu, 
                                  wl, wc, sc, nww, nwsem, nww2, nreg2, sem, 
                                  data, now, note, nreg, held, ret, sres, 
                                  picked, sleeps, inlock, ip, mw, pool, nalloc, 
                                  nq, muFreed, refs, nwalive, taint3, stack, 
                                  lt_l, clear, old_, zlo, zhi, wcnt, lw, lt_u, 
                                  old_u, tc, nwl, wtrs, wake, wty, sor, cor, 
                                  rmq_, late, lt_m, old_m, lt_mu, old_mu, 
                                  lt_mu_, ww, old_mu_, sdl, scn, lt, rc, old_t, 
                                  zl, c, dl_, cn_, old_mu_w, lt_, first, out_, 
                                  rc_, hadw, ata, so_, havel, tw, allr, omw, 
                                  fca, sorw, all, old_c, tws, alr, rmq, dl, cn, 
                                  gen, old_cv, lt_c, rc_c, so, out, ndl, wcn, 
                                  old, wq, still2, cvr, dw, k, cdw, ck >>

db_4_st(self) == /\ pc[self] = "db_4_st"
                 /\ word' = dw[self]
                 /\ pc' = [pc EXCEPT ![self] = Head(stack[self]).pc]
                 /\ dw' = [dw EXCEPT ![self] = Head(stack[self]).dw]
                 /\ k' = [k EXCEPT ![self] = Head(stack[self]).k]
                 /\ stack' = [stack EXCEPT ![self] = Tail(stack[self])]
                 /\ UNCHANGED << queue, cvword, cvq, waiting, rmc, cvmu, wl, 
                                 wc, sc, nww, nwsem, nww2, nreg2, sem, data, 
                                 now, note, nreg, held, ret, sres, picked, 
                                 sleeps, inlock, ip, mw, pool, nalloc, nq, 
                                 muFreed, refs, nwalive, taint3, lt_l, clear, 
                                 old_, zlo, zhi, wcnt, lw, lt_u, old_u, tc, 
                                 nwl, wtrs, wake, wty, sor, cor, rmq_, late, 
                                 lt_m, old_m, lt_mu, old_mu, lt_mu_, ww, 
                                 old_mu_, sdl, scn, lt, rc, old_t, zl, c, dl_, 
                                 cn_, old_mu_w, lt_, first, out_, rc_, hadw, 
                                 ata, so_, havel, tw, allr, omw, fca, sorw, 
                                 all, old_c, tws, alr, rmq, dl, cn, gen, 
                                 old_cv, lt_c, rc_c, so, out, ndl, wcn, old, 
                                 wq, still2, cvr, cdw, ck >>

db_5_ld(self) == /\ pc[self] = "db_5_ld"
                 /\ dw' = [dw EXCEPT ![self] = word]
                 /\ pc' = [pc EXCEPT ![self] = "db_6_cas"]
                 /\ UNCHANGED << word, queue, cvword, cvq, waiting, rmc, cvmu, 
                                 wl, wc, sc, nww, nwsem, nww2, nreg2, sem, 
                                 data, now, note, nreg, held, ret, sres, 
                                 picked, sleeps, inlock, ip, mw, pool, nalloc, 
                                 nq, muFreed, refs, nwalive, taint3, stack, 
                                 lt_l, clear, old_, zlo, zhi, wcnt, lw, lt_u, 
                                 old_u, tc, nwl, wtrs, wake, wty, sor, cor, 
                                 rmq_, late, lt_m, old_m, lt_mu, old_mu, 
                                 lt_mu_, ww, old_mu_, sdl, scn, lt, rc, old_t, 
                                 zl, c, dl_, cn_, old_mu_w, lt_, first, out_, 
                                 rc_, hadw, ata, so_, havel, tw, allr, omw, 
                                 fca, sorw, all, old_c, tws, alr, rmq, dl, cn, 
                                 gen, old_cv, lt_c, rc_c, so, out, ndl, wcn, 
                                 old, wq, still2, cvr, k, cdw, ck >>

db_6_cas(self) == /\ pc[self] = "db_6_cas"
                  /\ IF word = dw[self]
                        THEN /\ word' = Clr(dw[self], SPIN)
                             /\ pc' = [pc EXCEPT ![self] = Head(stack[self]).pc]
                             /\ dw' = [dw EXCEPT ![self] = Head(stack[self]).dw]
                             /\ k' = [k EXCEPT ![self] = Head(stack[self]).k]
                             /\ stack' = [stack EXCEPT ![self] = Tail(stack[self])]
                        ELSE /\ pc' = [pc EXCEPT ![self] = "db_5_ld"]
                             /\ UNCHANGED << word, stack, dw, k >>
                  /\ UNCHANGED << queue, cvword, cvq, waiting, rmc, cvmu, wl, 
                                  wc, sc, nww, nwsem, nww2, nreg2, sem, data, 
                                  now, note, nreg, held, ret, sres, picked, 
                                  sleeps, inlock, ip, mw, pool, nalloc, nq, 
                                  muFreed, refs, nwalive, taint3, lt_l, clear, 
                                  old_, zlo, zhi, wcnt, lw, lt_u, old_u, tc, 
                                  nwl, wtrs, wake, wty, sor, cor, rmq_, late, 
                                  lt_m, old_m, lt_mu, old_mu, lt_mu_, ww, 
                                  old_mu_, sdl, scn, lt, rc, old_t, zl, c, dl_, 
                                  cn_, old_mu_w, lt_, first, out_, rc_, hadw, 
                                  ata, so_, havel, tw, allr, omw, fca, sorw, 
                                  all, old_c, tws, alr, rmq, dl, cn, gen, 
                                  old_cv, lt_c, rc_c, so, out, ndl, wcn, old, 
                                  wq, still2, cvr, cdw, ck >>

debug_state(self) == db_1_ld(self) \/ db_2_ld(self) \/ db_3_cas(self)
                        \/ db_d(self) \/ db_w_l(self) \/ db_w1_ld(self)
                        \/ db_w2_ld(self) \/ db_rel_l(self)
                        \/ db_4_st(self) \/ db_5_ld(self) \/ db_6_cas(self)

dc_1_ld(self) == /\ pc[self] = "dc_1_ld"
                 /\ IF (cvword & CVNE) = 0
                       THEN /\ pc' = [pc EXCEPT ![self] = Head(stack[self]).pc]
                            /\ cdw' = [cdw EXCEPT ![self] = Head(stack[self]).cdw]
                            /\ ck' = [ck EXCEPT ![self] = Head(stack[self]).ck]
                            /\ stack' = [stack EXCEPT ![self] = Tail(stack[self])]
                       ELSE /\ pc' = [pc EXCEPT ![self] = "dc_2_ld"]
                            /\ UNCHANGED << stack, cdw, ck >>
                 /\ UNCHANGED << word, queue, cvword, cvq, waiting, rmc, cvmu, 
                                 wl, wc, sc, nww, nwsem, nww2, nreg2, sem, 
                                 data, now, note, nreg, held, ret, sres, 
                                 picked, sleeps, inlock, ip, mw, pool, nalloc, 
                                 nq, muFreed, refs, nwalive, taint3, lt_l, 
                                 clear, old_, zlo, zhi, wcnt, lw, lt_u, old_u, 
                                 tc, nwl, wtrs, wake, wty, sor, cor, rmq_, 
                                 late, lt_m, old_m, lt_mu, old_mu, lt_mu_, ww, 
                                 old_mu_, sdl, scn, lt, rc, old_t, zl, c, dl_, 
                                 cn_, old_mu_w, lt_, first, out_, rc_, hadw, 
                                 ata, so_, havel, tw, allr, omw, fca, sorw, 
                                 all, old_c, tws, alr, rmq, dl, cn, gen, 
                                 old_cv, lt_c, rc_c, so, out, ndl, wcn, old, 
                                 wq, still2, cvr, dw, k >>

dc_2_ld(self) == /\ pc[self] = "dc_2_ld"
                 /\ cdw' = [cdw EXCEPT ![self] = cvword]
                 /\ IF (cdw'[self] & CVSPIN) # 0
                       THEN /\ pc' = [pc EXCEPT ![self] = "dc_d"]
                       ELSE /\ pc' = [pc EXCEPT ![self] = "dc_3_cas"]
                 /\ UNCHANGED << word, queue, cvword, cvq, waiting, rmc, cvmu, 
                                 wl, wc, sc, nww, nwsem, nww2, nreg2, sem, 
                                 data, now, note, nreg, held, ret, sres, 
                                 picked, sleeps, inlock, ip, mw, pool, nalloc, 
                                 nq, muFreed, refs, nwalive, taint3, stack, 
                                 lt_l, clear, old_, zlo, zhi, wcnt, lw, lt_u, 
                                 old_u, tc, nwl, wtrs, wake, wty, sor, cor, 
                                 rmq_, late, lt_m, old_m, lt_mu, old_mu, 
                                 lt_mu_, ww, old_mu_, sdl, scn, lt, rc, old_t, 
                                 zl, c, dl_, cn_, old_mu_w, lt_, first, out_, 
                                 rc_, hadw, ata, so_, havel, tw, allr, omw, 
                                 fca, sorw, all, old_c, tws, alr, rmq, dl, cn, 
                                 gen, old_cv, lt_c, rc_c, so, out, ndl, wcn, 
                                 old, wq, still2, cvr, dw, k, ck >>

dc_3_cas(self) == /\ pc[self] = "dc_3_cas"
                  /\ IF cvword = cdw[self]
                        THEN /\ cvword' = cdw[self] | CVSPIN
                             /\ ck' = [ck EXCEPT ![self] = Len(cvq)]
                             /\ pc' = [pc EXCEPT ![self] = "dc_w_l"]
                        ELSE /\ pc' = [pc EXCEPT ![self] = "dc_d"]
                             /\ UNCHANGED << cvword, ck >>
                  /\ UNCHANGED << word, queue, cvq, waiting, rmc, cvmu, wl, wc, 
                                  sc, nww, nwsem, nww2, nreg2, sem, data, now, 
                                  note, nreg, held, ret, sres, picked, sleeps, 
                                  inlock, ip, mw, pool, nalloc, nq, muFreed, 
                                  refs, nwalive, taint3, stack, lt_l, clear, 
                                  old_, zlo, zhi, wcnt, lw, lt_u, old_u, tc, 
                                  nwl, wtrs, wake, wty, sor, cor, rmq_, late, 
                                  lt_m, old_m, lt_mu, old_mu, lt_mu_, ww, 
                                  old_mu_, sdl, scn, lt, rc, old_t, zl, c, dl_, 
                                  cn_, old_mu_w, lt_, first, out_, rc_, hadw, 
                                  ata, so_, havel, tw, allr, omw, fca, sorw, 
                                  all, old_c, tws, alr, rmq, dl, cn, gen, 
                                  old_cv, lt_c, rc_c, so, out, ndl, wcn, old, 
                                  wq, still2, cvr, dw, k, cdw >>

dc_d(self) == /\ pc[self] = "dc_d"
              /\ pc' = [pc EXCEPT ![self] = "dc_2_ld"]
              /\ UNCHANGED << word, queue, cvword, cvq, waiting, rmc, cvmu, wl, 
                              wc, sc, nww, nwsem, nww2, nreg2, sem, data, now, 
                              note, nreg, held, ret, sres, picked, sleeps, 
                              inlock, ip, mw, pool, nalloc, nq, muFreed, refs, 
                              nwalive, taint3, stack, lt_l, clear, old_, zlo, 
                              zhi, wcnt, lw, lt_u, old_u, tc, nwl, wtrs, wake, 
                              wty, sor, cor, rmq_, late, lt_m, old_m, lt_mu, 
                              old_mu, lt_mu_, ww, old_mu_, sdl, scn, lt, rc, 
                              old_t, zl, c, dl_, cn_, old_mu_w, lt_, first, 
                              out_, rc_, hadw, ata, so_, havel, tw, allr, omw, 
                              fca, sorw, all, old_c, tws, alr, rmq, dl, cn, 
                              gen, old_cv, lt_c, rc_c, so, out, ndl, wcn, old, 
                              wq, still2, cvr, dw, k, cdw, ck >>

dc_w_l(self) == /\ pc[self] = "dc_w_l"
                /\ IF ck[self] = 0
                      THEN /\ pc' = [pc EXCEPT ![self] = "dc_4_st"]
                      ELSE /\ pc' = [pc EXCEPT ![self] = "dc_w1_ld"]
                /\ UNCHANGED << word, queue, cvword, cvq, waiting, rmc, cvmu, 
                                wl, wc, sc, nww, nwsem, nww2, nreg2, sem, data, 
                                now, note, nreg, held, ret, sres, picked, 
                                sleeps, inlock, ip, mw, pool, nalloc, nq, 
                                muFreed, refs, nwalive, taint3, stack, lt_l, 
                                clear, old_, zlo, zhi, wcnt, lw, lt_u, old_u, 
                                tc, nwl, wtrs, wake, wty, sor, cor, rmq_, late, 
                                lt_m, old_m, lt_mu, old_mu, lt_mu_, ww, 
                                old_mu_, sdl, scn, lt, rc, old_t, zl, c, dl_, 
                                cn_, old_mu_w, lt_, first, out_, rc_, hadw, 
                                ata, so_, havel, tw, allr, omw, fca, sorw, all, 
                                old_c, tws, alr, rmq, dl, cn, gen, old_cv, 
                                lt_c, rc_c, so, out, ndl, wcn, old, wq, still2, 
                                cvr, dw, k, cdw, ck >>

dc_w1_ld(self) == /\ pc[self] = "dc_w1_ld"
                  /\ TRUE
                  /\ pc' = [pc EXCEPT ![self] = "dc_w2_ld"]
                  /\ UNCHANGED << word, queue, cvword, cvq, waiting, rmc, cvmu, 
                                  wl, wc, sc, nww, nwsem, nww2, nreg2, sem, 
                                  data, now, note, nreg, held, ret, sres, 
                                  picked, sleeps, inlock, ip, mw, pool, nalloc, 
                                  nq, muFreed, refs, nwalive, taint3, stack, 
                                  lt_l, clear, old_, zlo, zhi, wcnt, lw, lt_u, 
                                  old_u, tc, nwl, wtrs, wake, wty, sor, cor, 
                                  rmq_, late, lt_m, old_m, lt_mu, old_mu, 
                                  lt_mu_, ww, old_mu_, sdl, scn, lt, rc, old_t, 
                                  zl, c, dl_, cn_, old_mu_w, lt_, first, out_, 
                                  rc_, hadw, ata, so_, havel, tw, allr, omw, 
                                  fca, sorw, all, old_c, tws, alr, rmq, dl, cn, 
                                  gen, old_cv, lt_c, rc_c, so, out, ndl, wcn, 
                                  old, wq, still2, cvr, dw, k, cdw, ck >>

dc_w2_ld(self) == /\ pc[self] = "dc_w2_ld"
                  /\ ck' = [ck EXCEPT ![self] = ck[self] - 1]
                  /\ pc' = [pc EXCEPT ![self] = "dc_w_l"]
                  /\ UNCHANGED << word, queue, cvword, cvq, waiting, rmc, cvmu, 
                                  wl, wc, sc, nww, nwsem, nww2, nreg2, sem, 
                                  data, now, note, nreg, held, ret, sres, 
                                  picked, sleeps, inlock, ip, mw, pool, nalloc, 
                                  nq, muFreed, refs, nwalive, taint3, stack, 
                                  lt_l, clear, old_, zlo, zhi, wcnt, lw, lt_u, 
                                  old_u, tc, nwl, wtrs, wake, wty, sor, cor, 
                                  rmq_, late, lt_m, old_m, lt_mu, old_mu, 
                                  lt_mu_, ww, old_mu_, sdl, scn, lt, rc, old_t, 
                                  zl, c, dl_, cn_, old_mu_w, lt_, first, out_, 
                                  rc_, hadw, ata, so_, havel, tw, allr, omw, 
                                  fca, sorw, all, old_c, tws, alr, rmq, dl, cn, 
                                  gen, old_cv, lt_c, rc_c, so, out, ndl, wcn, 
                                  old, wq, still2, cvr, dw, k, cdw >>

dc_4_st(self) == /\ pc[self] = "dc_4_st"
                 /\ cvword' = cdw[self]
                 /\ pc' = [pc EXCEPT ![self] = Head(stack[self]).pc]
                 /\ cdw' = [cdw EXCEPT ![self] = Head(stack[self]).cdw]
                 /\ ck' = [ck EXCEPT ![self] = Head(stack[self]).ck]
                 /\ stack' = [stack EXCEPT ![self] = Tail(stack[self])]
                 /\ UNCHANGED << word, queue, cvq, waiting, rmc, cvmu, wl, wc, 
                                 sc, nww, nwsem, nww2, nreg2, sem, data, now, 
                                 note, nreg, held, ret, sres, picked, sleeps, 
                                 inlock, ip, mw, pool, nalloc, nq, muFreed, 
                                 refs, nwalive, taint3, lt_l, clear, old_, zlo, 
                                 zhi, wcnt, lw, lt_u, old_u, tc, nwl, wtrs, 
                                 wake, wty, sor, cor, rmq_, late, lt_m, old_m, 
                                 lt_mu, old_mu, lt_mu_, ww, old_mu_, sdl, scn, 
                                 lt, rc, old_t, zl, c, dl_, cn_, old_mu_w, lt_, 
                                 first, out_, rc_, hadw, ata, so_, havel, tw, 
                                 allr, omw, fca, sorw, all, old_c, tws, alr, 
                                 rmq, dl, cn, gen, old_cv, lt_c, rc_c, so, out, 
                                 ndl, wcn, old, wq, still2, cvr, dw, k >>

debug_cv(self) == dc_1_ld(self) \/ dc_2_ld(self) \/ dc_3_cas(self)
                     \/ dc_d(self) \/ dc_w_l(self) \/ dc_w1_ld(self)
                     \/ dc_w2_ld(self) \/ dc_4_st(self)

c0(self) == /\ pc[self] = "c0"
            /\ IF ip[self] > Len(Prog[self]) /\ self \notin Loopers
                  THEN /\ IF mw[self] # 0
                             THEN /\ pool' = <<mw[self]>> \o pool
                                  /\ mw' = [mw EXCEPT ![self] = 0]
                             ELSE /\ TRUE
                                  /\ UNCHANGED << mw, pool >>
                       /\ pc' = [pc EXCEPT ![self] = "Done"]
                       /\ UNCHANGED << nww2, nreg2, sem, data, note, nreg, 
                                       held, ret, picked, sleeps, inlock, ip, 
                                       nalloc, muFreed, refs, stack, lt_m, 
                                       old_m, lt_mu, old_mu, lt_mu_, ww, 
                                       old_mu_, c, dl_, cn_, old_mu_w, lt_, 
                                       first, out_, rc_, hadw, ata, so_, havel, 
                                       all, old_c, tws, alr, rmq, dl, cn, gen, 
                                       old_cv, lt_c, rc_c, so, out, ndl, wcn, 
                                       old, wq, still2, cvr, dw, k, cdw, ck >>
                  ELSE /\ IF ip[self] > Len(Prog[self])
                             THEN /\ ip' = [ip EXCEPT ![self] = 1]
                                  /\ pc' = [pc EXCEPT ![self] = "c0"]
                                  /\ UNCHANGED << nww2, nreg2, sem, data, note, 
                                                  nreg, held, ret, picked, 
                                                  sleeps, inlock, mw, pool, 
                                                  nalloc, muFreed, refs, stack, 
                                                  lt_m, old_m, lt_mu, old_mu, 
                                                  lt_mu_, ww, old_mu_, c, dl_, 
                                                  cn_, old_mu_w, lt_, first, 
                                                  out_, rc_, hadw, ata, so_, 
                                                  havel, all, old_c, tws, alr, 
                                                  rmq, dl, cn, gen, old_cv, 
                                                  lt_c, rc_c, so, out, ndl, 
                                                  wcn, old, wq, still2, cvr, 
                                                  dw, k, cdw, ck >>
                             ELSE /\ IF CurOp(self).op = "lock"
                                        THEN /\ ip' = [ip EXCEPT ![self] = ip[self] + 1]
                                             /\ sleeps' = [sleeps EXCEPT ![self] = 0]
                                             /\ inlock' = [inlock EXCEPT ![self] = TRUE]
                                             /\ /\ lt_m' = [lt_m EXCEPT ![self] = CurOp(self).lt]
                                                /\ stack' = [stack EXCEPT ![self] = << [ procedure |->  "mu_lock",
                                                                                         pc        |->  "c0",
                                                                                         old_m     |->  old_m[self],
                                                                                         lt_m      |->  lt_m[self] ] >>
                                                                                     \o stack[self]]
                                             /\ old_m' = [old_m EXCEPT ![self] = 0]
                                             /\ pc' = [pc EXCEPT ![self] = "lk_1_cas"]
                                             /\ UNCHANGED << nww2, nreg2, sem, 
                                                             data, note, nreg, 
                                                             held, ret, picked, 
                                                             mw, pool, nalloc, 
                                                             muFreed, refs, 
                                                             lt_mu, old_mu, 
                                                             lt_mu_, ww, 
                                                             old_mu_, c, dl_, 
                                                             cn_, old_mu_w, 
                                                             lt_, first, out_, 
                                                             rc_, hadw, ata, 
                                                             so_, havel, all, 
                                                             old_c, tws, alr, 
                                                             rmq, dl, cn, gen, 
                                                             old_cv, lt_c, 
                                                             rc_c, so, out, 
                                                             ndl, wcn, old, wq, 
                                                             still2, cvr, dw, 
                                                             k, cdw, ck >>
                                        ELSE /\ IF CurOp(self).op = "trylock"
                                                   THEN /\ ip' = [ip EXCEPT ![self] = ip[self] + 1]
                                                        /\ picked' = [picked EXCEPT ![self] = FALSE]
                                                        /\ /\ lt_mu' = [lt_mu EXCEPT ![self] = CurOp(self).lt]
                                                           /\ stack' = [stack EXCEPT ![self] = << [ procedure |->  "mu_trylock",
                                                                                                    pc        |->  "c0",
                                                                                                    old_mu    |->  old_mu[self],
                                                                                                    lt_mu     |->  lt_mu[self] ] >>
                                                                                                \o stack[self]]
                                                        /\ old_mu' = [old_mu EXCEPT ![self] = 0]
                                                        /\ pc' = [pc EXCEPT ![self] = "tl_1_cas"]
                                                        /\ UNCHANGED << nww2, 
                                                                        nreg2, 
                                                                        sem, 
                                                                        data, 
                                                                        note, 
                                                                        nreg, 
                                                                        held, 
                                                                        ret, 
                                                                        mw, 
                                                                        pool, 
                                                                        nalloc, 
                                                                        muFreed, 
                                                                        refs, 
                                                                        lt_mu_, 
                                                                        ww, 
                                                                        old_mu_, 
                                                                        c, dl_, 
                                                                        cn_, 
                                                                        old_mu_w, 
                                                                        lt_, 
                                                                        first, 
                                                                        out_, 
                                                                        rc_, 
                                                                        hadw, 
                                                                        ata, 
                                                                        so_, 
                                                                        havel, 
                                                                        all, 
                                                                        old_c, 
                                                                        tws, 
                                                                        alr, 
                                                                        rmq, 
                                                                        dl, cn, 
                                                                        gen, 
                                                                        old_cv, 
                                                                        lt_c, 
                                                                        rc_c, 
                                                                        so, 
                                                                        out, 
                                                                        ndl, 
                                                                        wcn, 
                                                                        old, 
                                                                        wq, 
                                                                        still2, 
                                                                        cvr, 
                                                                        dw, k, 
                                                                        cdw, 
                                                                        ck >>
                                                   ELSE /\ IF CurOp(self).op = "unlock"
                                                              THEN /\ ip' = [ip EXCEPT ![self] = ip[self] + 1]
                                                                   /\ held' = [held EXCEPT ![self] = 0]
                                                                   /\ /\ lt_mu_' = [lt_mu_ EXCEPT ![self] = CurOp(self).lt]
                                                                      /\ stack' = [stack EXCEPT ![self] = << [ procedure |->  "mu_unlock",
                                                                                                               pc        |->  "c0",
                                                                                                               old_mu_   |->  old_mu_[self],
                                                                                                               lt_mu_    |->  lt_mu_[self],
                                                                                                               ww        |->  ww[self] ] >>
                                                                                                           \o stack[self]]
                                                                      /\ ww' = [ww EXCEPT ![self] = FALSE]
                                                                   /\ old_mu_' = [old_mu_ EXCEPT ![self] = 0]
                                                                   /\ pc' = [pc EXCEPT ![self] = "ul_1_cas"]
                                                                   /\ UNCHANGED << nww2, 
                                                                                   nreg2, 
                                                                                   sem, 
                                                                                   data, 
                                                                                   note, 
                                                                                   nreg, 
                                                                                   ret, 
                                                                                   picked, 
                                                                                   mw, 
                                                                                   pool, 
                                                                                   nalloc, 
                                                                                   muFreed, 
                                                                                   refs, 
                                                                                   c, 
                                                                                   dl_, 
                                                                                   cn_, 
                                                                                   old_mu_w, 
                                                                                   lt_, 
                                                                                   first, 
                                                                                   out_, 
                                                                                   rc_, 
                                                                                   hadw, 
                                                                                   ata, 
                                                                                   so_, 
                                                                                   havel, 
                                                                                   all, 
                                                                                   old_c, 
                                                                                   tws, 
                                                                                   alr, 
                                                                                   rmq, 
                                                                                   dl, 
                                                                                   cn, 
                                                                                   gen, 
                                                                                   old_cv, 
                                                                                   lt_c, 
                                                                                   rc_c, 
                                                                                   so, 
                                                                                   out, 
                                                                                   ndl, 
                                                                                   wcn, 
                                                                                   old, 
                                                                                   wq, 
                                                                                   still2, 
                                                                                   cvr, 
                                                                                   dw, 
                                                                                   k, 
                                                                                   cdw, 
                                                                                   ck >>
                                                              ELSE /\ IF CurOp(self).op = "unlockww"
                                                                         THEN /\ ip' = [ip EXCEPT ![self] = ip[self] + 1]
                                                                              /\ held' = [held EXCEPT ![self] = 0]
                                                                              /\ /\ lt_mu_' = [lt_mu_ EXCEPT ![self] = 1]
                                                                                 /\ stack' = [stack EXCEPT ![self] = << [ procedure |->  "mu_unlock",
                                                                                                                          pc        |->  "c0",
                                                                                                                          old_mu_   |->  old_mu_[self],
                                                                                                                          lt_mu_    |->  lt_mu_[self],
                                                                                                                          ww        |->  ww[self] ] >>
                                                                                                                      \o stack[self]]
                                                                                 /\ ww' = [ww EXCEPT ![self] = TRUE]
                                                                              /\ old_mu_' = [old_mu_ EXCEPT ![self] = 0]
                                                                              /\ pc' = [pc EXCEPT ![self] = "ul_1_cas"]
                                                                              /\ UNCHANGED << nww2, 
                                                                                              nreg2, 
                                                                                              sem, 
                                                                                              data, 
                                                                                              note, 
                                                                                              nreg, 
                                                                                              ret, 
                                                                                              picked, 
                                                                                              mw, 
                                                                                              pool, 
                                                                                              nalloc, 
                                                                                              muFreed, 
                                                                                              refs, 
                                                                                              c, 
                                                                                              dl_, 
                                                                                              cn_, 
                                                                                              old_mu_w, 
                                                                                              lt_, 
                                                                                              first, 
                                                                                              out_, 
                                                                                              rc_, 
                                                                                              hadw, 
                                                                                              ata, 
                                                                                              so_, 
                                                                                              havel, 
                                                                                              all, 
                                                                                              old_c, 
                                                                                              tws, 
                                                                                              alr, 
                                                                                              rmq, 
                                                                                              dl, 
                                                                                              cn, 
                                                                                              gen, 
                                                                                              old_cv, 
                                                                                              lt_c, 
                                                                                              rc_c, 
                                                                                              so, 
                                                                                              out, 
                                                                                              ndl, 
                                                                                              wcn, 
                                                                                              old, 
                                                                                              wq, 
                                                                                              still2, 
                                                                                              cvr, 
                                                                                              dw, 
                                                                                              k, 
                                                                                              cdw, 
                                                                                              ck >>
                                                                         ELSE /\ IF CurOp(self).op = "get"
                                                                                    THEN /\ ip' = [ip EXCEPT ![self] = ip[self] + 1]
                                                                                         /\ pc' = [pc EXCEPT ![self] = "c0"]
                                                                                         /\ UNCHANGED << nww2, 
                                                                                                         nreg2, 
                                                                                                         sem, 
                                                                                                         data, 
                                                                                                         note, 
                                                                                                         nreg, 
                                                                                                         ret, 
                                                                                                         picked, 
                                                                                                         mw, 
                                                                                                         pool, 
                                                                                                         nalloc, 
                                                                                                         muFreed, 
                                                                                                         refs, 
                                                                                                         stack, 
                                                                                                         c, 
                                                                                                         dl_, 
                                                                                                         cn_, 
                                                                                                         old_mu_w, 
                                                                                                         lt_, 
                                                                                                         first, 
                                                                                                         out_, 
                                                                                                         rc_, 
                                                                                                         hadw, 
                                                                                                         ata, 
                                                                                                         so_, 
                                                                                                         havel, 
                                                                                                         all, 
                                                                                                         old_c, 
                                                                                                         tws, 
                                                                                                         alr, 
                                                                                                         rmq, 
                                                                                                         dl, 
                                                                                                         cn, 
                                                                                                         gen, 
                                                                                                         old_cv, 
                                                                                                         lt_c, 
                                                                                                         rc_c, 
                                                                                                         so, 
                                                                                                         out, 
                                                                                                         ndl, 
                                                                                                         wcn, 
                                                                                                         old, 
                                                                                                         wq, 
                                                                                                         still2, 
                                                                                                         cvr, 
                                                                                                         dw, 
                                                                                                         k, 
                                                                                                         cdw, 
                                                                                                         ck >>
                                                                                    ELSE /\ IF CurOp(self).op = "gate"
                                                                                               THEN /\ GateOK(CurOp(self).x)
                                                                                                    /\ ip' = [ip EXCEPT ![self] = ip[self] + 1]
                                                                                                    /\ pc' = [pc EXCEPT ![self] = "c0"]
                                                                                                    /\ UNCHANGED << nww2, 
                                                                                                                    nreg2, 
                                                                                                                    sem, 
                                                                                                                    data, 
                                                                                                                    note, 
                                                                                                                    nreg, 
                                                                                                                    ret, 
                                                                                                                    picked, 
                                                                                                                    mw, 
                                                                                                                    pool, 
                                                                                                                    nalloc, 
                                                                                                                    muFreed, 
                                                                                                                    refs, 
                                                                                                                    stack, 
                                                                                                                    c, 
                                                                                                                    dl_, 
                                                                                                                    cn_, 
                                                                                                                    old_mu_w, 
                                                                                                                    lt_, 
                                                                                                                    first, 
                                                                                                                    out_, 
                                                                                                                    rc_, 
                                                                                                                    hadw, 
                                                                                                                    ata, 
                                                                                                                    so_, 
                                                                                                                    havel, 
                                                                                                                    all, 
                                                                                                                    old_c, 
                                                                                                                    tws, 
                                                                                                                    alr, 
                                                                                                                    rmq, 
                                                                                                                    dl, 
                                                                                                                    cn, 
                                                                                                                    gen, 
                                                                                                                    old_cv, 
                                                                                                                    lt_c, 
                                                                                                                    rc_c, 
                                                                                                                    so, 
                                                                                                                    out, 
                                                                                                                    ndl, 
                                                                                                                    wcn, 
                                                                                                                    old, 
                                                                                                                    wq, 
                                                                                                                    still2, 
                                                                                                                    cvr, 
                                                                                                                    dw, 
                                                                                                                    k, 
                                                                                                                    cdw, 
                                                                                                                    ck >>
                                                                                               ELSE /\ IF CurOp(self).op = "set"
                                                                                                          THEN /\ ip' = [ip EXCEPT ![self] = ip[self] + 1]
                                                                                                               /\ data' = [data EXCEPT ![CurOp(self).v] = CurOp(self).x]
                                                                                                               /\ pc' = [pc EXCEPT ![self] = "c0"]
                                                                                                               /\ UNCHANGED << nww2, 
                                                                                                                               nreg2, 
                                                                                                                               sem, 
                                                                                                                               note, 
                                                                                                                               nreg, 
                                                                                                                               ret, 
                                                                                                                               picked, 
                                                                                                                               mw, 
                                                                                                                               pool, 
                                                                                                                               nalloc, 
                                                                                                                               muFreed, 
                                                                                                                               refs, 
                                                                                                                               stack, 
                                                                                                                               c, 
                                                                                                                               dl_, 
                                                                                                                               cn_, 
                                                                                                                               old_mu_w, 
                                                                                                                               lt_, 
                                                                                                                               first, 
                                                                                                                               out_, 
                                                                                                                               rc_, 
                                                                                                                               hadw, 
                                                                                                                               ata, 
                                                                                                                               so_, 
                                                                                                                               havel, 
                                                                                                                               all, 
                                                                                                                               old_c, 
                                                                                                                               tws, 
                                                                                                                               alr, 
                                                                                                                               rmq, 
                                                                                                                               dl, 
                                                                                                                               cn, 
                                                                                                                               gen, 
                                                                                                                               old_cv, 
                                                                                                                               lt_c, 
                                                                                                                               rc_c, 
                                                                                                                               so, 
                                                                                                                               out, 
                                                                                                                               ndl, 
                                                                                                                               wcn, 
                                                                                                                               old, 
                                                                                                                               wq, 
                                                                                                                               still2, 
                                                                                                                               cvr, 
                                                                                                                               dw, 
                                                                                                                               k, 
                                                                                                                               cdw, 
                                                                                                                               ck >>
                                                                                                          ELSE /\ IF CurOp(self).op = "skipunless"
                                                                                                                     THEN /\ ip' = [ip EXCEPT ![self] = IF ret[self] # 1 THEN ip[self] + 1 + CurOp(self).skip ELSE ip[self] + 1]
                                                                                                                          /\ pc' = [pc EXCEPT ![self] = "c0"]
                                                                                                                          /\ UNCHANGED << nww2, 
                                                                                                                                          nreg2, 
                                                                                                                                          sem, 
                                                                                                                                          note, 
                                                                                                                                          nreg, 
                                                                                                                                          ret, 
                                                                                                                                          picked, 
                                                                                                                                          mw, 
                                                                                                                                          pool, 
                                                                                                                                          nalloc, 
                                                                                                                                          muFreed, 
                                                                                                                                          refs, 
                                                                                                                                          stack, 
                                                                                                                                          c, 
                                                                                                                                          dl_, 
                                                                                                                                          cn_, 
                                                                                                                                          old_mu_w, 
                                                                                                                                          lt_, 
                                                                                                                                          first, 
                                                                                                                                          out_, 
                                                                                                                                          rc_, 
                                                                                                                                          hadw, 
                                                                                                                                          ata, 
                                                                                                                                          so_, 
                                                                                                                                          havel, 
                                                                                                                                          all, 
                                                                                                                                          old_c, 
                                                                                                                                          tws, 
                                                                                                                                          alr, 
                                                                                                                                          rmq, 
                                                                                                                                          dl, 
                                                                                                                                          cn, 
                                                                                                                                          gen, 
                                                                                                                                          old_cv, 
                                                                                                                                          lt_c, 
                                                                                                                                          rc_c, 
                                                                                                                                          so, 
                                                                                                                                          out, 
                                                                                                                                          ndl, 
                                                                                                                                          wcn, 
                                                                                                                                          old, 
                                                                                                                                          wq, 
                                                                                                                                          still2, 
                                                                                                                                          cvr, 
                                                                                                                                          dw, 
                                                                                                                                          k, 
                                                                                                                                          cdw, 
                                                                                                                                          ck >>
                                                                                                                     ELSE /\ IF CurOp(self).op = "muwait"
                                                                                                                                THEN /\ ip' = [ip EXCEPT ![self] = ip[self] + 1]
                                                                                                                                     /\ picked' = [picked EXCEPT ![self] = FALSE]
                                                                                                                                     /\ /\ c' = [c EXCEPT ![self] = CurOp(self).c]
                                                                                                                                        /\ cn_' = [cn_ EXCEPT ![self] = CurOp(self).cn]
                                                                                                                                        /\ dl_' = [dl_ EXCEPT ![self] = CurOp(self).dl]
                                                                                                                                        /\ stack' = [stack EXCEPT ![self] = << [ procedure |->  "mu_wait",
                                                                                                                                                                                 pc        |->  "c0",
                                                                                                                                                                                 old_mu_w  |->  old_mu_w[self],
                                                                                                                                                                                 lt_       |->  lt_[self],
                                                                                                                                                                                 first     |->  first[self],
                                                                                                                                                                                 out_      |->  out_[self],
                                                                                                                                                                                 rc_       |->  rc_[self],
                                                                                                                                                                                 hadw      |->  hadw[self],
                                                                                                                                                                                 ata       |->  ata[self],
                                                                                                                                                                                 so_       |->  so_[self],
                                                                                                                                                                                 havel     |->  havel[self],
                                                                                                                                                                                 c         |->  c[self],
                                                                                                                                                                                 dl_       |->  dl_[self],
                                                                                                                                                                                 cn_       |->  cn_[self] ] >>
                                                                                                                                                                             \o stack[self]]
                                                                                                                                     /\ old_mu_w' = [old_mu_w EXCEPT ![self] = 0]
                                                                                                                                     /\ lt_' = [lt_ EXCEPT ![self] = 0]
                                                                                                                                     /\ first' = [first EXCEPT ![self] = TRUE]
                                                                                                                                     /\ out_' = [out_ EXCEPT ![self] = 0]
                                                                                                                                     /\ rc_' = [rc_ EXCEPT ![self] = 0]
                                                                                                                                     /\ hadw' = [hadw EXCEPT ![self] = FALSE]
                                                                                                                                     /\ ata' = [ata EXCEPT ![self] = 0]
                                                                                                                                     /\ so_' = [so_ EXCEPT ![self] = 0]
                                                                                                                                     /\ havel' = [havel EXCEPT ![self] = FALSE]
                                                                                                                                     /\ pc' = [pc EXCEPT ![self] = "mw_1_ld"]
                                                                                                                                     /\ UNCHANGED << nww2, 
                                                                                                                                                     nreg2, 
                                                                                                                                                     sem, 
                                                                                                                                                     note, 
                                                                                                                                                     nreg, 
                                                                                                                                                     ret, 
                                                                                                                                                     mw, 
                                                                                                                                                     pool, 
                                                                                                                                                     nalloc, 
                                                                                                                                                     muFreed, 
                                                                                                                                                     refs, 
                                                                                                                                                     all, 
                                                                                                                                                     old_c, 
                                                                                                                                                     tws, 
                                                                                                                                                     alr, 
                                                                                                                                                     rmq, 
                                                                                                                                                     dl, 
                                                                                                                                                     cn, 
                                                                                                                                                     gen, 
                                                                                                                                                     old_cv, 
                                                                                                                                                     lt_c, 
                                                                                                                                                     rc_c, 
                                                                                                                                                     so, 
                                                                                                                                                     out, 
                                                                                                                                                     ndl, 
                                                                                                                                                     wcn, 
                                                                                                                                                     old, 
                                                                                                                                                     wq, 
                                                                                                                                                     still2, 
                                                                                                                                                     cvr, 
                                                                                                                                                     dw, 
                                                                                                                                                     k, 
                                                                                                                                                     cdw, 
                                                                                                                                                     ck >>
                                                                                                                                ELSE /\ IF CurOp(self).op = "cvwait"
                                                                                                                                           THEN /\ ip' = [ip EXCEPT ![self] = ip[self] + 1]
                                                                                                                                                /\ IF mw[self] = 0
                                                                                                                                                      THEN /\ IF pool # <<>>
                                                                                                                                                                 THEN /\ mw' = [mw EXCEPT ![self] = Head(pool)]
                                                                                                                                                                      /\ pool' = Tail(pool)
                                                                                                                                                                      /\ UNCHANGED nalloc
                                                                                                                                                                 ELSE /\ mw' = [mw EXCEPT ![self] = nalloc + 1]
                                                                                                                                                                      /\ nalloc' = nalloc + 1
                                                                                                                                                                      /\ pool' = pool
                                                                                                                                                      ELSE /\ TRUE
                                                                                                                                                           /\ UNCHANGED << mw, 
                                                                                                                                                                           pool, 
                                                                                                                                                                           nalloc >>
                                                                                                                                                /\ /\ cn' = [cn EXCEPT ![self] = CurOp(self).cn]
                                                                                                                                                   /\ dl' = [dl EXCEPT ![self] = CurOp(self).dl]
                                                                                                                                                   /\ gen' = [gen EXCEPT ![self] = CurOp(self).x = 9]
                                                                                                                                                   /\ stack' = [stack EXCEPT ![self] = << [ procedure |->  "cv_wait",
                                                                                                                                                                                            pc        |->  "c0",
                                                                                                                                                                                            old_cv    |->  old_cv[self],
                                                                                                                                                                                            lt_c      |->  lt_c[self],
                                                                                                                                                                                            rc_c      |->  rc_c[self],
                                                                                                                                                                                            so        |->  so[self],
                                                                                                                                                                                            out       |->  out[self],
                                                                                                                                                                                            dl        |->  dl[self],
                                                                                                                                                                                            cn        |->  cn[self],
                                                                                                                                                                                            gen       |->  gen[self] ] >>
                                                                                                                                                                                        \o stack[self]]
                                                                                                                                                /\ old_cv' = [old_cv EXCEPT ![self] = 0]
                                                                                                                                                /\ lt_c' = [lt_c EXCEPT ![self] = 0]
                                                                                                                                                /\ rc_c' = [rc_c EXCEPT ![self] = 0]
                                                                                                                                                /\ so' = [so EXCEPT ![self] = 0]
                                                                                                                                                /\ out' = [out EXCEPT ![self] = 0]
                                                                                                                                                /\ pc' = [pc EXCEPT ![self] = "cw_1_st"]
                                                                                                                                                /\ UNCHANGED << nww2, 
                                                                                                                                                                nreg2, 
                                                                                                                                                                sem, 
                                                                                                                                                                note, 
                                                                                                                                                                nreg, 
                                                                                                                                                                ret, 
                                                                                                                                                                picked, 
                                                                                                                                                                muFreed, 
                                                                                                                                                                refs, 
                                                                                                                                                                all, 
                                                                                                                                                                old_c, 
                                                                                                                                                                tws, 
                                                                                                                                                                alr, 
                                                                                                                                                                rmq, 
                                                                                                                                                                ndl, 
                                                                                                                                                                wcn, 
                                                                                                                                                                old, 
                                                                                                                                                                wq, 
                                                                                                                                                                still2, 
                                                                                                                                                                cvr, 
                                                                                                                                                                dw, 
                                                                                                                                                                k, 
                                                                                                                                                                cdw, 
                                                                                                                                                                ck >>
                                                                                                                                           ELSE /\ IF CurOp(self).op = "cvloop"
                                                                                                                                                      THEN /\ IF data[CurOp(self).v] = 0 /\ ret[self] \notin {ETIMEDOUT, ECANCELED}
                                                                                                                                                                 THEN /\ IF mw[self] = 0
                                                                                                                                                                            THEN /\ IF pool # <<>>
                                                                                                                                                                                       THEN /\ mw' = [mw EXCEPT ![self] = Head(pool)]
                                                                                                                                                                                            /\ pool' = Tail(pool)
                                                                                                                                                                                            /\ UNCHANGED nalloc
                                                                                                                                                                                       ELSE /\ mw' = [mw EXCEPT ![self] = nalloc + 1]
                                                                                                                                                                                            /\ nalloc' = nalloc + 1
                                                                                                                                                                                            /\ pool' = pool
                                                                                                                                                                            ELSE /\ TRUE
                                                                                                                                                                                 /\ UNCHANGED << mw, 
                                                                                                                                                                                                 pool, 
                                                                                                                                                                                                 nalloc >>
                                                                                                                                                                      /\ /\ cn' = [cn EXCEPT ![self] = CurOp(self).cn]
                                                                                                                                                                         /\ dl' = [dl EXCEPT ![self] = CurOp(self).dl]
                                                                                                                                                                         /\ gen' = [gen EXCEPT ![self] = CurOp(self).x = 9]
                                                                                                                                                                         /\ stack' = [stack EXCEPT ![self] = << [ procedure |->  "cv_wait",
                                                                                                                                                                                                                  pc        |->  "c0",
                                                                                                                                                                                                                  old_cv    |->  old_cv[self],
                                                                                                                                                                                                                  lt_c      |->  lt_c[self],
                                                                                                                                                                                                                  rc_c      |->  rc_c[self],
                                                                                                                                                                                                                  so        |->  so[self],
                                                                                                                                                                                                                  out       |->  out[self],
                                                                                                                                                                                                                  dl        |->  dl[self],
                                                                                                                                                                                                                  cn        |->  cn[self],
                                                                                                                                                                                                                  gen       |->  gen[self] ] >>
                                                                                                                                                                                                              \o stack[self]]
                                                                                                                                                                      /\ old_cv' = [old_cv EXCEPT ![self] = 0]
                                                                                                                                                                      /\ lt_c' = [lt_c EXCEPT ![self] = 0]
                                                                                                                                                                      /\ rc_c' = [rc_c EXCEPT ![self] = 0]
                                                                                                                                                                      /\ so' = [so EXCEPT ![self] = 0]
                                                                                                                                                                      /\ out' = [out EXCEPT ![self] = 0]
                                                                                                                                                                      /\ pc' = [pc EXCEPT ![self] = "cw_1_st"]
                                                                                                                                                                      /\ UNCHANGED << ret, 
                                                                                                                                                                                      ip >>
                                                                                                                                                                 ELSE /\ ip' = [ip EXCEPT ![self] = ip[self] + 1]
                                                                                                                                                                      /\ ret' = [ret EXCEPT ![self] = -1]
                                                                                                                                                                      /\ pc' = [pc EXCEPT ![self] = "c0"]
                                                                                                                                                                      /\ UNCHANGED << mw, 
                                                                                                                                                                                      pool, 
                                                                                                                                                                                      nalloc, 
                                                                                                                                                                                      stack, 
                                                                                                                                                                                      dl, 
                                                                                                                                                                                      cn, 
                                                                                                                                                                                      gen, 
                                                                                                                                                                                      old_cv, 
                                                                                                                                                                                      lt_c, 
                                                                                                                                                                                      rc_c, 
                                                                                                                                                                                      so, 
                                                                                                                                                                                      out >>
                                                                                                                                                           /\ UNCHANGED << nww2, 
                                                                                                                                                                           nreg2, 
                                                                                                                                                                           sem, 
                                                                                                                                                                           note, 
                                                                                                                                                                           nreg, 
                                                                                                                                                                           picked, 
                                                                                                                                                                           muFreed, 
                                                                                                                                                                           refs, 
                                                                                                                                                                           all, 
                                                                                                                                                                           old_c, 
                                                                                                                                                                           tws, 
                                                                                                                                                                           alr, 
                                                                                                                                                                           rmq, 
                                                                                                                                                                           ndl, 
                                                                                                                                                                           wcn, 
                                                                                                                                                                           old, 
                                                                                                                                                                           wq, 
                                                                                                                                                                           still2, 
                                                                                                                                                                           cvr, 
                                                                                                                                                                           dw, 
                                                                                                                                                                           k, 
                                                                                                                                                                           cdw, 
                                                                                                                                                                           ck >>
                                                                                                                                                      ELSE /\ IF CurOp(self).op = "waitn"
                                                                                                                                                                 THEN /\ ip' = [ip EXCEPT ![self] = ip[self] + 1]
                                                                                                                                                                      /\ picked' = [picked EXCEPT ![self] = FALSE]
                                                                                                                                                                      /\ /\ ndl' = [ndl EXCEPT ![self] = CurOp(self).dl]
                                                                                                                                                                         /\ stack' = [stack EXCEPT ![self] = << [ procedure |->  "wait_n",
                                                                                                                                                                                                                  pc        |->  "c0",
                                                                                                                                                                                                                  old       |->  old[self],
                                                                                                                                                                                                                  wq        |->  wq[self],
                                                                                                                                                                                                                  still2    |->  still2[self],
                                                                                                                                                                                                                  cvr       |->  cvr[self],
                                                                                                                                                                                                                  ndl       |->  ndl[self],
                                                                                                                                                                                                                  wcn       |->  wcn[self] ] >>
                                                                                                                                                                                                              \o stack[self]]
                                                                                                                                                                         /\ wcn' = [wcn EXCEPT ![self] = CurOp(self).cn]
                                                                                                                                                                      /\ old' = [old EXCEPT ![self] = 0]
                                                                                                                                                                      /\ wq' = [wq EXCEPT ![self] = FALSE]
                                                                                                                                                                      /\ still2' = [still2 EXCEPT ![self] = TRUE]
                                                                                                                                                                      /\ cvr' = [cvr EXCEPT ![self] = FALSE]
                                                                                                                                                                      /\ pc' = [pc EXCEPT ![self] = "wn_0_l"]
                                                                                                                                                                      /\ UNCHANGED << nww2, 
                                                                                                                                                                                      nreg2, 
                                                                                                                                                                                      sem, 
                                                                                                                                                                                      note, 
                                                                                                                                                                                      nreg, 
                                                                                                                                                                                      ret, 
                                                                                                                                                                                      muFreed, 
                                                                                                                                                                                      refs, 
                                                                                                                                                                                      all, 
                                                                                                                                                                                      old_c, 
                                                                                                                                                                                      tws, 
                                                                                                                                                                                      alr, 
                                                                                                                                                                                      rmq, 
                                                                                                                                                                                      dw, 
                                                                                                                                                                                      k, 
                                                                                                                                                                                      cdw, 
                                                                                                                                                                                      ck >>
                                                                                                                                                                 ELSE /\ IF CurOp(self).op = "waitnloop"
                                                                                                                                                                            THEN /\ IF data[CurOp(self).v] = 0 /\ ret[self] # 1
                                                                                                                                                                                       THEN /\ picked' = [picked EXCEPT ![self] = FALSE]
                                                                                                                                                                                            /\ /\ ndl' = [ndl EXCEPT ![self] = CurOp(self).dl]
                                                                                                                                                                                               /\ stack' = [stack EXCEPT ![self] = << [ procedure |->  "wait_n",
                                                                                                                                                                                                                                        pc        |->  "c0",
                                                                                                                                                                                                                                        old       |->  old[self],
                                                                                                                                                                                                                                        wq        |->  wq[self],
                                                                                                                                                                                                                                        still2    |->  still2[self],
                                                                                                                                                                                                                                        cvr       |->  cvr[self],
                                                                                                                                                                                                                                        ndl       |->  ndl[self],
                                                                                                                                                                                                                                        wcn       |->  wcn[self] ] >>
                                                                                                                                                                                                                                    \o stack[self]]
                                                                                                                                                                                               /\ wcn' = [wcn EXCEPT ![self] = FALSE]
                                                                                                                                                                                            /\ old' = [old EXCEPT ![self] = 0]
                                                                                                                                                                                            /\ wq' = [wq EXCEPT ![self] = FALSE]
                                                                                                                                                                                            /\ still2' = [still2 EXCEPT ![self] = TRUE]
                                                                                                                                                                                            /\ cvr' = [cvr EXCEPT ![self] = FALSE]
                                                                                                                                                                                            /\ pc' = [pc EXCEPT ![self] = "wn_0_l"]
                                                                                                                                                                                            /\ UNCHANGED << ret, 
                                                                                                                                                                                                            ip >>
                                                                                                                                                                                       ELSE /\ ip' = [ip EXCEPT ![self] = ip[self] + 1]
                                                                                                                                                                                            /\ ret' = [ret EXCEPT ![self] = -1]
                                                                                                                                                                                            /\ pc' = [pc EXCEPT ![self] = "c0"]
                                                                                                                                                                                            /\ UNCHANGED << picked, 
                                                                                                                                                                                                            stack, 
                                                                                                                                                                                                            ndl, 
                                                                                                                                                                                                            wcn, 
                                                                                                                                                                                                            old, 
                                                                                                                                                                                                            wq, 
                                                                                                                                                                                                            still2, 
                                                                                                                                                                                                            cvr >>
                                                                                                                                                                                 /\ UNCHANGED << nww2, 
                                                                                                                                                                                                 nreg2, 
                                                                                                                                                                                                 sem, 
                                                                                                                                                                                                 note, 
                                                                                                                                                                                                 nreg, 
                                                                                                                                                                                                 muFreed, 
                                                                                                                                                                                                 refs, 
                                                                                                                                                                                                 all, 
                                                                                                                                                                                                 old_c, 
                                                                                                                                                                                                 tws, 
                                                                                                                                                                                                 alr, 
                                                                                                                                                                                                 rmq, 
                                                                                                                                                                                                 dw, 
                                                                                                                                                                                                 k, 
                                                                                                                                                                                                 cdw, 
                                                                                                                                                                                                 ck >>
                                                                                                                                                                            ELSE /\ IF CurOp(self).op = "signal"
                                                                                                                                                                                       THEN /\ ip' = [ip EXCEPT ![self] = ip[self] + 1]
                                                                                                                                                                                            /\ /\ all' = [all EXCEPT ![self] = FALSE]
                                                                                                                                                                                               /\ stack' = [stack EXCEPT ![self] = << [ procedure |->  "cv_wake",
                                                                                                                                                                                                                                        pc        |->  "c0",
                                                                                                                                                                                                                                        old_c     |->  old_c[self],
                                                                                                                                                                                                                                        tws       |->  tws[self],
                                                                                                                                                                                                                                        alr       |->  alr[self],
                                                                                                                                                                                                                                        rmq       |->  rmq[self],
                                                                                                                                                                                                                                        all       |->  all[self] ] >>
                                                                                                                                                                                                                                    \o stack[self]]
                                                                                                                                                                                            /\ old_c' = [old_c EXCEPT ![self] = 0]
                                                                                                                                                                                            /\ tws' = [tws EXCEPT ![self] = <<>>]
                                                                                                                                                                                            /\ alr' = [alr EXCEPT ![self] = FALSE]
                                                                                                                                                                                            /\ rmq' = [rmq EXCEPT ![self] = <<>>]
                                                                                                                                                                                            /\ pc' = [pc EXCEPT ![self] = "cs_1_ld"]
                                                                                                                                                                                            /\ UNCHANGED << nww2, 
                                                                                                                                                                                                            nreg2, 
                                                                                                                                                                                                            sem, 
                                                                                                                                                                                                            note, 
                                                                                                                                                                                                            nreg, 
                                                                                                                                                                                                            ret, 
                                                                                                                                                                                                            picked, 
                                                                                                                                                                                                            muFreed, 
                                                                                                                                                                                                            refs, 
                                                                                                                                                                                                            dw, 
                                                                                                                                                                                                            k, 
                                                                                                                                                                                                            cdw, 
                                                                                                                                                                                                            ck >>
                                                                                                                                                                                       ELSE /\ IF CurOp(self).op = "broadcast"
                                                                                                                                                                                                  THEN /\ ip' = [ip EXCEPT ![self] = ip[self] + 1]
                                                                                                                                                                                                       /\ /\ all' = [all EXCEPT ![self] = TRUE]
                                                                                                                                                                                                          /\ stack' = [stack EXCEPT ![self] = << [ procedure |->  "cv_wake",
                                                                                                                                                                                                                                                   pc        |->  "c0",
                                                                                                                                                                                                                                                   old_c     |->  old_c[self],
                                                                                                                                                                                                                                                   tws       |->  tws[self],
                                                                                                                                                                                                                                                   alr       |->  alr[self],
                                                                                                                                                                                                                                                   rmq       |->  rmq[self],
                                                                                                                                                                                                                                                   all       |->  all[self] ] >>
                                                                                                                                                                                                                                               \o stack[self]]
                                                                                                                                                                                                       /\ old_c' = [old_c EXCEPT ![self] = 0]
                                                                                                                                                                                                       /\ tws' = [tws EXCEPT ![self] = <<>>]
                                                                                                                                                                                                       /\ alr' = [alr EXCEPT ![self] = FALSE]
                                                                                                                                                                                                       /\ rmq' = [rmq EXCEPT ![self] = <<>>]
                                                                                                                                                                                                       /\ pc' = [pc EXCEPT ![self] = "cs_1_ld"]
                                                                                                                                                                                                       /\ UNCHANGED << nww2, 
                                                                                                                                                                                                                       nreg2, 
                                                                                                                                                                                                                       sem, 
                                                                                                                                                                                                                       note, 
                                                                                                                                                                                                                       nreg, 
                                                                                                                                                                                                                       ret, 
                                                                                                                                                                                                                       picked, 
                                                                                                                                                                                                                       muFreed, 
                                                                                                                                                                                                                       refs, 
                                                                                                                                                                                                                       dw, 
                                                                                                                                                                                                                       k, 
                                                                                                                                                                                                                       cdw, 
                                                                                                                                                                                                                       ck >>
                                                                                                                                                                                                  ELSE /\ IF CurOp(self).op = "debug"
                                                                                                                                                                                                             THEN /\ ip' = [ip EXCEPT ![self] = ip[self] + 1]
                                                                                                                                                                                                                  /\ stack' = [stack EXCEPT ![self] = << [ procedure |->  "debug_state",
                                                                                                                                                                                                                                                           pc        |->  "c0",
                                                                                                                                                                                                                                                           dw        |->  dw[self],
                                                                                                                                                                                                                                                           k         |->  k[self] ] >>
                                                                                                                                                                                                                                                       \o stack[self]]
                                                                                                                                                                                                                  /\ dw' = [dw EXCEPT ![self] = 0]
                                                                                                                                                                                                                  /\ k' = [k EXCEPT ![self] = 0]
                                                                                                                                                                                                                  /\ pc' = [pc EXCEPT ![self] = "db_1_ld"]
                                                                                                                                                                                                                  /\ UNCHANGED << nww2, 
                                                                                                                                                                                                                                  nreg2, 
                                                                                                                                                                                                                                  sem, 
                                                                                                                                                                                                                                  note, 
                                                                                                                                                                                                                                  nreg, 
                                                                                                                                                                                                                                  ret, 
                                                                                                                                                                                                                                  picked, 
                                                                                                                                                                                                                                  muFreed, 
                                                                                                                                                                                                                                  refs, 
                                                                                                                                                                                                                                  cdw, 
                                                                                                                                                                                                                                  ck >>
                                                                                                                                                                                                             ELSE /\ IF CurOp(self).op = "debugcv"
                                                                                                                                                                                                                        THEN /\ ip' = [ip EXCEPT ![self] = ip[self] + 1]
                                                                                                                                                                                                                             /\ stack' = [stack EXCEPT ![self] = << [ procedure |->  "debug_cv",
                                                                                                                                                                                                                                                                      pc        |->  "c0",
                                                                                                                                                                                                                                                                      cdw       |->  cdw[self],
                                                                                                                                                                                                                                                                      ck        |->  ck[self] ] >>
                                                                                                                                                                                                                                                                  \o stack[self]]
                                                                                                                                                                                                                             /\ cdw' = [cdw EXCEPT ![self] = 0]
                                                                                                                                                                                                                             /\ ck' = [ck EXCEPT ![self] = 0]
                                                                                                                                                                                                                             /\ pc' = [pc EXCEPT ![self] = "dc_1_ld"]
                                                                                                                                                                                                                             /\ UNCHANGED << nww2, 
                                                                                                                                                                                                                                             nreg2, 
                                                                                                                                                                                                                                             sem, 
                                                                                                                                                                                                                                             note, 
                                                                                                                                                                                                                                             nreg, 
                                                                                                                                                                                                                                             ret, 
                                                                                                                                                                                                                                             picked, 
                                                                                                                                                                                                                                             muFreed, 
                                                                                                                                                                                                                                             refs >>
                                                                                                                                                                                                                        ELSE /\ IF CurOp(self).op = "notify"
                                                                                                                                                                                                                                   THEN /\ ip' = [ip EXCEPT ![self] = ip[self] + 1]
                                                                                                                                                                                                                                        /\ note' = TRUE
                                                                                                                                                                                                                                        /\ sem' = [u \in Waiters |-> IF u \in nreg \/ (\E t \in nreg2 : mw[t] = u) THEN SetV(sem[u]) ELSE sem[u]]
                                                                                                                                                                                                                                        /\ nreg' = {}
                                                                                                                                                                                                                                        /\ nww2' = [t \in Threads |-> IF t \in nreg2 THEN 0 ELSE nww2[t]]
                                                                                                                                                                                                                                        /\ nreg2' = {}
                                                                                                                                                                                                                                        /\ UNCHANGED << ret, 
                                                                                                                                                                                                                                                        picked, 
                                                                                                                                                                                                                                                        muFreed, 
                                                                                                                                                                                                                                                        refs >>
                                                                                                                                                                                                                                   ELSE /\ IF CurOp(self).op = "decref"
                                                                                                                                                                                                                                              THEN /\ ip' = [ip EXCEPT ![self] = ip[self] + 1]
                                                                                                                                                                                                                                                   /\ picked' = [picked EXCEPT ![self] = FALSE]
                                                                                                                                                                                                                                                   /\ ret' = [ret EXCEPT ![self] = IF refs = 1 THEN 1 ELSE 0]
                                                                                                                                                                                                                                                   /\ refs' = refs - 1
                                                                                                                                                                                                                                                   /\ UNCHANGED muFreed
                                                                                                                                                                                                                                              ELSE /\ IF CurOp(self).op = "freeiflast"
                                                                                                                                                                                                                                                         THEN /\ ip' = [ip EXCEPT ![self] = ip[self] + 1]
                                                                                                                                                                                                                                                              /\ IF ret[self] = 1
                                                                                                                                                                                                                                                                    THEN /\ muFreed' = TRUE
                                                                                                                                                                                                                                                                    ELSE /\ TRUE
                                                                                                                                                                                                                                                                         /\ UNCHANGED muFreed
                                                                                                                                                                                                                                                         ELSE /\ ip' = [ip EXCEPT ![self] = ip[self] + 1]
                                                                                                                                                                                                                                                              /\ UNCHANGED muFreed
                                                                                                                                                                                                                                                   /\ UNCHANGED << ret, 
                                                                                                                                                                                                                                                                   picked, 
                                                                                                                                                                                                                                                                   refs >>
                                                                                                                                                                                                                                        /\ UNCHANGED << nww2, 
                                                                                                                                                                                                                                                        nreg2, 
                                                                                                                                                                                                                                                        sem, 
                                                                                                                                                                                                                                                        note, 
                                                                                                                                                                                                                                                        nreg >>
                                                                                                                                                                                                                             /\ pc' = [pc EXCEPT ![self] = "c0"]
                                                                                                                                                                                                                             /\ UNCHANGED << stack, 
                                                                                                                                                                                                                                             cdw, 
                                                                                                                                                                                                                                             ck >>
                                                                                                                                                                                                                  /\ UNCHANGED << dw, 
                                                                                                                                                                                                                                  k >>
                                                                                                                                                                                                       /\ UNCHANGED << all, 
                                                                                                                                                                                                                       old_c, 
                                                                                                                                                                                                                       tws, 
                                                                                                                                                                                                                       alr, 
                                                                                                                                                                                                                       rmq >>
                                                                                                                                                                                 /\ UNCHANGED << ndl, 
                                                                                                                                                                                                 wcn, 
                                                                                                                                                                                                 old, 
                                                                                                                                                                                                 wq, 
                                                                                                                                                                                                 still2, 
                                                                                                                                                                                                 cvr >>
                                                                                                                                                           /\ UNCHANGED << mw, 
                                                                                                                                                                           pool, 
                                                                                                                                                                           nalloc, 
                                                                                                                                                                           dl, 
                                                                                                                                                                           cn, 
                                                                                                                                                                           gen, 
                                                                                                                                                                           old_cv, 
                                                                                                                                                                           lt_c, 
                                                                                                                                                                           rc_c, 
                                                                                                                                                                           so, 
                                                                                                                                                                           out >>
                                                                                                                                     /\ UNCHANGED << c, 
                                                                                                                                                     dl_, 
                                                                                                                                                     cn_, 
                                                                                                                                                     old_mu_w, 
                                                                                                                                                     lt_, 
                                                                                                                                                     first, 
                                                                                                                                                     out_, 
                                                                                                                                                     rc_, 
                                                                                                                                                     hadw, 
                                                                                                                                                     ata, 
                                                                                                                                                     so_, 
                                                                                                                                                     havel >>
                                                                                                               /\ data' = data
                                                                              /\ UNCHANGED << held, 
                                                                                              lt_mu_, 
                                                                                              ww, 
                                                                                              old_mu_ >>
                                                        /\ UNCHANGED << lt_mu, 
                                                                        old_mu >>
                                             /\ UNCHANGED << sleeps, inlock, 
                                                             lt_m, old_m >>
            /\ UNCHANGED << word, queue, cvword, cvq, waiting, rmc, cvmu, wl, 
                            wc, sc, nww, nwsem, now, sres, nq, nwalive, taint3, 
                            lt_l, clear, old_, zlo, zhi, wcnt, lw, lt_u, old_u, 
                            tc, nwl, wtrs, wake, wty, sor, cor, rmq_, late, 
                            sdl, scn, lt, rc, old_t, zl, tw, allr, omw, fca, 
                            sorw >>

thr(self) == c0(self)

(* Allow infinite stuttering to prevent deadlock on termination. *)
Terminating == /\ \A self \in ProcSet: pc[self] = "Done"
               /\ UNCHANGED vars

Next == (\E self \in ProcSet:  \/ lock_slow(self) \/ unlock_slow(self)
                               \/ mu_lock(self) \/ mu_trylock(self)
                               \/ mu_unlock(self) \/ sem_wait(self)
                               \/ try_acquire(self) \/ mu_wait(self)
                               \/ wake_waiters(self) \/ cv_wake(self)
                               \/ cv_wait(self) \/ wait_n(self)
                               \/ debug_state(self) \/ debug_cv(self))
           \/ (\E self \in Threads: thr(self))
           \/ Terminating

Spec == Init /\ [][Next]_vars

Termination == <>(\A self \in ProcSet: pc[self] = "Done")

\* END TRANSLATION

\* ====================================================================================
LocalLabels == {"cs_3b_l", "cs_rmq_l", "cw_17_l", "cw_18_l", "cw_8b_l", "db_rel_l", "db_w_l", "dc_w_l", "mw_11_l", "mw_11b_l", "mw_13_l", "mw_14_l", "mw_9b_l", "us_after_l", "us_merge_l", "us_pass_l", "us_rel_l", "us_rmq_l", "us_scan_l", "wn_0_l", "wn_12_l", "wn_12u_l", "wn_13_l", "wn_5_l", "wn_5u_l", "wn_6_l", "ww_0_l", "ww_4b_l"}
Step(self) == \/ lock_slow(self) \/ unlock_slow(self) \/ mu_lock(self) \/ mu_trylock(self) \/ mu_unlock(self)
              \/ sem_wait(self) \/ try_acquire(self) \/ mu_wait(self) \/ wake_waiters(self) \/ cv_wake(self)
              \/ cv_wait(self) \/ wait_n(self) \/ debug_state(self) \/ debug_cv(self) \/ thr(self)
\* the clock matters only to a thread parked in a timed semaphore wait whose deadline is still ahead
TickUseful == \E u \in Threads : \/ (pc[u] = "sw_2_pd" /\ sdl[u] > now)
                                 \/ (pc[u] = "wn_7_pd" /\ ndl[u] > now)
Tick == /\ now < MaxNow /\ TickUseful
        /\ now' = now + 1
        /\ UNCHANGED <<pc, word, queue, cvword, cvq, waiting, rmc, cvmu, wl, wc, sc, nww, nwsem, nww2, nreg2, sem, data, note, nreg, held, ret, sres, picked, sleeps, inlock, ip, mw, pool, nalloc, nq, muFreed, refs, nwalive, taint3, stack, lt_l, clear, old_, zlo, zhi, wcnt, lw, lt_u, old_u, tc, nwl, wtrs, wake, wty, sor, cor, rmq_, late, lt_m, old_m, lt_mu, old_mu, lt_mu_, ww, old_mu_, sdl, scn, lt, rc, old_t, zl, c, dl_, cn_, old_mu_w, lt_, first, out_, rc_, hadw, ata, so_, havel, tw, allr, omw, fca, sorw, all, old_c, tws, alr, rmq, dl, cn, gen, old_cv, lt_c, rc_c, so, out, ndl, wcn, old, wq, still2, cvr, dw, k, cdw, ck>>
\* Local steps (no shared operation) commute with every step of other threads, so they are taken
\* eagerly: a thread at a local label runs before anything else happens.
LocalPending == {u \in Threads : pc[u] \in LocalLabels}
NextU == IF LocalPending # {} THEN Step(CHOOSE u \in LocalPending : TRUE)
         ELSE (\E self \in Threads : Step(self)) \/ Tick
SpecU == Init /\ [][NextU]_vars
FairSpecU == SpecU /\ \A u \in Threads : WF_vars(Step(u)) /\ WF_vars(Tick)

\* ---- C01 ----
Excl == \A a, b \in Threads : (a # b /\ held[a] # 0 /\ held[b] # 0) => (held[a] = 2 /\ held[b] = 2)
WordAgrees == /\ (\E a \in Threads : held[a] = 1) => (word & WLOCK) # 0
              /\ RF(word) >= RLOCK * Cardinality({a \in Threads : held[a] = 2})
\* ---- C02 ----
AllDone == \A u \in Threads : pc[u] = "Done"
\* a thread may stay asleep for ever only inside nsync_mu_wait on a condition that is false (C06: nobody owes it a wake-up)
InMuWait(u) == \E i \in 1..Len(stack[u]) : stack[u][i].procedure = "mu_wait"
LegitAsleep(u) == InMuWait(u) /\ c[u] # 0 /\ ~CondTrue(c[u], data)
DoneOrLegit == \A u \in Threads : pc[u] = "Done" \/ LegitAsleep(u)
NoStuck == (~ENABLED NextU) => DoneOrLegit
\* liveness (checked under FairSpecU on programs in which everybody is meant to finish): no livelock in the spin loops,
\* every lock / wait call eventually returns
\* (the translation's own `Termination` is the property)
\* ---- C04 / C11 : a wait that consumed a wake-up reports it as one ----
AtClient(u) == pc[u] = "c0"
\* (picked is the ghost of the LAST wait of the thread: every operation that writes ret clears it first)
PickedReportsWake == \A u \in Threads : (AtClient(u) /\ picked[u] /\ ret[u] # -1) => ret[u] = 0
\* ---- C05 ----
\* a record of a two-object nsync_wait_n is registered with the note only while its call is in progress
NoteRecordLive == \A u \in nreg2 : nwalive[u]
RetHonest == \A u \in Threads : AtClient(u) => /\ (ret[u] = ECANCELED => note)
\* ---- C13 ----
MuLabels == {"cw_2_ld", "db_1_ld", "db_2_ld", "db_3_cas", "db_4_st", "db_5_ld", "db_6_cas", "lk_1_cas", "lk_2_ld", "lk_3_cas", "ls_1_ld", "ls_2_cas", "ls_3_cas", "ls_4_st", "ls_5_ld", "ls_6_cas", "mw_1_ld", "mw_4_ld", "mw_5_cas", "mw_6_ld", "mw_7_cas", "ta_1_ld", "ta_2_cas", "ta_3_cas", "ta_6_ld", "ta_8b_st", "ta_9_st", "tl_1_cas", "tl_2_ld", "tl_3_cas", "ul_1_cas", "ul_2_ld", "ul_3_cas", "us_1_ld", "us_2_cas", "us_3_cas", "us_4_ld", "us_5_cas", "us_merge_l", "us_pass_l", "us_rs_cas", "us_rs_ld", "us_scan_l", "us_ts_cas", "us_ts_ld", "ww_1_ld", "ww_2_cas", "ww_3_ld", "ww_4_cas"}
NoTouchAfterFree == muFreed => \A u \in Threads : pc[u] \notin MuLabels
NoDeadRecordTouch == NoteRecordLive /\ \A u \in Threads : /\ ((pc[u] \in {"ww_5_st", "ww_6_v"} /\ tw[u] # <<>> /\ Head(tw[u]) < 0) => nwalive[-Head(tw[u])])
                                          /\ ((pc[u] \in {"cs_f_st", "cs_f_v"} /\ rmq[u] # <<>> /\ Head(rmq[u]) < 0) => nwalive[-Head(rmq[u])])
\* the same invariants outside the window of known finding 6.3
PickedReportsWakeK == ~taint3 => PickedReportsWake
NoDeadRecordTouchK == ~taint3 => NoDeadRecordTouch
NoTaint3 == ~taint3
\* ---- C14 ----
SleepBound == \A u \in Threads : sleeps[u] < SB

\* Invariants are evaluated on every exported transition's successor and shipped with the graph, so
\* that TLC explores the whole graph even when some fail (known findings must not blind the search).
BadSet == {x \in {"Excl", "WordAgrees", "PickedReportsWake", "RetHonest", "NoDeadRecordTouch", "NoTouchAfterFree", "SleepBound"} :
             \/ (x = "Excl" /\ ~Excl) \/ (x = "WordAgrees" /\ ~WordAgrees) \/ (x = "PickedReportsWake" /\ ~PickedReportsWake)
             \/ (x = "RetHonest" /\ ~RetHonest) \/ (x = "NoDeadRecordTouch" /\ ~NoDeadRecordTouch)
             \/ (x = "NoTouchAfterFree" /\ ~NoTouchAfterFree) \/ (x = "SleepBound" /\ ~SleepBound)}
\* BEGIN GENERATED (tools/mkspec.py)
KindMap == [x \in {"c0", "cs_1_ld", "cs_2_d", "cs_2_ld", "cs_3_cas", "cs_3b_l", "cs_4_st", "cs_f_st", "cs_f_v", "cs_rm_cas", "cs_rm_ld", "cs_rmq_l", "cw_10_d", "cw_10_ld", "cw_11_cas", "cw_12_ld", "cw_13_ld", "cw_14_cas", "cw_14_ld", "cw_14_st", "cw_15_st", "cw_16_d", "cw_16_ld", "cw_17_l", "cw_18_l", "cw_1_st", "cw_2_ld", "cw_3_d", "cw_3_ld", "cw_4_cas", "cw_5_ld", "cw_6_st", "cw_7_ld", "cw_8b_l", "cw_9_ld", "db_1_ld", "db_2_ld", "db_3_cas", "db_4_st", "db_5_ld", "db_6_cas", "db_d", "db_rel_l", "db_w1_ld", "db_w2_ld", "db_w_l", "dc_1_ld", "dc_2_ld", "dc_3_cas", "dc_4_st", "dc_d", "dc_w1_ld", "dc_w2_ld", "dc_w_l", "lk_1_cas", "lk_2_ld", "lk_3_cas", "ls_1_ld", "ls_2_cas", "ls_3_cas", "ls_4_st", "ls_5_ld", "ls_6_cas", "ls_7_ld", "ls_8_p", "ls_d", "mw_10_ld", "mw_11_l", "mw_11b_l", "mw_12_d", "mw_12_ld", "mw_13_l", "mw_14_l", "mw_1_ld", "mw_2_st", "mw_3_ld", "mw_4_d", "mw_4_ld", "mw_5_cas", "mw_6_ld", "mw_7_cas", "mw_8_ld", "mw_9b_l", "sw_1_r", "sw_2_pd", "ta_1_ld", "ta_2_cas", "ta_3_cas", "ta_4_ld", "ta_5_ld", "ta_6_ld", "ta_7_cas", "ta_7_ld", "ta_8_st", "ta_8b_st", "ta_9_st", "ta_d", "tl_1_cas", "tl_2_ld", "tl_3_cas", "ul_1_cas", "ul_2_ld", "ul_3_cas", "us_1_ld", "us_2_cas", "us_3_cas", "us_4_ld", "us_5_cas", "us_6_st", "us_7_v", "us_after_l", "us_d", "us_merge_l", "us_pass_l", "us_rel_l", "us_rm_cas", "us_rm_ld", "us_rmq_l", "us_rs_cas", "us_rs_ld", "us_scan_l", "us_ts_cas", "us_ts_d", "us_ts_ld", "wn_0_l", "wn_0_r", "wn_10_ld", "wn_11_st", "wn_12_l", "wn_12_st", "wn_12a_r", "wn_12u_l", "wn_13_l", "wn_1_st", "wn_2_d", "wn_2_ld", "wn_3_cas", "wn_4_st", "wn_5_l", "wn_5_st", "wn_5a_st", "wn_5b_r", "wn_5u_l", "wn_6_l", "wn_6_ld", "wn_6a_r", "wn_7_pd", "wn_8_d", "wn_8_ld", "wn_9_cas", "ww_0_l", "ww_1_ld", "ww_2_cas", "ww_3_ld", "ww_4_cas", "ww_4b_l", "ww_5_st", "ww_6_v", "Done"} |-> CASE x = "c0" -> "c" [] x = "cs_1_ld" -> "ld" [] x = "cs_2_d" -> "d" [] x = "cs_2_ld" -> "ld" [] x = "cs_3_cas" -> "cas" [] x = "cs_3b_l" -> "local" [] x = "cs_4_st" -> "st" [] x = "cs_f_st" -> "st" [] x = "cs_f_v" -> "v" [] x = "cs_rm_cas" -> "cas" [] x = "cs_rm_ld" -> "ld" [] x = "cs_rmq_l" -> "local" [] x = "cw_10_d" -> "d" [] x = "cw_10_ld" -> "ld" [] x = "cw_11_cas" -> "cas" [] x = "cw_12_ld" -> "ld" [] x = "cw_13_ld" -> "ld" [] x = "cw_14_cas" -> "cas" [] x = "cw_14_ld" -> "ld" [] x = "cw_14_st" -> "st" [] x = "cw_15_st" -> "st" [] x = "cw_16_d" -> "d" [] x = "cw_16_ld" -> "ld" [] x = "cw_17_l" -> "local" [] x = "cw_18_l" -> "local" [] x = "cw_1_st" -> "st" [] x = "cw_2_ld" -> "ld" [] x = "cw_3_d" -> "d" [] x = "cw_3_ld" -> "ld" [] x = "cw_4_cas" -> "cas" [] x = "cw_5_ld" -> "ld" [] x = "cw_6_st" -> "st" [] x = "cw_7_ld" -> "ld" [] x = "cw_8b_l" -> "local" [] x = "cw_9_ld" -> "ld" [] x = "db_1_ld" -> "ld" [] x = "db_2_ld" -> "ld" [] x = "db_3_cas" -> "cas" [] x = "db_4_st" -> "st" [] x = "db_5_ld" -> "ld" [] x = "db_6_cas" -> "cas" [] x = "db_d" -> "d" [] x = "db_rel_l" -> "local" [] x = "db_w1_ld" -> "ld" [] x = "db_w2_ld" -> "ld" [] x = "db_w_l" -> "local" [] x = "dc_1_ld" -> "ld" [] x = "dc_2_ld" -> "ld" [] x = "dc_3_cas" -> "cas" [] x = "dc_4_st" -> "st" [] x = "dc_d" -> "d" [] x = "dc_w1_ld" -> "ld" [] x = "dc_w2_ld" -> "ld" [] x = "dc_w_l" -> "local" [] x = "lk_1_cas" -> "cas" [] x = "lk_2_ld" -> "ld" [] x = "lk_3_cas" -> "cas" [] x = "ls_1_ld" -> "ld" [] x = "ls_2_cas" -> "cas" [] x = "ls_3_cas" -> "cas" [] x = "ls_4_st" -> "st" [] x = "ls_5_ld" -> "ld" [] x = "ls_6_cas" -> "cas" [] x = "ls_7_ld" -> "ld" [] x = "ls_8_p" -> "p" [] x = "ls_d" -> "d" [] x = "mw_10_ld" -> "ld" [] x = "mw_11_l" -> "local" [] x = "mw_11b_l" -> "local" [] x = "mw_12_d" -> "d" [] x = "mw_12_ld" -> "ld" [] x = "mw_13_l" -> "local" [] x = "mw_14_l" -> "local" [] x = "mw_1_ld" -> "ld" [] x = "mw_2_st" -> "st" [] x = "mw_3_ld" -> "ld" [] x = "mw_4_d" -> "d" [] x = "mw_4_ld" -> "ld" [] x = "mw_5_cas" -> "cas" [] x = "mw_6_ld" -> "ld" [] x = "mw_7_cas" -> "cas" [] x = "mw_8_ld" -> "ld" [] x = "mw_9b_l" -> "local" [] x = "sw_1_r" -> "region" [] x = "sw_2_pd" -> "pd" [] x = "ta_1_ld" -> "ld" [] x = "ta_2_cas" -> "cas" [] x = "ta_3_cas" -> "cas" [] x = "ta_4_ld" -> "ld" [] x = "ta_5_ld" -> "ld" [] x = "ta_6_ld" -> "ld" [] x = "ta_7_cas" -> "cas" [] x = "ta_7_ld" -> "ld" [] x = "ta_8_st" -> "st" [] x = "ta_8b_st" -> "st" [] x = "ta_9_st" -> "st" [] x = "ta_d" -> "d" [] x = "tl_1_cas" -> "cas" [] x = "tl_2_ld" -> "ld" [] x = "tl_3_cas" -> "cas" [] x = "ul_1_cas" -> "cas" [] x = "ul_2_ld" -> "ld" [] x = "ul_3_cas" -> "cas" [] x = "us_1_ld" -> "ld" [] x = "us_2_cas" -> "cas" [] x = "us_3_cas" -> "cas" [] x = "us_4_ld" -> "ld" [] x = "us_5_cas" -> "cas" [] x = "us_6_st" -> "st" [] x = "us_7_v" -> "v" [] x = "us_after_l" -> "local" [] x = "us_d" -> "d" [] x = "us_merge_l" -> "local" [] x = "us_pass_l" -> "local" [] x = "us_rel_l" -> "local" [] x = "us_rm_cas" -> "cas" [] x = "us_rm_ld" -> "ld" [] x = "us_rmq_l" -> "local" [] x = "us_rs_cas" -> "cas" [] x = "us_rs_ld" -> "ld" [] x = "us_scan_l" -> "local" [] x = "us_ts_cas" -> "cas" [] x = "us_ts_d" -> "d" [] x = "us_ts_ld" -> "ld" [] x = "wn_0_l" -> "local" [] x = "wn_0_r" -> "region" [] x = "wn_10_ld" -> "ld" [] x = "wn_11_st" -> "st" [] x = "wn_12_l" -> "local" [] x = "wn_12_st" -> "st" [] x = "wn_12a_r" -> "region" [] x = "wn_12u_l" -> "local" [] x = "wn_13_l" -> "local" [] x = "wn_1_st" -> "st" [] x = "wn_2_d" -> "d" [] x = "wn_2_ld" -> "ld" [] x = "wn_3_cas" -> "cas" [] x = "wn_4_st" -> "st" [] x = "wn_5_l" -> "local" [] x = "wn_5_st" -> "st" [] x = "wn_5a_st" -> "st" [] x = "wn_5b_r" -> "region" [] x = "wn_5u_l" -> "local" [] x = "wn_6_l" -> "local" [] x = "wn_6_ld" -> "ld" [] x = "wn_6a_r" -> "region" [] x = "wn_7_pd" -> "pd" [] x = "wn_8_d" -> "d" [] x = "wn_8_ld" -> "ld" [] x = "wn_9_cas" -> "cas" [] x = "ww_0_l" -> "local" [] x = "ww_1_ld" -> "ld" [] x = "ww_2_cas" -> "cas" [] x = "ww_3_ld" -> "ld" [] x = "ww_4_cas" -> "cas" [] x = "ww_4b_l" -> "local" [] x = "ww_5_st" -> "st" [] x = "ww_6_v" -> "v" [] x = "Done" -> "none"]
ResetAll == (* Global variables *)
        /\ word' = 0
        /\ queue' = <<>>
        /\ cvword' = 0
        /\ cvq' = <<>>
        /\ waiting' = [w \in Waiters |-> 0]
        /\ rmc' = [w \in Waiters |-> 0]
        /\ cvmu' = [w \in Waiters |-> FALSE]
        /\ wl' = [w \in Waiters |-> 0]
        /\ wc' = [w \in Waiters |-> 0]
        /\ sc' = [n |-> [w \in Waiters |-> w], p |-> [w \in Waiters |-> w]]
        /\ nww' = [t \in Threads |-> 0]
        /\ nwsem' = [t \in Threads |-> 0]
        /\ nww2' = [t \in Threads |-> 0]
        /\ nreg2' = {}
        /\ sem' = [w \in Waiters |-> 0]
        /\ data' = [v \in 1..NV |-> 0]
        /\ now' = 0
        /\ note' = FALSE
        /\ nreg' = {}
        /\ held' = [t \in Threads |-> 0]
        /\ ret' = [t \in Threads |-> -1]
        /\ sres' = [t \in Threads |-> 0]
        /\ picked' = [t \in Threads |-> FALSE]
        /\ sleeps' = [t \in Threads |-> 0]
        /\ inlock' = [t \in Threads |-> FALSE]
        /\ ip' = [t \in Threads |-> 1]
        /\ mw' = [t \in Threads |-> 0]
        /\ pool' = <<>>
        /\ nalloc' = 0
        /\ nq' = 0
        /\ muFreed' = FALSE
        /\ refs' = N
        /\ nwalive' = [t \in Threads |-> FALSE]
        /\ taint3' = FALSE
        (* Procedure lock_slow *)
        /\ lt_l' = [ self \in ProcSet |-> defaultInitValue]
        /\ clear' = [ self \in ProcSet |-> defaultInitValue]
        /\ old_' = [ self \in ProcSet |-> 0]
        /\ zlo' = [ self \in ProcSet |-> 0]
        /\ zhi' = [ self \in ProcSet |-> FALSE]
        /\ wcnt' = [ self \in ProcSet |-> 0]
        /\ lw' = [ self \in ProcSet |-> 0]
        (* Procedure unlock_slow *)
        /\ lt_u' = [ self \in ProcSet |-> defaultInitValue]
        /\ old_u' = [ self \in ProcSet |-> 0]
        /\ tc' = [ self \in ProcSet |-> FALSE]
        /\ nwl' = [ self \in ProcSet |-> <<>>]
        /\ wtrs' = [ self \in ProcSet |-> <<>>]
        /\ wake' = [ self \in ProcSet |-> <<>>]
        /\ wty' = [ self \in ProcSet |-> 0]
        /\ sor' = [ self \in ProcSet |-> 0]
        /\ cor' = [ self \in ProcSet |-> 0]
        /\ rmq_' = [ self \in ProcSet |-> <<>>]
        /\ late' = [ self \in ProcSet |-> 0]
        (* Procedure mu_lock *)
        /\ lt_m' = [ self \in ProcSet |-> defaultInitValue]
        /\ old_m' = [ self \in ProcSet |-> 0]
        (* Procedure mu_trylock *)
        /\ lt_mu' = [ self \in ProcSet |-> defaultInitValue]
        /\ old_mu' = [ self \in ProcSet |-> 0]
        (* Procedure mu_unlock *)
        /\ lt_mu_' = [ self \in ProcSet |-> defaultInitValue]
        /\ ww' = [ self \in ProcSet |-> defaultInitValue]
        /\ old_mu_' = [ self \in ProcSet |-> 0]
        (* Procedure sem_wait *)
        /\ sdl' = [ self \in ProcSet |-> defaultInitValue]
        /\ scn' = [ self \in ProcSet |-> defaultInitValue]
        (* Procedure try_acquire *)
        /\ lt' = [ self \in ProcSet |-> defaultInitValue]
        /\ rc' = [ self \in ProcSet |-> defaultInitValue]
        /\ old_t' = [ self \in ProcSet |-> 0]
        /\ zl' = [ self \in ProcSet |-> WZLO]
        (* Procedure mu_wait *)
        /\ c' = [ self \in ProcSet |-> defaultInitValue]
        /\ dl_' = [ self \in ProcSet |-> defaultInitValue]
        /\ cn_' = [ self \in ProcSet |-> defaultInitValue]
        /\ old_mu_w' = [ self \in ProcSet |-> 0]
        /\ lt_' = [ self \in ProcSet |-> 0]
        /\ first' = [ self \in ProcSet |-> TRUE]
        /\ out_' = [ self \in ProcSet |-> 0]
        /\ rc_' = [ self \in ProcSet |-> 0]
        /\ hadw' = [ self \in ProcSet |-> FALSE]
        /\ ata' = [ self \in ProcSet |-> 0]
        /\ so_' = [ self \in ProcSet |-> 0]
        /\ havel' = [ self \in ProcSet |-> FALSE]
        (* Procedure wake_waiters *)
        /\ tw' = [ self \in ProcSet |-> defaultInitValue]
        /\ allr' = [ self \in ProcSet |-> defaultInitValue]
        /\ omw' = [ self \in ProcSet |-> 0]
        /\ fca' = [ self \in ProcSet |-> FALSE]
        /\ sorw' = [ self \in ProcSet |-> 0]
        (* Procedure cv_wake *)
        /\ all' = [ self \in ProcSet |-> defaultInitValue]
        /\ old_c' = [ self \in ProcSet |-> 0]
        /\ tws' = [ self \in ProcSet |-> <<>>]
        /\ alr' = [ self \in ProcSet |-> FALSE]
        /\ rmq' = [ self \in ProcSet |-> <<>>]
        (* Procedure cv_wait *)
        /\ dl' = [ self \in ProcSet |-> defaultInitValue]
        /\ cn' = [ self \in ProcSet |-> defaultInitValue]
        /\ gen' = [ self \in ProcSet |-> defaultInitValue]
        /\ old_cv' = [ self \in ProcSet |-> 0]
        /\ lt_c' = [ self \in ProcSet |-> 0]
        /\ rc_c' = [ self \in ProcSet |-> 0]
        /\ so' = [ self \in ProcSet |-> 0]
        /\ out' = [ self \in ProcSet |-> 0]
        (* Procedure wait_n *)
        /\ ndl' = [ self \in ProcSet |-> defaultInitValue]
        /\ wcn' = [ self \in ProcSet |-> defaultInitValue]
        /\ old' = [ self \in ProcSet |-> 0]
        /\ wq' = [ self \in ProcSet |-> FALSE]
        /\ still2' = [ self \in ProcSet |-> TRUE]
        /\ cvr' = [ self \in ProcSet |-> FALSE]
        (* Procedure debug_state *)
        /\ dw' = [ self \in ProcSet |-> 0]
        /\ k' = [ self \in ProcSet |-> 0]
        (* Procedure debug_cv *)
        /\ cdw' = [ self \in ProcSet |-> 0]
        /\ ck' = [ self \in ProcSet |-> 0]
        /\ stack' = [self \in ProcSet |-> << >>]
        /\ pc' = [self \in ProcSet |-> "c0"]
\* END GENERATED
\* ---- graph export (DESIGN 3.3) ----
Moved(a) == pc[a] # pc'[a] \/ ip[a] # ip'[a]
Actor == IF \E a \in Threads : Moved(a) THEN CHOOSE a \in Threads : Moved(a) ELSE 0
SpinFree == (word' & SPIN) = 0
CvSpinFree == (cvword' & CVSPIN) = 0
Obs == [word |-> word', q |-> IF SpinFree THEN queue' ELSE <<>>, cvword |-> cvword', cvq |-> IF CvSpinFree THEN cvq' ELSE <<>>,
        mw |-> mw', waiting |-> waiting', rmc |-> rmc', nww |-> nww', nww2 |-> nww2', sem |-> sem', held |-> held', data |-> data', now |-> now',
        note |-> note', ret |-> ret',
        \* ghost part (not compared with the code): which invariants fail in the successor state, termination, taints
        bad |-> BadSet', done |-> DoneOrLegit', taint3 |-> taint3']
Edge == (vars # vars') =>
          PrintT(ToJson(<<"E", TLCFP(vars), TLCFP(<<vars, 1>>), TLCFP(vars'), TLCFP(<<vars', 1>>),
                          Actor, IF Actor = 0 THEN "Tick" ELSE pc[Actor], Obs>>))
InitPrint == (TLCGet("level") = 1) => PrintT(ToJson(<<"I", TLCFP(vars), TLCFP(<<vars, 1>>)>>))
====
