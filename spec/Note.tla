---- MODULE Note ----
(* internal/note.c (notify, note_notify_child, nsync_note_notified_deadline_, nsync_note_new,
   nsync_note_free, nsync_note_notify, nsync_note_is_notified, note_enqueue / note_dequeue) and
   the nsync_wait_n path of nsync_note_wait, over the ideal lock of IdealMu with try-lock and
   conditional wait (WAIT_FOR_NO_CHILDREN = nsync_mu_wait).  One label per lock operation
   (_lk, _ul; _r for trylock / conditional-wait regions), per atomic operation (_ld, _st), per
   semaphore call (_v, _pd), per client step (c0); _l = local step.  Notes are slots 1..NN, 0 = NULL.
   Times: clock ticks; NONE = no deadline, ZERO = nsync_time_zero (already notified), -1 = a past instant.
   Properties C08, C09, C19 (and the note part of C11 / C13). *)
EXTENDS Integers, Sequences, FiniteSets, TLC, TLCExt, Json

CONSTANTS N, Prog,     \* Prog[t]: [op, a, b, dl, x]: "new" (slot a, parent b, deadline dl, x=1: the allocation fails),
                       \*          "notify" a, "poll" a, "free" a, "wait" (a, dl)
          NN,          \* number of note slots
          Tree0,       \* notes that exist at the start: sequence of [id, par, dl], created in order before the threads run
          MaxNow,
          CV0          \* initial value of the one nsync_counter that may appear among the objects of an nsync_wait_n (object id CTR)

Threads == 1..N
Notes == 1..NN
CTR == 9             \* object id of the counter in "waitn" object lists
NONE == 9999
ZERO == -9999
Range(s) == {s[i] : i \in 1..Len(s)}
Without(q, e) == SelectSeq(q, LAMBDA x : x # e)
Min2(a, b) == IF a < b THEN a ELSE b
RECURSIVE BuildTree(_, _)
\* the state after creating Tree0 sequentially (no concurrency): parent links, children lists, inherited expiry
BuildTree(i, st) ==
  IF i > Len(Tree0) THEN st
  ELSE LET e == Tree0[i]
           ex == IF e.par = 0 THEN e.dl ELSE Min2(st.exp[e.par], e.dl)
       IN BuildTree(i + 1, [st EXCEPT !.live[e.id] = "live", !.exp[e.id] = ex, !.notified[e.id] = IF e.dl <= 0 THEN 1 ELSE 0, !.par[e.id] = e.par, !.dl0[e.id] = e.dl,
                                    !.lpar[e.id] = e.par,
                                    !.kids = IF e.par = 0 THEN @ ELSE [@ EXCEPT ![e.par] = Append(@, e.id)]])
T0 == BuildTree(1, [live |-> [n \in Notes |-> "none"], notified |-> [n \in Notes |-> 0], exp |-> [n \in Notes |-> NONE], par |-> [n \in Notes |-> 0],
                    dl0 |-> [n \in Notes |-> NONE], lpar |-> [n \in Notes |-> 0], kids |-> [n \in Notes |-> <<>>]])

(* --algorithm note {
  variables
    live = T0.live,                           \* "none" / "live" / "freed"
    notified = T0.notified,                   \* n->notified
    exp = T0.exp,                             \* n->expiry_time
    par = T0.par,                             \* n->parent (0 = NULL)
    kids = T0.kids,                           \* n->children (first..last)
    wts = [n \in Notes |-> <<>>],             \* n->waiters: threads whose wait_n record is queued
    disc = [n \in Notes |-> 0],               \* n->disconnecting
    lk = [n \in Notes |-> 0],                 \* holder of n->note_mu (0 = free)
    nww = [t \in Threads |-> [n \in Notes |-> 0]],   \* waiting flag of t's nsync_wait_n record for note n
    sem = [t \in Threads |-> 0],
    cval = CV0, cwaited = 0,                  \* the counter: value, waited
    cq = <<>>,                                \* c->waiters
    clk = 0,                                  \* holder of c->counter_mu
    nwc = [t \in Threads |-> 0],              \* waiting flag of t's nsync_wait_n record for the counter
    cmu = 0,                                  \* holder of the client's mutex, the one a "waitn" with x = 2 passes to nsync_wait_n
    badmu = FALSE,                            \* an nsync_wait_n that was given the mutex returned without holding it
    cz = (CV0 = 0),                           \* ghost: the counter has been zero
    now = 0,
    ip = [t \in Threads |-> 1],
    ret = [t \in Threads |-> -1],             \* result of the last client operation
    dres = [t \in Threads |-> 0],             \* result of the last nsync_note_notified_deadline_
    \* ghosts
    called = [n \in Notes |-> FALSE],         \* nsync_note_notify has been called on n
    dl0 = T0.dl0,                             \* the deadline given when n was created
    lpar = T0.lpar,                           \* logical parent: creation parent, re-pointed when a note in between is freed
    wfor = [t \in Threads |-> 0],             \* ghost: the note whose children loop t's notifier has finished (it now waits for the list to drain)
    freeing = [n \in Notes |-> FALSE],        \* ghost: nsync_note_free (n) is in progress (n is no longer anybody else's business)
    badret = FALSE,                           \* nsync_sem_wait_with_cancel_ returned a value its contract does not allow (C05)
    vcount = [t \in Threads |-> 0],           \* wake-ups given to t's semaphore (by "semv" or by a notifier) not yet reported by a 0 return
    uaf = FALSE,                              \* some step touched a note after nsync_note_free of it had returned
    taint4 = FALSE,                           \* known finding 6.4: a child was adopted by a note whose notifier had finished its children loop
    taint5 = FALSE,                           \* known finding 6.5: a notifier queued for a parent from which its note was unlinked meanwhile
    taint6 = FALSE;                           \* known finding 6.6: the same window in nsync_note_free

  define {
    CurOp(t) == Prog[t][ip[t]]
    NTime(n) == IF notified[n] # 0 THEN ZERO ELSE exp[n]          \* NOTIFIED_TIME
    Touch(x) == x # 0 /\ live[x] = "freed"
    RECURSIVE LAnc(_, _)
    LAnc(n, d) == IF n = 0 \/ d = 0 THEN {} ELSE {n} \cup LAnc(lpar[n], d - 1)      \* n and its logical ancestors
    Cause(n) == \E a \in LAnc(n, NN) : called[a] \/ (dl0[a] < NONE /\ dl0[a] <= now)
    ECANCELED == 125
    ETIMEDOUT == 110
  }

  \* ------------------------------------------------------------------ note_notify_child (note.c:83-111), recursive
  procedure notify_child(cn, cp)
    variables i = 1, klist = <<>>, w = 0;
  {
   nc_1_ld:  uaf := uaf \/ Touch(cn);                                        \* note.c:85 NOTIFIED_TIME: ATM_LOAD_ACQ
             if (NTime(cn) = ZERO) { return; };
   nc_2_st:  notified[cn] := 1;                                              \* note.c:89 ATM_STORE_REL
   nc_w_l:   if (wts[cn] = <<>>) { klist := kids[cn]; i := 1; goto nc_k_l; }
             else { w := Head(wts[cn]); wts[cn] := Tail(wts[cn]); };         \* note.c:91-92
   nc_3_st:  nww[w][cn] := 0;                                                    \* note.c:93 ATM_STORE_REL
   nc_4_v:   sem[w] := sem[w] + 1; vcount[w] := vcount[w] + 1; goto nc_w_l;                              \* note.c:94
   nc_k_l:   if (i > Len(klist)) { wfor[self] := cn; goto nc_7_r; };
   nc_5_lk:  await lk[klist[i]] = 0; lk[klist[i]] := self;                   \* note.c:99 nsync_mu_lock (&child->note_mu)
             uaf := uaf \/ Touch(klist[i]);
   nc_5_l:   if (disc[klist[i]] = 0) { call notify_child(klist[i], cn); };   \* note.c:100-102
   nc_6_ul:  lk[klist[i]] := 0; i := i + 1; goto nc_k_l;                     \* note.c:103
   nc_7_r:   if (kids[cn] # <<>>) { lk[cn] := 0; }                           \* note.c:105 WAIT_FOR_NO_CHILDREN: release if children remain
             else { goto nc_9_l; };
   nc_8_lk:  await lk[cn] = 0 /\ kids[cn] = <<>>; lk[cn] := self;            \* ... re-taken once the list is empty
   nc_9_l:   if (cp # 0) {                                                   \* note.c:106-110
               uaf := uaf \/ Touch(cp);
               kids[cp] := Without(kids[cp], cn); par[cn] := 0;
             };
             wfor[self] := 0;
             return;
  }

  \* ------------------------------------------------------------------ notify (note.c:115-137)
  procedure notify(tn)
    variables p = 0;
  {
   nt_1_lk:  await lk[tn] = 0; lk[tn] := self; uaf := uaf \/ Touch(tn);      \* note.c:117
   nt_2_ld:  if (NTime(tn) = ZERO) { goto nt_8_ul; }                         \* note.c:118 NOTIFIED_TIME
             else { disc[tn] := disc[tn] + 1; p := par[tn]; };
   nt_2_l:   if (p = 0) { goto nt_7_l; };
   nt_3_r:   uaf := uaf \/ Touch(p);                                         \* note.c:123 nsync_mu_trylock (&parent->note_mu)
             if (lk[p] = 0) { lk[p] := self; goto nt_7_l; };
   nt_4_ul:  lk[tn] := 0;                                                    \* note.c:124
   nt_5_lk:  await lk[p] = 0; lk[p] := self;                                 \* note.c:125 (parent pointer saved before n's lock was dropped)
             uaf := uaf \/ Touch(p);
             taint5 := taint5 \/ (par[tn] # p);
   nt_6_lk:  await lk[tn] = 0; lk[tn] := self;                               \* note.c:126
   nt_7_l:   call notify_child(tn, p);                                       \* note.c:128
   nt_7b_l:  if (p = 0) { goto nt_7c_l; };
   nt_7_ul:  lk[p] := 0; uaf := uaf \/ Touch(p);                             \* note.c:130
   nt_7c_l:  disc[tn] := disc[tn] - 1;
   nt_8_ul:  lk[tn] := 0; return;                                            \* note.c:134
  }

  \* ------------------------------------------------------------------ nsync_note_notified_deadline_ (note.c:144-160): result in dres
  procedure ndeadline(dn)
    variables nt = 0;
  {
   nd_1_ld:  uaf := uaf \/ Touch(dn);                                        \* note.c:146 ATM_LOAD_ACQ
             if (notified[dn] # 0) { dres[self] := ZERO; return; };
   nd_2_lk:  await lk[dn] = 0; lk[dn] := self;                               \* note.c:149
   nd_3_ld:  nt := NTime(dn);                                                \* note.c:150 NOTIFIED_TIME
   nd_4_ul:  lk[dn] := 0;                                                    \* note.c:151
             if (nt > ZERO /\ nt <= now) { call notify(dn); }                \* note.c:153-155 lazy expiry
             else { dres[self] := nt; return; };
   nd_5_l:   dres[self] := ZERO; return;
  }

  \* ------------------------------------------------------------------ nsync_note_notify (note.c:238-244)
  procedure nnotify(xn, xcl)
  {
   nx_0_l:   called[xn] := called[xn] \/ xcl; call ndeadline(xn);      \* (ghost) only a client call counts as a cause
   nx_1_l:   if (dres[self] > ZERO) { call notify(xn); };
   nx_2_l:   if (xcl) { ret[self] := notified[xn]; }; return;
  }

  \* ------------------------------------------------------------------ nsync_note_new (note.c:170-193)
  procedure nnew(wn, wp, wdl, fail)
  {
   nn_0_l:   if (fail) { ret[self] := 0; return; }                           \* malloc fails: NULL, nothing touched (C19)
             else { live[wn] := "new"; exp[wn] := wdl; dl0[wn] := wdl; lpar[wn] := wp; };     \* under construction: not yet visible to the client
   nn_1_l:   call ndeadline(wn);                                             \* note.c:176 nsync_note_is_notified (n)
   nn_2_l:   if (dres[self] = ZERO \/ wp = 0) { ret[self] := wn; live[wn] := "live"; return; };
   nn_3_lk:  await lk[wp] = 0; lk[wp] := self; uaf := uaf \/ Touch(wp);      \* note.c:178
   nn_4_ld:  if (NTime(wp) < wdl) { exp[wn] := NTime(wp); };                 \* note.c:179-182 NOTIFIED_TIME (parent)
             if (NTime(wp) > ZERO) { par[wn] := wp; kids[wp] := Append(kids[wp], wn); };
   nn_5_ul:  lk[wp] := 0; ret[self] := wn; live[wn] := "live"; return;                           \* note.c:189
  }

  \* ------------------------------------------------------------------ nsync_note_free (note.c:195-236)
  procedure nfree(fn)
    variables fp = 0, fi = 1, fk = <<>>;
  {
   nf_1_lk:  await lk[fn] = 0; lk[fn] := self;                               \* note.c:199
             disc[fn] := disc[fn] + 1; fp := par[fn]; freeing[fn] := TRUE;
   nf_1_l:   if (fp = 0) { goto nf_5_l; };
   nf_2_r:   if (lk[fp] = 0) { lk[fp] := self; goto nf_5_l; };               \* note.c:203 nsync_mu_trylock
   nf_3_ul:  lk[fn] := 0;                                                    \* note.c:204
   nf_4_lk:  await lk[fp] = 0; lk[fp] := self; uaf := uaf \/ Touch(fp);      \* note.c:205 (parent pointer saved before n's lock was dropped)
             taint6 := taint6 \/ (par[fn] # fp);
   nf_4b_lk: await lk[fn] = 0; lk[fn] := self;                               \* note.c:206
   nf_5_l:   fk := kids[fn]; fi := 1;
   nf_k_l:   if (fi > Len(fk)) { goto nf_8_r; };
   nf_6_lk:  await lk[fk[fi]] = 0; lk[fk[fi]] := self;                       \* note.c:211
   nf_6_l:   if (disc[fk[fi]] = 0) {                                         \* note.c:212-223 adoption by the grandparent
               kids := [x \in Notes |-> IF x = fn THEN Without(kids[fn], fk[fi])
                                         ELSE IF x = fp THEN Append(kids[fp], fk[fi]) ELSE kids[x]];
               par[fk[fi]] := fp;
               taint4 := taint4 \/ (fp # 0 /\ \E u \in Threads : u # self /\ wfor[u] = fp);
             };
   nf_7_ul:  lk[fk[fi]] := 0; fi := fi + 1; goto nf_k_l;                     \* note.c:224
   nf_8_r:   if (kids[fn] # <<>>) { lk[fn] := 0; } else { goto nf_10_l; };    \* note.c:226 WAIT_FOR_NO_CHILDREN
   nf_9_lk:  await lk[fn] = 0 /\ kids[fn] = <<>>; lk[fn] := self;
   nf_10_l:  if (fp = 0) { goto nf_12_l; }
             else { kids[fp] := Without(kids[fp], fn); par[fn] := 0; };      \* note.c:228-230
   nf_11_ul: lk[fp] := 0;                                                    \* note.c:231
   nf_12_l:  disc[fn] := disc[fn] - 1;
   nf_13_ul: lk[fn] := 0;                                                    \* note.c:234
             live[fn] := "freed";                                            \* note.c:235 free (n)
             \* ghost: what caused fn's notification keeps counting as a cause for the notes it leaves behind
             called := [x \in Notes |-> called[x] \/ (lpar[x] = fn /\ (called[fn] \/ (dl0[fn] < NONE /\ dl0[fn] <= now)))];
             lpar := [x \in Notes |-> IF lpar[x] = fn THEN lpar[fn] ELSE lpar[x]];
             ret[self] := 0;
             return;
  }

  \* ------------------------------------------------------------------ the counter as an nsync_wait_n object: counter_ready_time (counter.c:108-114)
  procedure cready()
  {
   cr_1_st:  cwaited := 1;                                                   \* counter.c:111 ATM_STORE
   cr_2_ld:  dres[self] := IF cval = 0 THEN ZERO ELSE NONE; return;          \* counter.c:112 ATM_LOAD_ACQ
  }

  \* nsync_counter_add (counter.c:52-86), as in Counter.tla
  procedure cadd(cdl)
    variables cv = 0, cwk = 0;
  {
   ca_1_lk:  await clk = 0; clk := self;                                     \* counter.c:58
   ca_2_ld:  cv := cval;                                                     \* counter.c:60
   ca_3_cas: if (cval = cv) { cz := cz \/ (cv + cdl = 0); cval := cv + cdl; cv := cv + cdl; }   \* counter.c:61
             else { goto ca_2_ld; };
   ca_4_l:   if (cdl > 0 /\ cv = cdl) { goto ca_4_ld; } else { goto ca_5_l; };
   ca_4_ld:  assert cwaited = 0;                                             \* counter.c:66 (client contract: not raised from zero once waited on)
   ca_5_l:   if (cv # 0 \/ cq = <<>>) { goto ca_7_ul; }
             else { cwk := Head(cq); cq := Tail(cq); };                      \* counter.c:73-75
   ca_5_st:  nwc[cwk] := 0;                                                  \* counter.c:76
   ca_6_v:   sem[cwk] := sem[cwk] + 1; vcount[cwk] := vcount[cwk] + 1; goto ca_5_l;   \* counter.c:77
   ca_7_ul:  clk := 0; ret[self] := cv; return;                              \* counter.c:80
  }

  \* ------------------------------------------------------------------ nsync_wait_n (NULL, .., adl, Len(objs), objs) on notes (wait.c:28-100
  \* with note_ready_time / note_enqueue / note_dequeue, note.c:262-294); nsync_note_wait (n, dl) is the call with one object
  procedure nwaitn(objs, adl, single, wm)
    variables k = 1, rt = 0, cnt = 0, rdy = 0, enq = FALSE, wq = FALSE, unl = FALSE;
  {
   ws_1_l:   if (k > Len(objs)) { k := 1; goto we_1_l; }
             else if (objs[k] = CTR) { call cready(); }
             else { call ndeadline(objs[k]); };    \* wait.c:34-38 note_ready_time (v, NULL)
   ws_2_l:   if (dres[self] = ZERO) { ret[self] := IF single THEN 1 ELSE k - 1; return; }      \* an object is ready at once
             else { k := k + 1; goto ws_1_l; };
   we_1_l:   if (k > Len(objs)) { goto wu_0_l; };                             \* wait.c:50-57 enqueue loop
   wn_1_st:  if (objs[k] = CTR) { nwc[self] := 0; goto ce_1_lk; }
             else { nww[self][objs[k]] := 0; };                              \* wait.c:54 ATM_STORE
   ne_1_lk:  await lk[objs[k]] = 0; lk[objs[k]] := self; uaf := uaf \/ Touch(objs[k]);   \* note.c:267 note_enqueue
   ne_2_ld:  enq := NTime(objs[k]) > ZERO;                                   \* note.c:268 NOTIFIED_TIME
             if (NTime(objs[k]) > ZERO) { wts[objs[k]] := Append(wts[objs[k]], self); };
   ne_3_st:  nww[self][objs[k]] := IF enq THEN 1 ELSE 0;                     \* note.c:271 / 274
   ne_4_ul:  lk[objs[k]] := 0;
   ne_5_l:   cnt := k;
             if (enq) { k := k + 1; goto we_1_l; }
             else if (k = Len(objs)) { goto wu_0_l; }                         \* wait.c:59: i == count although the last enqueue found it ready
             else { goto wd_0_l; };
   ce_1_lk:  await clk = 0; clk := self;                                     \* counter.c:119 counter_enqueue
   ce_2_ld:  enq := cval # 0;                                                \* counter.c:120
             if (cval # 0) { cq := Append(cq, self); };
   ce_3_st:  nwc[self] := IF enq THEN 1 ELSE 0;                              \* counter.c:123 / 125
   ce_4_ul:  clk := 0; goto ne_5_l;                                          \* counter.c:127
   wu_0_l:   if (~wm) { goto wl_0_l; };                                       \* wait.c:59-64: every object was offered: release the caller's mutex for the sleep
   wu_1_ul:  cmu := 0; unl := TRUE;                                           \* wait.c:62 unlock (mu)
   wl_0_l:   k := 1; rt := adl;                                               \* wait.c:65-77
   wl_1_l:   if (k > Len(objs)) { goto wl_3_l; }
             else if (objs[k] = CTR) { call cready(); }
             else { call ndeadline(objs[k]); };   \* note_ready_time (v, &nw[j])
   wl_2_l:   rt := Min2(rt, dres[self]); k := k + 1; goto wl_1_l;
   wl_3_l:   if (rt = ZERO) { goto wd_0_l; };
   wn_7_pd:  await sem[self] > 0 \/ (rt < NONE /\ now >= rt);                \* wait.c:76 nsync_mu_semaphore_p_with_deadline
             if (sem[self] > 0) { sem[self] := sem[self] - 1; goto wl_0_l; };
   wd_0_l:   k := 1; rdy := 0;                                                \* wait.c:80-89 dequeue loop over the objects registered
   wd_1_l:   if (k > cnt) { goto wd_8_l; }
             else if (objs[k] = CTR) { goto cd_1_lk; }
             else { call ndeadline(objs[k]); }; \* note.c:285 note_dequeue
   nq_2_lk:  await lk[objs[k]] = 0; lk[objs[k]] := self; uaf := uaf \/ Touch(objs[k]);   \* note.c:286
   nq_3_ld:  wq := NTime(objs[k]) > ZERO;                                    \* note.c:287
             if (NTime(objs[k]) > ZERO) { wts[objs[k]] := Without(wts[objs[k]], self); };
   nq_3_l:   if (~wq) { goto nq_5_ul; };
   nq_4_st:  nww[self][objs[k]] := 0;                                        \* note.c:289
   nq_5_ul:  lk[objs[k]] := 0;
   nq_6_l:   if (~wq /\ rdy = 0) { rdy := k; };
             k := k + 1; goto wd_1_l;
   cd_1_lk:  await clk = 0; clk := self;                                     \* counter.c:133 counter_dequeue
   cd_2_ld:  wq := cval # 0;                                                 \* counter.c:134: "still enqueued" is judged by the value
   cd_3_ld:  if (nwc[self] # 0) { cq := Without(cq, self); } else { goto cd_5_ul; };   \* counter.c:135-136
   cd_4_st:  nwc[self] := 0;                                                 \* counter.c:137
   cd_5_ul:  clk := 0; goto nq_6_l;                                          \* counter.c:139
   wd_8_l:   if (~unl) { goto wd_9_l; };
   wu_2_lk:  await cmu = 0; cmu := self;                                      \* wait.c:96 lock (mu)
   wd_9_l:   badmu := badmu \/ (wm /\ cmu # self);
             badret := badret \/ (rdy # 0 /\ (IF objs[rdy] = CTR THEN ~cz ELSE ~Cause(objs[rdy]))) \/ (rdy = 0 /\ ~(adl < NONE /\ adl <= now));
             ret[self] := IF single THEN (IF rdy = 0 THEN 0 ELSE 1) ELSE (IF rdy = 0 THEN Len(objs) ELSE rdy - 1);
             return;
  }

  \* ------------------------------------------------------------------ nsync_sem_wait_with_cancel_ (w, sdl, scn) (sem_wait.c:31-81): what a cv / mu
  \* waiter with a cancel note sleeps in.  scn = 0 is cancel_note == NULL.  The on-stack nsync_waiter_s nw is thread self's record for note scn.
  procedure swc(sdl, scn)
    variables sct = 0, sldl = 0, snear = FALSE, sso = 0;
  {
   sc_0_l:   if (scn = 0) { goto sc_p_pd; } else { call ndeadline(scn); };     \* sem_wait.c:38 nsync_note_notified_deadline_
   sc_1_l:   if (dres[self] = ZERO) { sso := ECANCELED; goto sc_r_l; };       \* sem_wait.c:39-40
   sc_2_st:  nww[self][scn] := 1;                                            \* sem_wait.c:45 ATM_STORE (&nw.waiting, 1)
   sc_3_lk:  await lk[scn] = 0; lk[scn] := self; uaf := uaf \/ Touch(scn);    \* sem_wait.c:47
   sc_4_ld:  sct := NTime(scn);                                              \* sem_wait.c:48 NOTIFIED_TIME
             if (NTime(scn) > ZERO) {
               wts[scn] := Append(wts[scn], self);                           \* sem_wait.c:52
               sldl := Min2(NTime(scn), sdl); snear := sdl < NTime(scn);     \* sem_wait.c:54-58
             } else { sso := ECANCELED; goto sc_9_ul; };
   sc_5_ul:  lk[scn] := 0;                                                   \* sem_wait.c:59
   sc_6_pd:  await sem[self] > 0 \/ (sldl < NONE /\ now >= sldl);             \* sem_wait.c:60 nsync_mu_semaphore_p_with_deadline
             if (sem[self] > 0) { sem[self] := sem[self] - 1; sso := 0; } else { sso := ETIMEDOUT; };
   sc_6_l:   if (sso = ETIMEDOUT /\ ~snear) { sso := ECANCELED; call nnotify(scn, FALSE); };   \* sem_wait.c:62-65 the note's own expiry
   sc_7_lk:  await lk[scn] = 0; lk[scn] := self; uaf := uaf \/ Touch(scn);    \* sem_wait.c:66
   sc_8_ld:  if (NTime(scn) > ZERO) { wts[scn] := Without(wts[scn], self); }; \* sem_wait.c:67-72
   sc_9_ul:  lk[scn] := 0;                                                   \* sem_wait.c:74
   sc_r_l:   ret[self] := sso;
             if (scn # 0) { nww[self][scn] := 0; };                          \* the record's frame is gone
             badret := badret \/ (sso = ECANCELED /\ ~Cause(scn)) \/ (sso = ETIMEDOUT /\ ~(sdl < NONE /\ sdl <= now)) \/ (sso = 0 /\ vcount[self] = 0);
             if (sso = 0) { vcount[self] := vcount[self] - 1; };
             return;
   sc_p_pd:  await sem[self] > 0 \/ (sdl < NONE /\ now >= sdl);               \* sem_wait.c:35
             if (sem[self] > 0) { sem[self] := sem[self] - 1; sso := 0; } else { sso := ETIMEDOUT; };
             goto sc_r_l;
  }

  \* nsync_mu_semaphore_v on thread st's semaphore (what a cv signaller or an unlocker does for a waiter)
  procedure semv(st)
  {
   sv_1_v:   sem[st] := sem[st] + 1; vcount[st] := vcount[st] + 1; ret[self] := 0; return;
  }

  \* the client's own mutex (ideal): lock / unlock around a "waitn" that passes it to nsync_wait_n
  procedure mlock()
  {
   ml_1_lk:  await cmu = 0; cmu := self; ret[self] := 0; return;
  }
  procedure munlock()
  {
   ml_2_ul:  cmu := 0; ret[self] := 0; return;
  }

  procedure npoll(pn)
  {
   np_0_l:   call ndeadline(pn);
   np_1_l:   ret[self] := IF dres[self] = ZERO THEN 1 ELSE 0; return;        \* nsync_note_is_notified
  }

  process (thr \in Threads)
  {
   c0: while (ip[self] <= Len(Prog[self])) {
         if (CurOp(self).op = "notify") { ip[self] := ip[self] + 1; call nnotify(CurOp(self).a, TRUE); }
         else if (CurOp(self).op = "poll") { ip[self] := ip[self] + 1; call npoll(CurOp(self).a); }
         else if (CurOp(self).op = "new") { ip[self] := ip[self] + 1; call nnew(CurOp(self).a, CurOp(self).b, CurOp(self).dl, CurOp(self).x = 1); }
         else if (CurOp(self).op = "free") { ip[self] := ip[self] + 1; call nfree(CurOp(self).a); }
         else if (CurOp(self).op = "wait") { ip[self] := ip[self] + 1; call nwaitn(<<CurOp(self).a>>, CurOp(self).dl, TRUE, FALSE); }
         else if (CurOp(self).op = "waitn") { ip[self] := ip[self] + 1; call nwaitn(CurOp(self).objs, CurOp(self).dl, FALSE, CurOp(self).x = 2); }
         else if (CurOp(self).op = "mlock") { ip[self] := ip[self] + 1; call mlock(); }
         else if (CurOp(self).op = "munlock") { ip[self] := ip[self] + 1; call munlock(); }
         else if (CurOp(self).op = "cadd") { ip[self] := ip[self] + 1; call cadd(CurOp(self).a); }
         else if (CurOp(self).op = "swc") { ip[self] := ip[self] + 1; call swc(CurOp(self).dl, CurOp(self).a); }
         else if (CurOp(self).op = "semv") { ip[self] := ip[self] + 1; call semv(CurOp(self).a); }
         else { ip[self] := ip[self] + 1; };
       };
  }
} *)
\* BEGIN TRANSLATION
CONSTANT defaultInitValue
VARIABLES pc, live, notified, exp, par, kids, wts, disc, lk, nww, sem, cval, 
          cwaited, cq, clk, nwc, cmu, badmu, cz, now, ip, ret, dres, called, 
          dl0, lpar, wfor, freeing, badret, vcount, uaf, taint4, taint5, 
          taint6, stack

(* define statement *)
CurOp(t) == Prog[t][ip[t]]
NTime(n) == IF notified[n] # 0 THEN ZERO ELSE exp[n]
Touch(x) == x # 0 /\ live[x] = "freed"
RECURSIVE LAnc(_, _)
LAnc(n, d) == IF n = 0 \/ d = 0 THEN {} ELSE {n} \cup LAnc(lpar[n], d - 1)
Cause(n) == \E a \in LAnc(n, NN) : called[a] \/ (dl0[a] < NONE /\ dl0[a] <= now)
ECANCELED == 125
ETIMEDOUT == 110

VARIABLES cn, cp, i, klist, w, tn, p, dn, nt, xn, xcl, wn, wp, wdl, fail, fn, 
          fp, fi, fk, cdl, cv, cwk, objs, adl, single, wm, k, rt, cnt, rdy, 
          enq, wq, unl, sdl, scn, sct, sldl, snear, sso, st, pn

vars == << pc, live, notified, exp, par, kids, wts, disc, lk, nww, sem, cval, 
           cwaited, cq, clk, nwc, cmu, badmu, cz, now, ip, ret, dres, called, 
           dl0, lpar, wfor, freeing, badret, vcount, uaf, taint4, taint5, 
           taint6, stack, cn, cp, i, klist, w, tn, p, dn, nt, xn, xcl, wn, wp, 
           wdl, fail, fn, fp, fi, fk, cdl, cv, cwk, objs, adl, single, wm, k, 
           rt, cnt, rdy, enq, wq, unl, sdl, scn, sct, sldl, snear, sso, st, 
           pn >>

ProcSet == (Threads)

Init == (* Global variables *)
        /\ live = T0.live
        /\ notified = T0.notified
        /\ exp = T0.exp
        /\ par = T0.par
        /\ kids = T0.kids
        /\ wts = [n \in Notes |-> <<>>]
        /\ disc = [n \in Notes |-> 0]
        /\ lk = [n \in Notes |-> 0]
        /\ nww = [t \in Threads |-> [n \in Notes |-> 0]]
        /\ sem = [t \in Threads |-> 0]
        /\ cval = CV0
        /\ cwaited = 0
        /\ cq = <<>>
        /\ clk = 0
        /\ nwc = [t \in Threads |-> 0]
        /\ cmu = 0
        /\ badmu = FALSE
        /\ cz = (CV0 = 0)
        /\ now = 0
        /\ ip = [t \in Threads |-> 1]
        /\ ret = [t \in Threads |-> -1]
        /\ dres = [t \in Threads |-> 0]
        /\ called = [n \in Notes |-> FALSE]
        /\ dl0 = T0.dl0
        /\ lpar = T0.lpar
        /\ wfor = [t \in Threads |-> 0]
        /\ freeing = [n \in Notes |-> FALSE]
        /\ badret = FALSE
        /\ vcount = [t \in Threads |-> 0]
        /\ uaf = FALSE
        /\ taint4 = FALSE
        /\ taint5 = FALSE
        /\ taint6 = FALSE
        (* Procedure notify_child *)
        /\ cn = [ self \in ProcSet |-> defaultInitValue]
        /\ cp = [ self \in ProcSet |-> defaultInitValue]
        /\ i = [ self \in ProcSet |-> 1]
        /\ klist = [ self \in ProcSet |-> <<>>]
        /\ w = [ self \in ProcSet |-> 0]
        (* Procedure notify *)
        /\ tn = [ self \in ProcSet |-> defaultInitValue]
        /\ p = [ self \in ProcSet |-> 0]
        (* Procedure ndeadline *)
        /\ dn = [ self \in ProcSet |-> defaultInitValue]
        /\ nt = [ self \in ProcSet |-> 0]
        (* Procedure nnotify *)
        /\ xn = [ self \in ProcSet |-> defaultInitValue]
        /\ xcl = [ self \in ProcSet |-> defaultInitValue]
        (* Procedure nnew *)
        /\ wn = [ self \in ProcSet |-> defaultInitValue]
        /\ wp = [ self \in ProcSet |-> defaultInitValue]
        /\ wdl = [ self \in ProcSet |-> defaultInitValue]
        /\ fail = [ self \in ProcSet |-> defaultInitValue]
        (* Procedure nfree *)
        /\ fn = [ self \in ProcSet |-> defaultInitValue]
        /\ fp = [ self \in ProcSet |-> 0]
        /\ fi = [ self \in ProcSet |-> 1]
        /\ fk = [ self \in ProcSet |-> <<>>]
        (* Procedure cadd *)
        /\ cdl = [ self \in ProcSet |-> defaultInitValue]
        /\ cv = [ self \in ProcSet |-> 0]
        /\ cwk = [ self \in ProcSet |-> 0]
        (* Procedure nwaitn *)
        /\ objs = [ self \in ProcSet |-> defaultInitValue]
        /\ adl = [ self \in ProcSet |-> defaultInitValue]
        /\ single = [ self \in ProcSet |-> defaultInitValue]
        /\ wm = [ self \in ProcSet |-> defaultInitValue]
        /\ k = [ self \in ProcSet |-> 1]
        /\ rt = [ self \in ProcSet |-> 0]
        /\ cnt = [ self \in ProcSet |-> 0]
        /\ rdy = [ self \in ProcSet |-> 0]
        /\ enq = [ self \in ProcSet |-> FALSE]
        /\ wq = [ self \in ProcSet |-> FALSE]
        /\ unl = [ self \in ProcSet |-> FALSE]
        (* Procedure swc *)
        /\ sdl = [ self \in ProcSet |-> defaultInitValue]
        /\ scn = [ self \in ProcSet |-> defaultInitValue]
        /\ sct = [ self \in ProcSet |-> 0]
        /\ sldl = [ self \in ProcSet |-> 0]
        /\ snear = [ self \in ProcSet |-> FALSE]
        /\ sso = [ self \in ProcSet |-> 0]
        (* Procedure semv *)
        /\ st = [ self \in ProcSet |-> defaultInitValue]
        (* Procedure npoll *)
        /\ pn = [ self \in ProcSet |-> defaultInitValue]
        /\ stack = [self \in ProcSet |-> << >>]
        /\ pc = [self \in ProcSet |-> "c0"]

nc_1_ld(self) == /\ pc[self] = "nc_1_ld"
                 /\ uaf' = (uaf \/ Touch(cn[self]))
                 /\ IF NTime(cn[self]) = ZERO
                       THEN /\ pc' = [pc EXCEPT ![self] = Head(stack[self]).pc]
                            /\ i' = [i EXCEPT ![self] = Head(stack[self]).i]
                            /\ klist' = [klist EXCEPT ![self] = Head(stack[self]).klist]
                            /\ w' = [w EXCEPT ![self] = Head(stack[self]).w]
                            /\ cn' = [cn EXCEPT ![self] = Head(stack[self]).cn]
                            /\ cp' = [cp EXCEPT ![self] = Head(stack[self]).cp]
                            /\ stack' = [stack EXCEPT ![self] = Tail(stack[self])]
                       ELSE /\ pc' = [pc EXCEPT ![self] = "nc_2_st"]
                            /\ UNCHANGED << stack, cn, cp, i, klist, w >>
                 /\ UNCHANGED << live, notified, exp, par, kids, wts, disc, lk, 
                                 nww, sem, cval, cwaited, cq, clk, nwc, cmu, 
                                 badmu, cz, now, ip, ret, dres, called, dl0, 
                                 lpar, wfor, freeing, badret, vcount, taint4, 
                                 taint5, taint6, tn, p, dn, nt, xn, xcl, wn, 
                                 wp, wdl, fail, fn, fp, fi, fk, cdl, cv, cwk, 
                                 objs, adl, single, wm, k, rt, cnt, rdy, enq, 
                                 wq, unl, sdl, scn, sct, sldl, snear, sso, st, 
                                 pn >>

nc_2_st(self) == /\ pc[self] = "nc_2_st"
                 /\ notified' = [notified EXCEPT ![cn[self]] = 1]
                 /\ pc' = [pc EXCEPT ![self] = "nc_w_l"]
                 /\ UNCHANGED << live, exp, par, kids, wts, disc, lk, nww, sem, 
                                 cval, cwaited, cq, clk, nwc, cmu, badmu, cz, 
                                 now, ip, ret, dres, called, dl0, lpar, wfor, 
                                 freeing, badret, vcount, uaf, taint4, taint5, 
                                 taint6, stack, cn, cp, i, klist, w, tn, p, dn, 
                                 nt, xn, xcl, wn, wp, wdl, fail, fn, fp, fi, 
                                 fk, cdl, cv, cwk, objs, adl, single, wm, k, 
                                 rt, cnt, rdy, enq, wq, unl, sdl, scn, sct, 
                                 sldl, snear, sso, st, pn >>

nc_w_l(self) == /\ pc[self] = "nc_w_l"
                /\ IF wts[cn[self]] = <<>>
                      THEN /\ klist' = [klist EXCEPT ![self] = kids[cn[self]]]
                           /\ i' = [i EXCEPT ![self] = 1]
                           /\ pc' = [pc EXCEPT ![self] = "nc_k_l"]
                           /\ UNCHANGED << wts, w >>
                      ELSE /\ w' = [w EXCEPT ![self] = Head(wts[cn[self]])]
                           /\ wts' = [wts EXCEPT ![cn[self]] = Tail(wts[cn[self]])]
                           /\ pc' = [pc EXCEPT ![self] = "nc_3_st"]
                           /\ UNCHANGED << i, klist >>
                /\ UNCHANGED << live, notified, exp, par, kids, disc, lk, nww, 
                                sem, cval, cwaited, cq, clk, nwc, cmu, badmu, 
                                cz, now, ip, ret, dres, called, dl0, lpar, 
                                wfor, freeing, badret, vcount, uaf, taint4, 
                                taint5, taint6, stack, cn, cp, tn, p, dn, nt, 
                                xn, xcl, wn, wp, wdl, fail, fn, fp, fi, fk, 
                                cdl, cv, cwk, objs, adl, single, wm, k, rt, 
                                cnt, rdy, enq, wq, unl, sdl, scn, sct, sldl, 
                                snear, sso, st, pn >>

nc_3_st(self) == /\ pc[self] = "nc_3_st"
                 /\ nww' = [nww EXCEPT ![w[self]][cn[self]] = 0]
                 /\ pc' = [pc EXCEPT ![self] = "nc_4_v"]
                 /\ UNCHANGED << live, notified, exp, par, kids, wts, disc, lk, 
                                 sem, cval, cwaited, cq, clk, nwc, cmu, badmu, 
                                 cz, now, ip, ret, dres, called, dl0, lpar, 
                                 wfor, freeing, badret, vcount, uaf, taint4, 
                                 taint5, taint6, stack, cn, cp, i, klist, w, 
                                 tn, p, dn, nt, xn, xcl, wn, wp, wdl, fail, fn, 
                                 fp, fi, fk, cdl, cv, cwk, objs, adl, single, 
                                 wm, k, rt, cnt, rdy, enq, wq, unl, sdl, scn, 
                                 sct, sldl, snear, sso, st, pn >>

nc_4_v(self) == /\ pc[self] = "nc_4_v"
                /\ sem' = [sem EXCEPT ![w[self]] = sem[w[self]] + 1]
                /\ vcount' = [vcount EXCEPT ![w[self]] = vcount[w[self]] + 1]
                /\ pc' = [pc EXCEPT ![self] = "nc_w_l"]
                /\ UNCHANGED << live, notified, exp, par, kids, wts, disc, lk, 
                                nww, cval, cwaited, cq, clk, nwc, cmu, badmu, 
                                cz, now, ip, ret, dres, called, dl0, lpar, 
                                wfor, freeing, badret, uaf, taint4, taint5, 
                                taint6, stack, cn, cp, i, klist, w, tn, p, dn, 
                                nt, xn, xcl, wn, wp, wdl, fail, fn, fp, fi, fk, 
                                cdl, cv, cwk, objs, adl, single, wm, k, rt, 
                                cnt, rdy, enq, wq, unl, sdl, scn, sct, sldl, 
                                snear, sso, st, pn >>

nc_k_l(self) == /\ pc[self] = "nc_k_l"
                /\ IF i[self] > Len(klist[self])
                      THEN /\ wfor' = [wfor EXCEPT ![self] = cn[self]]
                           /\ pc' = [pc EXCEPT ![self] = "nc_7_r"]
                      ELSE /\ pc' = [pc EXCEPT ![self] = "nc_5_lk"]
                           /\ wfor' = wfor
                /\ UNCHANGED << live, notified, exp, par, kids, wts, disc, lk, 
                                nww, sem, cval, cwaited, cq, clk, nwc, cmu, 
                                badmu, cz, now, ip, ret, dres, called, dl0, 
                                lpar, freeing, badret, vcount, uaf, taint4, 
                                taint5, taint6, stack, cn, cp, i, klist, w, tn, 
                                p, dn, nt, xn, xcl, wn, wp, wdl, fail, fn, fp, 
                                fi, fk, cdl, cv, cwk, objs, adl, single, wm, k, 
                                rt, cnt, rdy, enq, wq, unl, sdl, scn, sct, 
                                sldl, snear, sso, st, pn >>

nc_5_lk(self) == /\ pc[self] = "nc_5_lk"
                 /\ lk[klist[self][i[self]]] = 0
                 /\ lk' = [lk EXCEPT ![klist[self][i[self]]] = self]
                 /\ uaf' = (uaf \/ Touch(klist[self][i[self]]))
                 /\ pc' = [pc EXCEPT ![self] = "nc_5_l"]
                 /\ UNCHANGED << live, notified, exp, par, kids, wts, disc, 
                                 nww, sem, cval, cwaited, cq, clk, nwc, cmu, 
                                 badmu, cz, now, ip, ret, dres, called, dl0, 
                                 lpar, wfor, freeing, badret, vcount, taint4, 
                                 taint5, taint6, stack, cn, cp, i, klist, w, 
                                 tn, p, dn, nt, xn, xcl, wn, wp, wdl, fail, fn, 
                                 fp, fi, fk, cdl, cv, cwk, objs, adl, single, 
                                 wm, k, rt, cnt, rdy, enq, wq, unl, sdl, scn, 
                                 sct, sldl, snear, sso, st, pn >>

nc_5_l(self) == /\ pc[self] = "nc_5_l"
                /\ IF disc[klist[self][i[self]]] = 0
                      THEN /\ /\ cn' = [cn EXCEPT ![self] = klist[self][i[self]]]
                              /\ cp' = [cp EXCEPT ![self] = cn[self]]
                              /\ stack' = [stack EXCEPT ![self] = << [ procedure |->  "notify_child",
                                                                       pc        |->  "nc_6_ul",
                                                                       i         |->  i[self],
                                                                       klist     |->  klist[self],
                                                                       w         |->  w[self],
                                                                       cn        |->  cn[self],
                                                                       cp        |->  cp[self] ] >>
                                                                   \o stack[self]]
                           /\ i' = [i EXCEPT ![self] = 1]
                           /\ klist' = [klist EXCEPT ![self] = <<>>]
                           /\ w' = [w EXCEPT ![self] = 0]
                           /\ pc' = [pc EXCEPT ![self] = "nc_1_ld"]
                      ELSE /\ pc' = [pc EXCEPT ![self] = "nc_6_ul"]
                           /\ UNCHANGED << stack, cn, cp, i, klist, w >>
                /\ UNCHANGED << live, notified, exp, par, kids, wts, disc, lk, 
                                nww, sem, cval, cwaited, cq, clk, nwc, cmu, 
                                badmu, cz, now, ip, ret, dres, called, dl0, 
                                lpar, wfor, freeing, badret, vcount, uaf, 
                                taint4, taint5, taint6, tn, p, dn, nt, xn, xcl, 
                                wn, wp, wdl, fail, fn, fp, fi, fk, cdl, cv, 
                                cwk, objs, adl, single, wm, k, rt, cnt, rdy, 
                                enq, wq, unl, sdl, scn, sct, sldl, snear, sso, 
                                st, pn >>

nc_6_ul(self) == /\ pc[self] = "nc_6_ul"
                 /\ lk' = [lk EXCEPT ![klist[self][i[self]]] = 0]
                 /\ i' = [i EXCEPT ![self] = i[self] + 1]
                 /\ pc' = [pc EXCEPT ![self] = "nc_k_l"]
                 /\ UNCHANGED << live, notified, exp, par, kids, wts, disc, 
                                 nww, sem, cval, cwaited, cq, clk, nwc, cmu, 
                                 badmu, cz, now, ip, ret, dres, called, dl0, 
                                 lpar, wfor, freeing, badret, vcount, uaf, 
                                 taint4, taint5, taint6, stack, cn, cp, klist, 
                                 w, tn, p, dn, nt, xn, xcl, wn, wp, wdl, fail, 
                                 fn, fp, fi, fk, cdl, cv, cwk, objs, adl, 
                                 single, wm, k, rt, cnt, rdy, enq, wq, unl, 
                                 sdl, scn, sct, sldl, snear, sso, st, pn >>

nc_7_r(self) == /\ pc[self] = "nc_7_r"
                /\ IF kids[cn[self]] # <<>>
                      THEN /\ lk' = [lk EXCEPT ![cn[self]] = 0]
                           /\ pc' = [pc EXCEPT ![self] = "nc_8_lk"]
                      ELSE /\ pc' = [pc EXCEPT ![self] = "nc_9_l"]
                           /\ lk' = lk
                /\ UNCHANGED << live, notified, exp, par, kids, wts, disc, nww, 
                                sem, cval, cwaited, cq, clk, nwc, cmu, badmu, 
                                cz, now, ip, ret, dres, called, dl0, lpar, 
                                wfor, freeing, badret, vcount, uaf, taint4, 
                                taint5, taint6, stack, cn, cp, i, klist, w, tn, 
                                p, dn, nt, xn, xcl, wn, wp, wdl, fail, fn, fp, 
                                fi, fk, cdl, cv, cwk, objs, adl, single, wm, k, 
                                rt, cnt, rdy, enq, wq, unl, sdl, scn, sct, 
                                sldl, snear, sso, st, pn >>

nc_8_lk(self) == /\ pc[self] = "nc_8_lk"
                 /\ lk[cn[self]] = 0 /\ kids[cn[self]] = <<>>
                 /\ lk' = [lk EXCEPT ![cn[self]] = self]
                 /\ pc' = [pc EXCEPT ![self] = "nc_9_l"]
                 /\ UNCHANGED << live, notified, exp, par, kids, wts, disc, 
                                 nww, sem, cval, cwaited, cq, clk, nwc, cmu, 
                                 badmu, cz, now, ip, ret, dres, called, dl0, 
                                 lpar, wfor, freeing, badret, vcount, uaf, 
                                 taint4, taint5, taint6, stack, cn, cp, i, 
                                 klist, w, tn, p, dn, nt, xn, xcl, wn, wp, wdl, 
                                 fail, fn, fp, fi, fk, cdl, cv, cwk, objs, adl, 
                                 single, wm, k, rt, cnt, rdy, enq, wq, unl, 
                                 sdl, scn, sct, sldl, snear, sso, st, pn >>

nc_9_l(self) == /\ pc[self] = "nc_9_l"
                /\ IF cp[self] # 0
                      THEN /\ uaf' = (uaf \/ Touch(cp[self]))
                           /\ kids' = [kids EXCEPT ![cp[self]] = Without(kids[cp[self]], cn[self])]
                           /\ par' = [par EXCEPT ![cn[self]] = 0]
                      ELSE /\ TRUE
                           /\ UNCHANGED << par, kids, uaf >>
                /\ wfor' = [wfor EXCEPT ![self] = 0]
                /\ pc' = [pc EXCEPT ![self] = Head(stack[self]).pc]
                /\ i' = [i EXCEPT ![self] = Head(stack[self]).i]
                /\ klist' = [klist EXCEPT ![self] = Head(stack[self]).klist]
                /\ w' = [w EXCEPT ![self] = Head(stack[self]).w]
                /\ cn' = [cn EXCEPT ![self] = Head(stack[self]).cn]
                /\ cp' = [cp EXCEPT ![self] = Head(stack[self]).cp]
                /\ stack' = [stack EXCEPT ![self] = Tail(stack[self])]
                /\ UNCHANGED << live, notified, exp, wts, disc, lk, nww, sem, 
                                cval, cwaited, cq, clk, nwc, cmu, badmu, cz, 
                                now, ip, ret, dres, called, dl0, lpar, freeing, 
                                badret, vcount, taint4, taint5, taint6, tn, p, 
                                dn, nt, xn, xcl, wn, wp, wdl, fail, fn, fp, fi, 
                                fk, cdl, cv, cwk, objs, adl, single, wm, k, rt, 
                                cnt, rdy, enq, wq, unl, sdl, scn, sct, sldl, 
                                snear, sso, st, pn >>

notify_child(self) == nc_1_ld(self) \/ nc_2_st(self) \/ nc_w_l(self)
                         \/ nc_3_st(self) \/ nc_4_v(self) \/ nc_k_l(self)
                         \/ nc_5_lk(self) \/ nc_5_l(self) \/ nc_6_ul(self)
                         \/ nc_7_r(self) \/ nc_8_lk(self) \/ nc_9_l(self)

nt_1_lk(self) == /\ pc[self] = "nt_1_lk"
                 /\ lk[tn[self]] = 0
                 /\ lk' = [lk EXCEPT ![tn[self]] = self]
                 /\ uaf' = (uaf \/ Touch(tn[self]))
                 /\ pc' = [pc EXCEPT ![self] = "nt_2_ld"]
                 /\ UNCHANGED << live, notified, exp, par, kids, wts, disc, 
                                 nww, sem, cval, cwaited, cq, clk, nwc, cmu, 
                                 badmu, cz, now, ip, ret, dres, called, dl0, 
                                 lpar, wfor, freeing, badret, vcount, taint4, 
                                 taint5, taint6, stack, cn, cp, i, klist, w, 
                                 tn, p, dn, nt, xn, xcl, wn, wp, wdl, fail, fn, 
                                 fp, fi, fk, cdl, cv, cwk, objs, adl, single, 
                                 wm, k, rt, cnt, rdy, enq, wq, unl, sdl, scn, 
                                 sct, sldl, snear, sso, st, pn >>

nt_2_ld(self) == /\ pc[self] = "nt_2_ld"
                 /\ IF NTime(tn[self]) = ZERO
                       THEN /\ pc' = [pc EXCEPT ![self] = "nt_8_ul"]
                            /\ UNCHANGED << disc, p >>
                       ELSE /\ disc' = [disc EXCEPT ![tn[self]] = disc[tn[self]] + 1]
                            /\ p' = [p EXCEPT ![self] = par[tn[self]]]
                            /\ pc' = [pc EXCEPT ![self] = "nt_2_l"]
                 /\ UNCHANGED << live, notified, exp, par, kids, wts, lk, nww, 
                                 sem, cval, cwaited, cq, clk, nwc, cmu, badmu, 
                                 cz, now, ip, ret, dres, called, dl0, lpar, 
                                 wfor, freeing, badret, vcount, uaf, taint4, 
                                 taint5, taint6, stack, cn, cp, i, klist, w, 
                                 tn, dn, nt, xn, xcl, wn, wp, wdl, fail, fn, 
                                 fp, fi, fk, cdl, cv, cwk, objs, adl, single, 
                                 wm, k, rt, cnt, rdy, enq, wq, unl, sdl, scn, 
                                 sct, sldl, snear, sso, st, pn >>

nt_2_l(self) == /\ pc[self] = "nt_2_l"
                /\ IF p[self] = 0
                      THEN /\ pc' = [pc EXCEPT ![self] = "nt_7_l"]
                      ELSE /\ pc' = [pc EXCEPT ![self] = "nt_3_r"]
                /\ UNCHANGED << live, notified, exp, par, kids, wts, disc, lk, 
                                nww, sem, cval, cwaited, cq, clk, nwc, cmu, 
                                badmu, cz, now, ip, ret, dres, called, dl0, 
                                lpar, wfor, freeing, badret, vcount, uaf, 
                                taint4, taint5, taint6, stack, cn, cp, i, 
                                klist, w, tn, p, dn, nt, xn, xcl, wn, wp, wdl, 
                                fail, fn, fp, fi, fk, cdl, cv, cwk, objs, adl, 
                                single, wm, k, rt, cnt, rdy, enq, wq, unl, sdl, 
                                scn, sct, sldl, snear, sso, st, pn >>

nt_3_r(self) == /\ pc[self] = "nt_3_r"
                /\ uaf' = (uaf \/ Touch(p[self]))
                /\ IF lk[p[self]] = 0
                      THEN /\ lk' = [lk EXCEPT ![p[self]] = self]
                           /\ pc' = [pc EXCEPT ![self] = "nt_7_l"]
                      ELSE /\ pc' = [pc EXCEPT ![self] = "nt_4_ul"]
                           /\ lk' = lk
                /\ UNCHANGED << live, notified, exp, par, kids, wts, disc, nww, 
                                sem, cval, cwaited, cq, clk, nwc, cmu, badmu, 
                                cz, now, ip, ret, dres, called, dl0, lpar, 
                                wfor, freeing, badret, vcount, taint4, taint5, 
                                taint6, stack, cn, cp, i, klist, w, tn, p, dn, 
                                nt, xn, xcl, wn, wp, wdl, fail, fn, fp, fi, fk, 
                                cdl, cv, cwk, objs, adl, single, wm, k, rt, 
                                cnt, rdy, enq, wq, unl, sdl, scn, sct, sldl, 
                                snear, sso, st, pn >>

nt_4_ul(self) == /\ pc[self] = "nt_4_ul"
                 /\ lk' = [lk EXCEPT ![tn[self]] = 0]
                 /\ pc' = [pc EXCEPT ![self] = "nt_5_lk"]
                 /\ UNCHANGED << live, notified, exp, par, kids, wts, disc, 
                                 nww, sem, cval, cwaited, cq, clk, nwc, cmu, 
                                 badmu, cz, now, ip, ret, dres, called, dl0, 
                                 lpar, wfor, freeing, badret, vcount, uaf, 
                                 taint4, taint5, taint6, stack, cn, cp, i, 
                                 klist, w, tn, p, dn, nt, xn, xcl, wn, wp, wdl, 
                                 fail, fn, fp, fi, fk, cdl, cv, cwk, objs, adl, 
                                 single, wm, k, rt, cnt, rdy, enq, wq, unl, 
                                 sdl, scn, sct, sldl, snear, sso, st, pn >>

nt_5_lk(self) == /\ pc[self] = "nt_5_lk"
                 /\ lk[p[self]] = 0
                 /\ lk' = [lk EXCEPT ![p[self]] = self]
                 /\ uaf' = (uaf \/ Touch(p[self]))
                 /\ taint5' = (taint5 \/ (par[tn[self]] # p[self]))
                 /\ pc' = [pc EXCEPT ![self] = "nt_6_lk"]
                 /\ UNCHANGED << live, notified, exp, par, kids, wts, disc, 
                                 nww, sem, cval, cwaited, cq, clk, nwc, cmu, 
                                 badmu, cz, now, ip, ret, dres, called, dl0, 
                                 lpar, wfor, freeing, badret, vcount, taint4, 
                                 taint6, stack, cn, cp, i, klist, w, tn, p, dn, 
                                 nt, xn, xcl, wn, wp, wdl, fail, fn, fp, fi, 
                                 fk, cdl, cv, cwk, objs, adl, single, wm, k, 
                                 rt, cnt, rdy, enq, wq, unl, sdl, scn, sct, 
                                 sldl, snear, sso, st, pn >>

nt_6_lk(self) == /\ pc[self] = "nt_6_lk"
                 /\ lk[tn[self]] = 0
                 /\ lk' = [lk EXCEPT ![tn[self]] = self]
                 /\ pc' = [pc EXCEPT ![self] = "nt_7_l"]
                 /\ UNCHANGED << live, notified, exp, par, kids, wts, disc, 
                                 nww, sem, cval, cwaited, cq, clk, nwc, cmu, 
                                 badmu, cz, now, ip, ret, dres, called, dl0, 
                                 lpar, wfor, freeing, badret, vcount, uaf, 
                                 taint4, taint5, taint6, stack, cn, cp, i, 
                                 klist, w, tn, p, dn, nt, xn, xcl, wn, wp, wdl, 
                                 fail, fn, fp, fi, fk, cdl, cv, cwk, objs, adl, 
                                 single, wm, k, rt, cnt, rdy, enq, wq, unl, 
                                 sdl, scn, sct, sldl, snear, sso, st, pn >>

nt_7_l(self) == /\ pc[self] = "nt_7_l"
                /\ /\ cn' = [cn EXCEPT ![self] = tn[self]]
                   /\ cp' = [cp EXCEPT ![self] = p[self]]
                   /\ stack' = [stack EXCEPT ![self] = << [ procedure |->  "notify_child",
                                                            pc        |->  "nt_7b_l",
                                                            i         |->  i[self],
                                                            klist     |->  klist[self],
                                                            w         |->  w[self],
                                                            cn        |->  cn[self],
                                                            cp        |->  cp[self] ] >>
                                                        \o stack[self]]
                /\ i' = [i EXCEPT ![self] = 1]
                /\ klist' = [klist EXCEPT ![self] = <<>>]
                /\ w' = [w EXCEPT ![self] = 0]
                /\ pc' = [pc EXCEPT ![self] = "nc_1_ld"]
                /\ UNCHANGED << live, notified, exp, par, kids, wts, disc, lk, 
                                nww, sem, cval, cwaited, cq, clk, nwc, cmu, 
                                badmu, cz, now, ip, ret, dres, called, dl0, 
                                lpar, wfor, freeing, badret, vcount, uaf, 
                                taint4, taint5, taint6, tn, p, dn, nt, xn, xcl, 
                                wn, wp, wdl, fail, fn, fp, fi, fk, cdl, cv, 
                                cwk, objs, adl, single, wm, k, rt, cnt, rdy, 
                                enq, wq, unl, sdl, scn, sct, sldl, snear, sso, 
                                st, pn >>

nt_7b_l(self) == /\ pc[self] = "nt_7b_l"
                 /\ IF p[self] = 0
                       THEN /\ pc' = [pc EXCEPT ![self] = "nt_7c_l"]
                       ELSE /\ pc' = [pc EXCEPT ![self] = "nt_7_ul"]
                 /\ UNCHANGED << live, notified, exp, par, kids, wts, disc, lk, 
                                 nww, sem, cval, cwaited, cq, clk, nwc, cmu, 
                                 badmu, cz, now, ip, ret, dres, called, dl0, 
                                 lpar, wfor, freeing, badret, vcount, uaf, 
                                 taint4, taint5, taint6, stack, cn, cp, i, 
                                 klist, w, tn, p, dn, nt, xn, xcl, wn, wp, wdl, 
                                 fail, fn, fp, fi, fk, cdl, cv, cwk, objs, adl, 
                                 single, wm, k, rt, cnt, rdy, enq, wq, unl, 
                                 sdl, scn, sct, sldl, snear, sso, st, pn >>

nt_7_ul(self) == /\ pc[self] = "nt_7_ul"
                 /\ lk' = [lk EXCEPT ![p[self]] = 0]
                 /\ uaf' = (uaf \/ Touch(p[self]))
                 /\ pc' = [pc EXCEPT ![self] = "nt_7c_l"]
                 /\ UNCHANGED << live, notified, exp, par, kids, wts, disc, 
                                 nww, sem, cval, cwaited, cq, clk, nwc, cmu, 
                                 badmu, cz, now, ip, ret, dres, called, dl0, 
                                 lpar, wfor, freeing, badret, vcount, taint4, 
                                 taint5, taint6, stack, cn, cp, i, klist, w, 
                                 tn, p, dn, nt, xn, xcl, wn, wp, wdl, fail, fn, 
                                 fp, fi, fk, cdl, cv, cwk, objs, adl, single, 
                                 wm, k, rt, cnt, rdy, enq, wq, unl, sdl, scn, 
                                 sct, sldl, snear, sso, st, pn >>

nt_7c_l(self) == /\ pc[self] = "nt_7c_l"
                 /\ disc' = [disc EXCEPT ![tn[self]] = disc[tn[self]] - 1]
                 /\ pc' = [pc EXCEPT ![self] = "nt_8_ul"]
                 /\ UNCHANGED << live, notified, exp, par, kids, wts, lk, nww, 
                                 sem, cval, cwaited, cq, clk, nwc, cmu, badmu, 
                                 cz, now, ip, ret, dres, called, dl0, lpar, 
                                 wfor, freeing, badret, vcount, uaf, taint4, 
                                 taint5, taint6, stack, cn, cp, i, klist, w, 
                                 tn, p, dn, nt, xn, xcl, wn, wp, wdl, fail, fn, 
                                 fp, fi, fk, cdl, cv, cwk, objs, adl, single, 
                                 wm, k, rt, cnt, rdy, enq, wq, unl, sdl, scn, 
                                 sct, sldl, snear, sso, st, pn >>

nt_8_ul(self) == /\ pc[self] = "nt_8_ul"
                 /\ lk' = [lk EXCEPT ![tn[self]] = 0]
                 /\ pc' = [pc EXCEPT ![self] = Head(stack[self]).pc]
                 /\ p' = [p EXCEPT ![self] = Head(stack[self]).p]
                 /\ tn' = [tn EXCEPT ![self] = Head(stack[self]).tn]
                 /\ stack' = [stack EXCEPT ![self] = Tail(stack[self])]
                 /\ UNCHANGED << live, notified, exp, par, kids, wts, disc, 
                                 nww, sem, cval, cwaited, cq, clk, nwc, cmu, 
                                 badmu, cz, now, ip, ret, dres, called, dl0, 
                                 lpar, wfor, freeing, badret, vcount, uaf, 
                                 taint4, taint5, taint6, cn, cp, i, klist, w, 
                                 dn, nt, xn, xcl, wn, wp, wdl, fail, fn, fp, 
                                 fi, fk, cdl, cv, cwk, objs, adl, single, wm, 
                                 k, rt, cnt, rdy, enq, wq, unl, sdl, scn, sct, 
                                 sldl, snear, sso, st, pn >>

notify(self) == nt_1_lk(self) \/ nt_2_ld(self) \/ nt_2_l(self)
                   \/ nt_3_r(self) \/ nt_4_ul(self) \/ nt_5_lk(self)
                   \/ nt_6_lk(self) \/ nt_7_l(self) \/ nt_7b_l(self)
                   \/ nt_7_ul(self) \/ nt_7c_l(self) \/ nt_8_ul(self)

nd_1_ld(self) == /\ pc[self] = "nd_1_ld"
                 /\ uaf' = (uaf \/ Touch(dn[self]))
                 /\ IF notified[dn[self]] # 0
                       THEN /\ dres' = [dres EXCEPT ![self] = ZERO]
                            /\ pc' = [pc EXCEPT ![self] = Head(stack[self]).pc]
                            /\ nt' = [nt EXCEPT ![self] = Head(stack[self]).nt]
                            /\ dn' = [dn EXCEPT ![self] = Head(stack[self]).dn]
                            /\ stack' = [stack EXCEPT ![self] = Tail(stack[self])]
                       ELSE /\ pc' = [pc EXCEPT ![self] = "nd_2_lk"]
                            /\ UNCHANGED << dres, stack, dn, nt >>
                 /\ UNCHANGED << live, notified, exp, par, kids, wts, disc, lk, 
                                 nww, sem, cval, cwaited, cq, clk, nwc, cmu, 
                                 badmu, cz, now, ip, ret, called, dl0, lpar, 
                                 wfor, freeing, badret, vcount, taint4, taint5, 
                                 taint6, cn, cp, i, klist, w, tn, p, xn, xcl, 
                                 wn, wp, wdl, fail, fn, fp, fi, fk, cdl, cv, 
                                 cwk, objs, adl, single, wm, k, rt, cnt, rdy, 
                                 enq, wq, unl, sdl, scn, sct, sldl, snear, sso, 
                                 st, pn >>

nd_2_lk(self) == /\ pc[self] = "nd_2_lk"
                 /\ lk[dn[self]] = 0
                 /\ lk' = [lk EXCEPT ![dn[self]] = self]
                 /\ pc' = [pc EXCEPT ![self] = "nd_3_ld"]
                 /\ UNCHANGED << live, notified, exp, par, kids, wts, disc, 
                                 nww, sem, cval, cwaited, cq, clk, nwc, cmu, 
                                 badmu, cz, now, ip, ret, dres, called, dl0, 
                                 lpar, wfor, freeing, badret, vcount, uaf, 
                                 taint4, taint5, taint6, stack, cn, cp, i, 
                                 klist, w, tn, p, dn, nt, xn, xcl, wn, wp, wdl, 
                                 fail, fn, fp, fi, fk, cdl, cv, cwk, objs, adl, 
                                 single, wm, k, rt, cnt, rdy, enq, wq, unl, 
                                 sdl, scn, sct, sldl, snear, sso, st, pn >>

nd_3_ld(self) == /\ pc[self] = "nd_3_ld"
                 /\ nt' = [nt EXCEPT ![self] = NTime(dn[self])]
                 /\ pc' = [pc EXCEPT ![self] = "nd_4_ul"]
                 /\ UNCHANGED << live, notified, exp, par, kids, wts, disc, lk, 
                                 nww, sem, cval, cwaited, cq, clk, nwc, cmu, 
                                 badmu, cz, now, ip, ret, dres, called, dl0, 
                                 lpar, wfor, freeing, badret, vcount, uaf, 
                                 taint4, taint5, taint6, stack, cn, cp, i, 
                                 klist, w, tn, p, dn, xn, xcl, wn, wp, wdl, 
                                 fail, fn, fp, fi, fk, cdl, cv, cwk, objs, adl, 
                                 single, wm, k, rt, cnt, rdy, enq, wq, unl, 
                                 sdl, scn, sct, sldl, snear, sso, st, pn >>

nd_4_ul(self) == /\ pc[self] = "nd_4_ul"
                 /\ lk' = [lk EXCEPT ![dn[self]] = 0]
                 /\ IF nt[self] > ZERO /\ nt[self] <= now
                       THEN /\ /\ stack' = [stack EXCEPT ![self] = << [ procedure |->  "notify",
                                                                        pc        |->  "nd_5_l",
                                                                        p         |->  p[self],
                                                                        tn        |->  tn[self] ] >>
                                                                    \o stack[self]]
                               /\ tn' = [tn EXCEPT ![self] = dn[self]]
                            /\ p' = [p EXCEPT ![self] = 0]
                            /\ pc' = [pc EXCEPT ![self] = "nt_1_lk"]
                            /\ UNCHANGED << dres, dn, nt >>
                       ELSE /\ dres' = [dres EXCEPT ![self] = nt[self]]
                            /\ pc' = [pc EXCEPT ![self] = Head(stack[self]).pc]
                            /\ nt' = [nt EXCEPT ![self] = Head(stack[self]).nt]
                            /\ dn' = [dn EXCEPT ![self] = Head(stack[self]).dn]
                            /\ stack' = [stack EXCEPT ![self] = Tail(stack[self])]
                            /\ UNCHANGED << tn, p >>
                 /\ UNCHANGED << live, notified, exp, par, kids, wts, disc, 
                                 nww, sem, cval, cwaited, cq, clk, nwc, cmu, 
                                 badmu, cz, now, ip, ret, called, dl0, lpar, 
                                 wfor, freeing, badret, vcount, uaf, taint4, 
                                 taint5, taint6, cn, cp, i, klist, w, xn, xcl, 
                                 wn, wp, wdl, fail, fn, fp, fi, fk, cdl, cv, 
                                 cwk, objs, adl, single, wm, k, rt, cnt, rdy, 
                                 enq, wq, unl, sdl, scn, sct, sldl, snear, sso, 
                                 st, pn >>

nd_5_l(self) == /\ pc[self] = "nd_5_l"
                /\ dres' = [dres EXCEPT ![self] = ZERO]
                /\ pc' = [pc EXCEPT ![self] = Head(stack[self]).pc]
                /\ nt' = [nt EXCEPT ![self] = Head(stack[self]).nt]
                /\ dn' = [dn EXCEPT ![self] = Head(stack[self]).dn]
                /\ stack' = [stack EXCEPT ![self] = Tail(stack[self])]
                /\ UNCHANGED << live, notified, exp, par, kids, wts, disc, lk, 
                                nww, sem, cval, cwaited, cq, clk, nwc, cmu, 
                                badmu, cz, now, ip, ret, called, dl0, lpar, 
                                wfor, freeing, badret, vcount, uaf, taint4, 
                                taint5, taint6, cn, cp, i, klist, w, tn, p, xn, 
                                xcl, wn, wp, wdl, fail, fn, fp, fi, fk, cdl, 
                                cv, cwk, objs, adl, single, wm, k, rt, cnt, 
                                rdy, enq, wq, unl, sdl, scn, sct, sldl, snear, 
                                sso, st, pn >>

ndeadline(self) == nd_1_ld(self) \/ nd_2_lk(self) \/ nd_3_ld(self)
                      \/ nd_4_ul(self) \/ nd_5_l(self)

nx_0_l(self) == /\ pc[self] = "nx_0_l"
                /\ called' = [called EXCEPT ![xn[self]] = called[xn[self]] \/ xcl[self]]
                /\ /\ dn' = [dn EXCEPT ![self] = xn[self]]
                   /\ stack' = [stack EXCEPT ![self] = << [ procedure |->  "ndeadline",
                                                            pc        |->  "nx_1_l",
                                                            nt        |->  nt[self],
                                                            dn        |->  dn[self] ] >>
                                                        \o stack[self]]
                /\ nt' = [nt EXCEPT ![self] = 0]
                /\ pc' = [pc EXCEPT ![self] = "nd_1_ld"]
                /\ UNCHANGED << live, notified, exp, par, kids, wts, disc, lk, 
                                nww, sem, cval, cwaited, cq, clk, nwc, cmu, 
                                badmu, cz, now, ip, ret, dres, dl0, lpar, wfor, 
                                freeing, badret, vcount, uaf, taint4, taint5, 
                                taint6, cn, cp, i, klist, w, tn, p, xn, xcl, 
                                wn, wp, wdl, fail, fn, fp, fi, fk, cdl, cv, 
                                cwk, objs, adl, single, wm, k, rt, cnt, rdy, 
                                enq, wq, unl, sdl, scn, sct, sldl, snear, sso, 
                                st, pn >>

nx_1_l(self) == /\ pc[self] = "nx_1_l"
                /\ IF dres[self] > ZERO
                      THEN /\ /\ stack' = [stack EXCEPT ![self] = << [ procedure |->  "notify",
                                                                       pc        |->  "nx_2_l",
                                                                       p         |->  p[self],
                                                                       tn        |->  tn[self] ] >>
                                                                   \o stack[self]]
                              /\ tn' = [tn EXCEPT ![self] = xn[self]]
                           /\ p' = [p EXCEPT ![self] = 0]
                           /\ pc' = [pc EXCEPT ![self] = "nt_1_lk"]
                      ELSE /\ pc' = [pc EXCEPT ![self] = "nx_2_l"]
                           /\ UNCHANGED << stack, tn, p >>
                /\ UNCHANGED << live, notified, exp, par, kids, wts, disc, lk, 
                                nww, sem, cval, cwaited, cq, clk, nwc, cmu, 
                                badmu, cz, now, ip, ret, dres, called, dl0, 
                                lpar, wfor, freeing, badret, vcount, uaf, 
                                taint4, taint5, taint6, cn, cp, i, klist, w, 
                                dn, nt, xn, xcl, wn, wp, wdl, fail, fn, fp, fi, 
                                fk, cdl, cv, cwk, objs, adl, single, wm, k, rt, 
                                cnt, rdy, enq, wq, unl, sdl, scn, sct, sldl, 
                                snear, sso, st, pn >>

nx_2_l(self) == /\ pc[self] = "nx_2_l"
                /\ IF xcl[self]
                      THEN /\ ret' = [ret EXCEPT ![self] = notified[xn[self]]]
                      ELSE /\ TRUE
                           /\ ret' = ret
                /\ pc' = [pc EXCEPT ![self] = Head(stack[self]).pc]
                /\ xn' = [xn EXCEPT ![self] = Head(stack[self]).xn]
                /\ xcl' = [xcl EXCEPT ![self] = Head(stack[self]).xcl]
                /\ stack' = [stack EXCEPT ![self] = Tail(stack[self])]
                /\ UNCHANGED << live, notified, exp, par, kids, wts, disc, lk, 
                                nww, sem, cval, cwaited, cq, clk, nwc, cmu, 
                                badmu, cz, now, ip, dres, called, dl0, lpar, 
                                wfor, freeing, badret, vcount, uaf, taint4, 
                                taint5, taint6, cn, cp, i, klist, w, tn, p, dn, 
                                nt, wn, wp, wdl, fail, fn, fp, fi, fk, cdl, cv, 
                                cwk, objs, adl, single, wm, k, rt, cnt, rdy, 
                                enq, wq, unl, sdl, scn, sct, sldl, snear, sso, 
                                st, pn >>

nnotify(self) == nx_0_l(self) \/ nx_1_l(self) \/ nx_2_l(self)

nn_0_l(self) == /\ pc[self] = "nn_0_l"
                /\ IF fail[self]
                      THEN /\ ret' = [ret EXCEPT ![self] = 0]
                           /\ pc' = [pc EXCEPT ![self] = Head(stack[self]).pc]
                           /\ wn' = [wn EXCEPT ![self] = Head(stack[self]).wn]
                           /\ wp' = [wp EXCEPT ![self] = Head(stack[self]).wp]
                           /\ wdl' = [wdl EXCEPT ![self] = Head(stack[self]).wdl]
                           /\ fail' = [fail EXCEPT ![self] = Head(stack[self]).fail]
                           /\ stack' = [stack EXCEPT ![self] = Tail(stack[self])]
                           /\ UNCHANGED << live, exp, dl0, lpar >>
                      ELSE /\ live' = [live EXCEPT ![wn[self]] = "new"]
                           /\ exp' = [exp EXCEPT ![wn[self]] = wdl[self]]
                           /\ dl0' = [dl0 EXCEPT ![wn[self]] = wdl[self]]
                           /\ lpar' = [lpar EXCEPT ![wn[self]] = wp[self]]
                           /\ pc' = [pc EXCEPT ![self] = "nn_1_l"]
                           /\ UNCHANGED << ret, stack, wn, wp, wdl, fail >>
                /\ UNCHANGED << notified, par, kids, wts, disc, lk, nww, sem, 
                                cval, cwaited, cq, clk, nwc, cmu, badmu, cz, 
                                now, ip, dres, called, wfor, freeing, badret, 
                                vcount, uaf, taint4, taint5, taint6, cn, cp, i, 
                                klist, w, tn, p, dn, nt, xn, xcl, fn, fp, fi, 
                                fk, cdl, cv, cwk, objs, adl, single, wm, k, rt, 
                                cnt, rdy, enq, wq, unl, sdl, scn, sct, sldl, 
                                snear, sso, st, pn >>

nn_1_l(self) == /\ pc[self] = "nn_1_l"
                /\ /\ dn' = [dn EXCEPT ![self] = wn[self]]
                   /\ stack' = [stack EXCEPT ![self] = << [ procedure |->  "ndeadline",
                                                            pc        |->  "nn_2_l",
                                                            nt        |->  nt[self],
                                                            dn        |->  dn[self] ] >>
                                                        \o stack[self]]
                /\ nt' = [nt EXCEPT ![self] = 0]
                /\ pc' = [pc EXCEPT ![self] = "nd_1_ld"]
                /\ UNCHANGED << live, notified, exp, par, kids, wts, disc, lk, 
                                nww, sem, cval, cwaited, cq, clk, nwc, cmu, 
                                badmu, cz, now, ip, ret, dres, called, dl0, 
                                lpar, wfor, freeing, badret, vcount, uaf, 
                                taint4, taint5, taint6, cn, cp, i, klist, w, 
                                tn, p, xn, xcl, wn, wp, wdl, fail, fn, fp, fi, 
                                fk, cdl, cv, cwk, objs, adl, single, wm, k, rt, 
                                cnt, rdy, enq, wq, unl, sdl, scn, sct, sldl, 
                                snear, sso, st, pn >>

nn_2_l(self) == /\ pc[self] = "nn_2_l"
                /\ IF dres[self] = ZERO \/ wp[self] = 0
                      THEN /\ ret' = [ret EXCEPT ![self] = wn[self]]
                           /\ live' = [live EXCEPT ![wn[self]] = "live"]
                           /\ pc' = [pc EXCEPT ![self] = Head(stack[self]).pc]
                           /\ wn' = [wn EXCEPT ![self] = Head(stack[self]).wn]
                           /\ wp' = [wp EXCEPT ![self] = Head(stack[self]).wp]
                           /\ wdl' = [wdl EXCEPT ![self] = Head(stack[self]).wdl]
                           /\ fail' = [fail EXCEPT ![self] = Head(stack[self]).fail]
                           /\ stack' = [stack EXCEPT ![self] = Tail(stack[self])]
                      ELSE /\ pc' = [pc EXCEPT ![self] = "nn_3_lk"]
                           /\ UNCHANGED << live, ret, stack, wn, wp, wdl, fail >>
                /\ UNCHANGED << notified, exp, par, kids, wts, disc, lk, nww, 
                                sem, cval, cwaited, cq, clk, nwc, cmu, badmu, 
                                cz, now, ip, dres, called, dl0, lpar, wfor, 
                                freeing, badret, vcount, uaf, taint4, taint5, 
                                taint6, cn, cp, i, klist, w, tn, p, dn, nt, xn, 
                                xcl, fn, fp, fi, fk, cdl, cv, cwk, objs, adl, 
                                single, wm, k, rt, cnt, rdy, enq, wq, unl, sdl, 
                                scn, sct, sldl, snear, sso, st, pn >>

nn_3_lk(self) == /\ pc[self] = "nn_3_lk"
                 /\ lk[wp[self]] = 0
                 /\ lk' = [lk EXCEPT ![wp[self]] = self]
                 /\ uaf' = (uaf \/ Touch(wp[self]))
                 /\ pc' = [pc EXCEPT ![self] = "nn_4_ld"]
                 /\ UNCHANGED << live, notified, exp, par, kids, wts, disc, 
                                 nww, sem, cval, cwaited, cq, clk, nwc, cmu, 
                                 badmu, cz, now, ip, ret, dres, called, dl0, 
                                 lpar, wfor, freeing, badret, vcount, taint4, 
                                 taint5, taint6, stack, cn, cp, i, klist, w, 
                                 tn, p, dn, nt, xn, xcl, wn, wp, wdl, fail, fn, 
                                 fp, fi, fk, cdl, cv, cwk, objs, adl, single, 
                                 wm, k, rt, cnt, rdy, enq, wq, unl, sdl, scn, 
                                 sct, sldl, snear, sso, st, pn >>

nn_4_ld(self) == /\ pc[self] = "nn_4_ld"
                 /\ IF NTime(wp[self]) < wdl[self]
                       THEN /\ exp' = [exp EXCEPT ![wn[self]] = NTime(wp[self])]
                       ELSE /\ TRUE
                            /\ exp' = exp
                 /\ IF NTime(wp[self]) > ZERO
                       THEN /\ par' = [par EXCEPT ![wn[self]] = wp[self]]
                            /\ kids' = [kids EXCEPT ![wp[self]] = Append(kids[wp[self]], wn[self])]
                       ELSE /\ TRUE
                            /\ UNCHANGED << par, kids >>
                 /\ pc' = [pc EXCEPT ![self] = "nn_5_ul"]
                 /\ UNCHANGED << live, notified, wts, disc, lk, nww, sem, cval, 
                                 cwaited, cq, clk, nwc, cmu, badmu, cz, now, 
                                 ip, ret, dres, called, dl0, lpar, wfor, 
                                 freeing, badret, vcount, uaf, taint4, taint5, 
                                 taint6, stack, cn, cp, i, klist, w, tn, p, dn, 
                                 nt, xn, xcl, wn, wp, wdl, fail, fn, fp, fi, 
                                 fk, cdl, cv, cwk, objs, adl, single, wm, k, 
                                 rt, cnt, rdy, enq, wq, unl, sdl, scn, sct, 
                                 sldl, snear, sso, st, pn >>

nn_5_ul(self) == /\ pc[self] = "nn_5_ul"
                 /\ lk' = [lk EXCEPT ![wp[self]] = 0]
                 /\ ret' = [ret EXCEPT ![self] = wn[self]]
                 /\ live' = [live EXCEPT ![wn[self]] = "live"]
                 /\ pc' = [pc EXCEPT ![self] = Head(stack[self]).pc]
                 /\ wn' = [wn EXCEPT ![self] = Head(stack[self]).wn]
                 /\ wp' = [wp EXCEPT ![self] = Head(stack[self]).wp]
                 /\ wdl' = [wdl EXCEPT ![self] = Head(stack[self]).wdl]
                 /\ fail' = [fail EXCEPT ![self] = Head(stack[self]).fail]
                 /\ stack' = [stack EXCEPT ![self] = Tail(stack[self])]
                 /\ UNCHANGED << notified, exp, par, kids, wts, disc, nww, sem, 
                                 cval, cwaited, cq, clk, nwc, cmu, badmu, cz, 
                                 now, ip, dres, called, dl0, lpar, wfor, 
                                 freeing, badret, vcount, uaf, taint4, taint5, 
                                 taint6, cn, cp, i, klist, w, tn, p, dn, nt, 
                                 xn, xcl, fn, fp, fi, fk, cdl, cv, cwk, objs, 
                                 adl, single, wm, k, rt, cnt, rdy, enq, wq, 
                                 unl, sdl, scn, sct, sldl, snear, sso, st, pn >>

nnew(self) == nn_0_l(self) \/ nn_1_l(self) \/ nn_2_l(self) \/ nn_3_lk(self)
                 \/ nn_4_ld(self) \/ nn_5_ul(self)

nf_1_lk(self) == /\ pc[self] = "nf_1_lk"
                 /\ lk[fn[self]] = 0
                 /\ lk' = [lk EXCEPT ![fn[self]] = self]
                 /\ disc' = [disc EXCEPT ![fn[self]] = disc[fn[self]] + 1]
                 /\ fp' = [fp EXCEPT ![self] = par[fn[self]]]
                 /\ freeing' = [freeing EXCEPT ![fn[self]] = TRUE]
                 /\ pc' = [pc EXCEPT ![self] = "nf_1_l"]
                 /\ UNCHANGED << live, notified, exp, par, kids, wts, nww, sem, 
                                 cval, cwaited, cq, clk, nwc, cmu, badmu, cz, 
                                 now, ip, ret, dres, called, dl0, lpar, wfor, 
                                 badret, vcount, uaf, taint4, taint5, taint6, 
                                 stack, cn, cp, i, klist, w, tn, p, dn, nt, xn, 
                                 xcl, wn, wp, wdl, fail, fn, fi, fk, cdl, cv, 
                                 cwk, objs, adl, single, wm, k, rt, cnt, rdy, 
                                 enq, wq, unl, sdl, scn, sct, sldl, snear, sso, 
                                 st, pn >>

nf_1_l(self) == /\ pc[self] = "nf_1_l"
                /\ IF fp[self] = 0
                      THEN /\ pc' = [pc EXCEPT ![self] = "nf_5_l"]
                      ELSE /\ pc' = [pc EXCEPT ![self] = "nf_2_r"]
                /\ UNCHANGED << live, notified, exp, par, kids, wts, disc, lk, 
                                nww, sem, cval, cwaited, cq, clk, nwc, cmu, 
                                badmu, cz, now, ip, ret, dres, called, dl0, 
                                lpar, wfor, freeing, badret, vcount, uaf, 
                                taint4, taint5, taint6, stack, cn, cp, i, 
                                klist, w, tn, p, dn, nt, xn, xcl, wn, wp, wdl, 
                                fail, fn, fp, fi, fk, cdl, cv, cwk, objs, adl, 
                                single, wm, k, rt, cnt, rdy, enq, wq, unl, sdl, 
                                scn, sct, sldl, snear, sso, st, pn >>

nf_2_r(self) == /\ pc[self] = "nf_2_r"
                /\ IF lk[fp[self]] = 0
                      THEN /\ lk' = [lk EXCEPT ![fp[self]] = self]
                           /\ pc' = [pc EXCEPT ![self] = "nf_5_l"]
                      ELSE /\ pc' = [pc EXCEPT ![self] = "nf_3_ul"]
                           /\ lk' = lk
                /\ UNCHANGED << live, notified, exp, par, kids, wts, disc, nww, 
                                sem, cval, cwaited, cq, clk, nwc, cmu, badmu, 
                                cz, now, ip, ret, dres, called, dl0, lpar, 
                                wfor, freeing, badret, vcount, uaf, taint4, 
                                taint5, taint6, stack, cn, cp, i, klist, w, tn, 
                                p, dn, nt, xn, xcl, wn, wp, wdl, fail, fn, fp, 
                                fi, fk, cdl, cv, cwk, objs, adl, single, wm, k, 
                                rt, cnt, rdy, enq, wq, unl, sdl, scn, sct, 
                                sldl, snear, sso, st, pn >>

nf_3_ul(self) == /\ pc[self] = "nf_3_ul"
                 /\ lk' = [lk EXCEPT ![fn[self]] = 0]
                 /\ pc' = [pc EXCEPT ![self] = "nf_4_lk"]
                 /\ UNCHANGED << live, notified, exp, par, kids, wts, disc, 
                                 nww, sem, cval, cwaited, cq, clk, nwc, cmu, 
                                 badmu, cz, now, ip, ret, dres, called, dl0, 
                                 lpar, wfor, freeing, badret, vcount, uaf, 
                                 taint4, taint5, taint6, stack, cn, cp, i, 
                                 klist, w, tn, p, dn, nt, xn, xcl, wn, wp, wdl, 
                                 fail, fn, fp, fi, fk, cdl, cv, cwk, objs, adl, 
                                 single, wm, k, rt, cnt, rdy, enq, wq, unl, 
                                 sdl, scn, sct, sldl, snear, sso, st, pn >>

nf_4_lk(self) == /\ pc[self] = "nf_4_lk"
                 /\ lk[fp[self]] = 0
                 /\ lk' = [lk EXCEPT ![fp[self]] = self]
                 /\ uaf' = (uaf \/ Touch(fp[self]))
                 /\ taint6' = (taint6 \/ (par[fn[self]] # fp[self]))
                 /\ pc' = [pc EXCEPT ![self] = "nf_4b_lk"]
                 /\ UNCHANGED << live, notified, exp, par, kids, wts, disc, 
                                 nww, sem, cval, cwaited, cq, clk, nwc, cmu, 
                                 badmu, cz, now, ip, ret, dres, called, dl0, 
                                 lpar, wfor, freeing, badret, vcount, taint4, 
                                 taint5, stack, cn, cp, i, klist, w, tn, p, dn, 
                                 nt, xn, xcl, wn, wp, wdl, fail, fn, fp, fi, 
                                 fk, cdl, cv, cwk, objs, adl, single, wm, k, 
                                 rt, cnt, rdy, enq, wq, unl, sdl, scn, sct, 
                                 sldl, snear, sso, st, pn >>

nf_4b_lk(self) == /\ pc[self] = "nf_4b_lk"
                  /\ lk[fn[self]] = 0
                  /\ lk' = [lk EXCEPT ![fn[self]] = self]
                  /\ pc' = [pc EXCEPT ![self] = "nf_5_l"]
                  /\ UNCHANGED << live, notified, exp, par, kids, wts, disc, 
                                  nww, sem, cval, cwaited, cq, clk, nwc, cmu, 
                                  badmu, cz, now, ip, ret, dres, called, dl0, 
                                  lpar, wfor, freeing, badret, vcount, uaf, 
                                  taint4, taint5, taint6, stack, cn, cp, i, 
                                  klist, w, tn, p, dn, nt, xn, xcl, wn, wp, 
                                  wdl, fail, fn, fp, fi, fk, cdl, cv, cwk, 
                                  objs, adl, single, wm, k, rt, cnt, rdy, enq, 
                                  wq, unl, sdl, scn, sct, sldl, snear, sso, st, 
                                  pn >>

nf_5_l(self) == /\ pc[self] = "nf_5_l"
                /\ fk' = [fk EXCEPT ![self] = kids[fn[self]]]
                /\ fi' = [fi EXCEPT ![self] = 1]
                /\ pc' = [pc EXCEPT ![self] = "nf_k_l"]
                /\ UNCHANGED << live, notified, exp, par, kids, wts, disc, lk, 
                                nww, sem, cval, cwaited, cq, clk, nwc, cmu, 
                                badmu, cz, now, ip, ret, dres, called, dl0, 
                                lpar, wfor, freeing, badret, vcount, uaf, 
                                taint4, taint5, taint6, stack, cn, cp, i, 
                                klist, w, tn, p, dn, nt, xn, xcl, wn, wp, wdl, 
                                fail, fn, fp, cdl, cv, cwk, objs, adl, single, 
                                wm, k, rt, cnt, rdy, enq, wq, unl, sdl, scn, 
                                sct, sldl, snear, sso, st, pn >>

nf_k_l(self) == /\ pc[self] = "nf_k_l"
                /\ IF fi[self] > Len(fk[self])
                      THEN /\ pc' = [pc EXCEPT ![self] = "nf_8_r"]
                      ELSE /\ pc' = [pc EXCEPT ![self] = "nf_6_lk"]
                /\ UNCHANGED << live, notified, exp, par, kids, wts, disc, lk, 
                                nww, sem, cval, cwaited, cq, clk, nwc, cmu, 
                                badmu, cz, now, ip, ret, dres, called, dl0, 
                                lpar, wfor, freeing, badret, vcount, uaf, 
                                taint4, taint5, taint6, stack, cn, cp, i, 
                                klist, w, tn, p, dn, nt, xn, xcl, wn, wp, wdl, 
                                fail, fn, fp, fi, fk, cdl, cv, cwk, objs, adl, 
                                single, wm, k, rt, cnt, rdy, enq, wq, unl, sdl, 
                                scn, sct, sldl, snear, sso, st, pn >>

nf_6_lk(self) == /\ pc[self] = "nf_6_lk"
                 /\ lk[fk[self][fi[self]]] = 0
                 /\ lk' = [lk EXCEPT ![fk[self][fi[self]]] = self]
                 /\ pc' = [pc EXCEPT ![self] = "nf_6_l"]
                 /\ UNCHANGED << live, notified, exp, par, kids, wts, disc, 
                                 nww, sem, cval, cwaited, cq, clk, nwc, cmu, 
                                 badmu, cz, now, ip, ret, dres, called, dl0, 
                                 lpar, wfor, freeing, badret, vcount, uaf, 
                                 taint4, taint5, taint6, stack, cn, cp, i, 
                                 klist, w, tn, p, dn, nt, xn, xcl, wn, wp, wdl, 
                                 fail, fn, fp, fi, fk, cdl, cv, cwk, objs, adl, 
                                 single, wm, k, rt, cnt, rdy, enq, wq, unl, 
                                 sdl, scn, sct, sldl, snear, sso, st, pn >>

nf_6_l(self) == /\ pc[self] = "nf_6_l"
                /\ IF disc[fk[self][fi[self]]] = 0
                      THEN /\ kids' = [x \in Notes |-> IF x = fn[self] THEN Without(kids[fn[self]], fk[self][fi[self]])
                                                        ELSE IF x = fp[self] THEN Append(kids[fp[self]], fk[self][fi[self]]) ELSE kids[x]]
                           /\ par' = [par EXCEPT ![fk[self][fi[self]]] = fp[self]]
                           /\ taint4' = (taint4 \/ (fp[self] # 0 /\ \E u \in Threads : u # self /\ wfor[u] = fp[self]))
                      ELSE /\ TRUE
                           /\ UNCHANGED << par, kids, taint4 >>
                /\ pc' = [pc EXCEPT ![self] = "nf_7_ul"]
                /\ UNCHANGED << live, notified, exp, wts, disc, lk, nww, sem, 
                                cval, cwaited, cq, clk, nwc, cmu, badmu, cz, 
                                now, ip, ret, dres, called, dl0, lpar, wfor, 
                                freeing, badret, vcount, uaf, taint5, taint6, 
                                stack, cn, cp, i, klist, w, tn, p, dn, nt, xn, 
                                xcl, wn, wp, wdl, fail, fn, fp, fi, fk, cdl, 
                                cv, cwk, objs, adl, single, wm, k, rt, cnt, 
                                rdy, enq, wq, unl, sdl, scn, sct, sldl, snear, 
                                sso, st, pn >>

nf_7_ul(self) == /\ pc[self] = "nf_7_ul"
                 /\ lk' = [lk EXCEPT ![fk[self][fi[self]]] = 0]
                 /\ fi' = [fi EXCEPT ![self] = fi[self] + 1]
                 /\ pc' = [pc EXCEPT ![self] = "nf_k_l"]
                 /\ UNCHANGED << live, notified, exp, par, kids, wts, disc, 
                                 nww, sem, cval, cwaited, cq, clk, nwc, cmu, 
                                 badmu, cz, now, ip, ret, dres, called, dl0, 
                                 lpar, wfor, freeing, badret, vcount, uaf, 
                                 taint4, taint5, taint6, stack, cn, cp, i, 
                                 klist, w, tn, p, dn, nt, xn, xcl, wn, wp, wdl, 
                                 fail, fn, fp, fk, cdl, cv, cwk, objs, adl, 
                                 single, wm, k, rt, cnt, rdy, enq, wq, unl, 
                                 sdl, scn, sct, sldl, snear, sso, st, pn >>

nf_8_r(self) == /\ pc[self] = "nf_8_r"
                /\ IF kids[fn[self]] # <<>>
                      THEN /\ lk' = [lk EXCEPT ![fn[self]] = 0]
                           /\ pc' = [pc EXCEPT ![self] = "nf_9_lk"]
                      ELSE /\ pc' = [pc EXCEPT ![self] = "nf_10_l"]
                           /\ lk' = lk
                /\ UNCHANGED << live, notified, exp, par, kids, wts, disc, nww, 
                                sem, cval, cwaited, cq, clk, nwc, cmu, badmu, 
                                cz, now, ip, ret, dres, called, dl0, lpar, 
                                wfor, freeing, badret, vcount, uaf, taint4, 
                                taint5, taint6, stack, cn, cp, i, klist, w, tn, 
                                p, dn, nt, xn, xcl, wn, wp, wdl, fail, fn, fp, 
                                fi, fk, cdl, cv, cwk, objs, adl, single, wm, k, 
                                rt, cnt, rdy, enq, wq, unl, sdl, scn, sct, 
                                sldl, snear, sso, st, pn >>

nf_9_lk(self) == /\ pc[self] = "nf_9_lk"
                 /\ lk[fn[self]] = 0 /\ kids[fn[self]] = <<>>
                 /\ lk' = [lk EXCEPT ![fn[self]] = self]
                 /\ pc' = [pc EXCEPT ![self] = "nf_10_l"]
                 /\ UNCHANGED << live, notified, exp, par, kids, wts, disc, 
                                 nww, sem, cval, cwaited, cq, clk, nwc, cmu, 
                                 badmu, cz, now, ip, ret, dres, called, dl0, 
                                 lpar, wfor, freeing, badret, vcount, uaf, 
                                 taint4, taint5, taint6, stack, cn, cp, i, 
                                 klist, w, tn, p, dn, nt, xn, xcl, wn, wp, wdl, 
                                 fail, fn, fp, fi, fk, cdl, cv, cwk, objs, adl, 
                                 single, wm, k, rt, cnt, rdy, enq, wq, unl, 
                                 sdl, scn, sct, sldl, snear, sso, st, pn >>

nf_10_l(self) == /\ pc[self] = "nf_10_l"
                 /\ IF fp[self] = 0
                       THEN /\ pc' = [pc EXCEPT ![self] = "nf_12_l"]
                            /\ UNCHANGED << par, kids >>
                       ELSE /\ kids' = [kids EXCEPT ![fp[self]] = Without(kids[fp[self]], fn[self])]
                            /\ par' = [par EXCEPT ![fn[self]] = 0]
                            /\ pc' = [pc EXCEPT ![self] = "nf_11_ul"]
                 /\ UNCHANGED << live, notified, exp, wts, disc, lk, nww, sem, 
                                 cval, cwaited, cq, clk, nwc, cmu, badmu, cz, 
                                 now, ip, ret, dres, called, dl0, lpar, wfor, 
                                 freeing, badret, vcount, uaf, taint4, taint5, 
                                 taint6, stack, cn, cp, i, klist, w, tn, p, dn, 
                                 nt, xn, xcl, wn, wp, wdl, fail, fn, fp, fi, 
                                 fk, cdl, cv, cwk, objs, adl, single, wm, k, 
                                 rt, cnt, rdy, enq, wq, unl, sdl, scn, sct, 
                                 sldl, snear, sso, st, pn >>

nf_11_ul(self) == /\ pc[self] = "nf_11_ul"
                  /\ lk' = [lk EXCEPT ![fp[self]] = 0]
                  /\ pc' = [pc EXCEPT ![self] = "nf_12_l"]
                  /\ UNCHANGED << live, notified, exp, par, kids, wts, disc, 
                                  nww, sem, cval, cwaited, cq, clk, nwc, cmu, 
                                  badmu, cz, now, ip, ret, dres, called, dl0, 
                                  lpar, wfor, freeing, badret, vcount, uaf, 
                                  taint4, taint5, taint6, stack, cn, cp, i, 
                                  klist, w, tn, p, dn, nt, xn, xcl, wn, wp, 
                                  wdl, fail, fn, fp, fi, fk, cdl, cv, cwk, 
                                  objs, adl, single, wm, k, rt, cnt, rdy, enq, 
                                  wq, unl, sdl, scn, sct, sldl, snear, sso, st, 
                                  pn >>

nf_12_l(self) == /\ pc[self] = "nf_12_l"
                 /\ disc' = [disc EXCEPT ![fn[self]] = disc[fn[self]] - 1]
                 /\ pc' = [pc EXCEPT ![self] = "nf_13_ul"]
                 /\ UNCHANGED << live, notified, exp, par, kids, wts, lk, nww, 
                                 sem, cval, cwaited, cq, clk, nwc, cmu, badmu, 
                                 cz, now, ip, ret, dres, called, dl0, lpar, 
                                 wfor, freeing, badret, vcount, uaf, taint4, 
                                 taint5, taint6, stack, cn, cp, i, klist, w, 
                                 tn, p, dn, nt, xn, xcl, wn, wp, wdl, fail, fn, 
                                 fp, fi, fk, cdl, cv, cwk, objs, adl, single, 
                                 wm, k, rt, cnt, rdy, enq, wq, unl, sdl, scn, 
                                 sct, sldl, snear, sso, st, pn >>

nf_13_ul(self) == /\ pc[self] = "nf_13_ul"
                  /\ lk' = [lk EXCEPT ![fn[self]] = 0]
                  /\ live' = [live EXCEPT ![fn[self]] = "freed"]
                  /\ called' = [x \in Notes |-> called[x] \/ (lpar[x] = fn[self] /\ (called[fn[self]] \/ (dl0[fn[self]] < NONE /\ dl0[fn[self]] <= now)))]
                  /\ lpar' = [x \in Notes |-> IF lpar[x] = fn[self] THEN lpar[fn[self]] ELSE lpar[x]]
                  /\ ret' = [ret EXCEPT ![self] = 0]
                  /\ pc' = [pc EXCEPT ![self] = Head(stack[self]).pc]
                  /\ fp' = [fp EXCEPT ![self] = Head(stack[self]).fp]
                  /\ fi' = [fi EXCEPT ![self] = Head(stack[self]).fi]
                  /\ fk' = [fk EXCEPT ![self] = Head(stack[self]).fk]
                  /\ fn' = [fn EXCEPT ![self] = Head(stack[self]).fn]
                  /\ stack' = [stack EXCEPT ![self] = Tail(stack[self])]
                  /\ UNCHANGED << notified, exp, par, kids, wts, disc, nww, 
                                  sem, cval, cwaited, cq, clk, nwc, cmu, badmu, 
                                  cz, now, ip, dres, dl0, wfor, freeing, 
                                  badret, vcount, uaf, taint4, taint5, taint6, 
                                  cn, cp, i, klist, w, tn, p, dn, nt, xn, xcl, 
                                  wn, wp, wdl, fail, cdl, cv, cwk, objs, adl, 
                                  single, wm, k, rt, cnt, rdy, enq, wq, unl, 
                                  sdl, scn, sct, sldl, snear, sso, st, pn >>

nfree(self) == nf_1_lk(self) \/ nf_1_l(self) \/ nf_2_r(self)
                  \/ nf_3_ul(self) \/ nf_4_lk(self) \/ nf_4b_lk(self)
                  \/ nf_5_l(self) \/ nf_k_l(self) \/ nf_6_lk(self)
                  \/ nf_6_l(self) \/ nf_7_ul(self) \/ nf_8_r(self)
                  \/ nf_9_lk(self) \/ nf_10_l(self) \/ nf_11_ul(self)
                  \/ nf_12_l(self) \/ nf_13_ul(self)

cr_1_st(self) == /\ pc[self] = "cr_1_st"
                 /\ cwaited' = 1
                 /\ pc' = [pc EXCEPT ![self] = "cr_2_ld"]
                 /\ UNCHANGED << live, notified, exp, par, kids, wts, disc, lk, 
                                 nww, sem, cval, cq, clk, nwc, cmu, badmu, cz, 
                                 now, ip, ret, dres, called, dl0, lpar, wfor, 
                                 freeing, badret, vcount, uaf, taint4, taint5, 
                                 taint6, stack, cn, cp, i, klist, w, tn, p, dn, 
                                 nt, xn, xcl, wn, wp, wdl, fail, fn, fp, fi, 
                                 fk, cdl, cv, cwk, objs, adl, single, wm, k, 
                                 rt, cnt, rdy, enq, wq, unl, sdl, scn, sct, 
                                 sldl, snear, sso, st, pn >>

cr_2_ld(self) == /\ pc[self] = "cr_2_ld"
                 /\ dres' = [dres EXCEPT ![self] = IF cval = 0 THEN ZERO ELSE NONE]
                 /\ pc' = [pc EXCEPT ![self] = Head(stack[self]).pc]
                 /\ stack' = [stack EXCEPT ![self] = Tail(stack[self])]
                 /\ UNCHANGED << live, notified, exp, par, kids, wts, disc, lk, 
                                 nww, sem, cval, cwaited, cq, clk, nwc, cmu, 
                                 badmu, cz, now, ip, ret, called, dl0, lpar, 
                                 wfor, freeing, badret, vcount, uaf, taint4, 
                                 taint5, taint6, cn, cp, i, klist, w, tn, p, 
                                 dn, nt, xn, xcl, wn, wp, wdl, fail, fn, fp, 
                                 fi, fk, cdl, cv, cwk, objs, adl, single, wm, 
                                 k, rt, cnt, rdy, enq, wq, unl, sdl, scn, sct, 
                                 sldl, snear, sso, st, pn >>

cready(self) == cr_1_st(self) \/ cr_2_ld(self)

ca_1_lk(self) == /\ pc[self] = "ca_1_lk"
                 /\ clk = 0
                 /\ clk' = self
                 /\ pc' = [pc EXCEPT ![self] = "ca_2_ld"]
                 /\ UNCHANGED << live, notified, exp, par, kids, wts, disc, lk, 
                                 nww, sem, cval, cwaited, cq, nwc, cmu, badmu, 
                                 cz, now, ip, ret, dres, called, dl0, lpar, 
                                 wfor, freeing, badret, vcount, uaf, taint4, 
                                 taint5, taint6, stack, cn, cp, i, klist, w, 
                                 tn, p, dn, nt, xn, xcl, wn, wp, wdl, fail, fn, 
                                 fp, fi, fk, cdl, cv, cwk, objs, adl, single, 
                                 wm, k, rt, cnt, rdy, enq, wq, unl, sdl, scn, 
                                 sct, sldl, snear, sso, st, pn >>

ca_2_ld(self) == /\ pc[self] = "ca_2_ld"
                 /\ cv' = [cv EXCEPT ![self] = cval]
                 /\ pc' = [pc EXCEPT ![self] = "ca_3_cas"]
                 /\ UNCHANGED << live, notified, exp, par, kids, wts, disc, lk, 
                                 nww, sem, cval, cwaited, cq, clk, nwc, cmu, 
                                 badmu, cz, now, ip, ret, dres, called, dl0, 
                                 lpar, wfor, freeing, badret, vcount, uaf, 
                                 taint4, taint5, taint6, stack, cn, cp, i, 
                                 klist, w, tn, p, dn, nt, xn, xcl, wn, wp, wdl, 
                                 fail, fn, fp, fi, fk, cdl, cwk, objs, adl, 
                                 single, wm, k, rt, cnt, rdy, enq, wq, unl, 
                                 sdl, scn, sct, sldl, snear, sso, st, pn >>

ca_3_cas(self) == /\ pc[self] = "ca_3_cas"
                  /\ IF cval = cv[self]
                        THEN /\ cz' = (cz \/ (cv[self] + cdl[self] = 0))
                             /\ cval' = cv[self] + cdl[self]
                             /\ cv' = [cv EXCEPT ![self] = cv[self] + cdl[self]]
                             /\ pc' = [pc EXCEPT ![self] = "ca_4_l"]
                        ELSE /\ pc' = [pc EXCEPT ![self] = "ca_2_ld"]
                             /\ UNCHANGED << cval, cz, cv >>
                  /\ UNCHANGED << live, notified, exp, par, kids, wts, disc, 
                                  lk, nww, sem, cwaited, cq, clk, nwc, cmu, 
                                  badmu, now, ip, ret, dres, called, dl0, lpar, 
                                  wfor, freeing, badret, vcount, uaf, taint4, 
                                  taint5, taint6, stack, cn, cp, i, klist, w, 
                                  tn, p, dn, nt, xn, xcl, wn, wp, wdl, fail, 
                                  fn, fp, fi, fk, cdl, cwk, objs, adl, single, 
                                  wm, k, rt, cnt, rdy, enq, wq, unl, sdl, scn, 
                                  sct, sldl, snear, sso, st, pn >>

ca_4_l(self) == /\ pc[self] = "ca_4_l"
                /\ IF cdl[self] > 0 /\ cv[self] = cdl[self]
                      THEN /\ pc' = [pc EXCEPT ![self] = "ca_4_ld"]
                      ELSE /\ pc' = [pc EXCEPT ![self] = "ca_5_l"]
                /\ UNCHANGED << live, notified, exp, par, kids, wts, disc, lk, 
                                nww, sem, cval, cwaited, cq, clk, nwc, cmu, 
                                badmu, cz, now, ip, ret, dres, called, dl0, 
                                lpar, wfor, freeing, badret, vcount, uaf, 
                                taint4, taint5, taint6, stack, cn, cp, i, 
                                klist, w, tn, p, dn, nt, xn, xcl, wn, wp, wdl, 
                                fail, fn, fp, fi, fk, cdl, cv, cwk, objs, adl, 
                                single, wm, k, rt, cnt, rdy, enq, wq, unl, sdl, 
                                scn, sct, sldl, snear, sso, st, pn >>

ca_4_ld(self) == /\ pc[self] = "ca_4_ld"
                 /\ Assert(cwaited = 0, 
                           "Failure of assertion at line 223, column 14.")
                 /\ pc' = [pc EXCEPT ![self] = "ca_5_l"]
                 /\ UNCHANGED << live, notified, exp, par, kids, wts, disc, lk, 
                                 nww, sem, cval, cwaited, cq, clk, nwc, cmu, 
                                 badmu, cz, now, ip, ret, dres, called, dl0, 
                                 lpar, wfor, freeing, badret, vcount, uaf, 
                                 taint4, taint5, taint6, stack, cn, cp, i, 
                                 klist, w, tn, p, dn, nt, xn, xcl, wn, wp, wdl, 
                                 fail, fn, fp, fi, fk, cdl, cv, cwk, objs, adl, 
                                 single, wm, k, rt, cnt, rdy, enq, wq, unl, 
                                 sdl, scn, sct, sldl, snear, sso, st, pn >>

ca_5_l(self) == /\ pc[self] = "ca_5_l"
                /\ IF cv[self] # 0 \/ cq = <<>>
                      THEN /\ pc' = [pc EXCEPT ![self] = "ca_7_ul"]
                           /\ UNCHANGED << cq, cwk >>
                      ELSE /\ cwk' = [cwk EXCEPT ![self] = Head(cq)]
                           /\ cq' = Tail(cq)
                           /\ pc' = [pc EXCEPT ![self] = "ca_5_st"]
                /\ UNCHANGED << live, notified, exp, par, kids, wts, disc, lk, 
                                nww, sem, cval, cwaited, clk, nwc, cmu, badmu, 
                                cz, now, ip, ret, dres, called, dl0, lpar, 
                                wfor, freeing, badret, vcount, uaf, taint4, 
                                taint5, taint6, stack, cn, cp, i, klist, w, tn, 
                                p, dn, nt, xn, xcl, wn, wp, wdl, fail, fn, fp, 
                                fi, fk, cdl, cv, objs, adl, single, wm, k, rt, 
                                cnt, rdy, enq, wq, unl, sdl, scn, sct, sldl, 
                                snear, sso, st, pn >>

ca_5_st(self) == /\ pc[self] = "ca_5_st"
                 /\ nwc' = [nwc EXCEPT ![cwk[self]] = 0]
                 /\ pc' = [pc EXCEPT ![self] = "ca_6_v"]
                 /\ UNCHANGED << live, notified, exp, par, kids, wts, disc, lk, 
                                 nww, sem, cval, cwaited, cq, clk, cmu, badmu, 
                                 cz, now, ip, ret, dres, called, dl0, lpar, 
                                 wfor, freeing, badret, vcount, uaf, taint4, 
                                 taint5, taint6, stack, cn, cp, i, klist, w, 
                                 tn, p, dn, nt, xn, xcl, wn, wp, wdl, fail, fn, 
                                 fp, fi, fk, cdl, cv, cwk, objs, adl, single, 
                                 wm, k, rt, cnt, rdy, enq, wq, unl, sdl, scn, 
                                 sct, sldl, snear, sso, st, pn >>

ca_6_v(self) == /\ pc[self] = "ca_6_v"
                /\ sem' = [sem EXCEPT ![cwk[self]] = sem[cwk[self]] + 1]
                /\ vcount' = [vcount EXCEPT ![cwk[self]] = vcount[cwk[self]] + 1]
                /\ pc' = [pc EXCEPT ![self] = "ca_5_l"]
                /\ UNCHANGED << live, notified, exp, par, kids, wts, disc, lk, 
                                nww, cval, cwaited, cq, clk, nwc, cmu, badmu, 
                                cz, now, ip, ret, dres, called, dl0, lpar, 
                                wfor, freeing, badret, uaf, taint4, taint5, 
                                taint6, stack, cn, cp, i, klist, w, tn, p, dn, 
                                nt, xn, xcl, wn, wp, wdl, fail, fn, fp, fi, fk, 
                                cdl, cv, cwk, objs, adl, single, wm, k, rt, 
                                cnt, rdy, enq, wq, unl, sdl, scn, sct, sldl, 
                                snear, sso, st, pn >>

ca_7_ul(self) == /\ pc[self] = "ca_7_ul"
                 /\ clk' = 0
                 /\ ret' = [ret EXCEPT ![self] = cv[self]]
                 /\ pc' = [pc EXCEPT ![self] = Head(stack[self]).pc]
                 /\ cv' = [cv EXCEPT ![self] = Head(stack[self]).cv]
                 /\ cwk' = [cwk EXCEPT ![self] = Head(stack[self]).cwk]
                 /\ cdl' = [cdl EXCEPT ![self] = Head(stack[self]).cdl]
                 /\ stack' = [stack EXCEPT ![self] = Tail(stack[self])]
                 /\ UNCHANGED << live, notified, exp, par, kids, wts, disc, lk, 
                                 nww, sem, cval, cwaited, cq, nwc, cmu, badmu, 
                                 cz, now, ip, dres, called, dl0, lpar, wfor, 
                                 freeing, badret, vcount, uaf, taint4, taint5, 
                                 taint6, cn, cp, i, klist, w, tn, p, dn, nt, 
                                 xn, xcl, wn, wp, wdl, fail, fn, fp, fi, fk, 
                                 objs, adl, single, wm, k, rt, cnt, rdy, enq, 
                                 wq, unl, sdl, scn, sct, sldl, snear, sso, st, 
                                 pn >>

cadd(self) == ca_1_lk(self) \/ ca_2_ld(self) \/ ca_3_cas(self)
                 \/ ca_4_l(self) \/ ca_4_ld(self) \/ ca_5_l(self)
                 \/ ca_5_st(self) \/ ca_6_v(self) \/ ca_7_ul(self)

ws_1_l(self) == /\ pc[self] = "ws_1_l"
                /\ IF k[self] > Len(objs[self])
                      THEN /\ k' = [k EXCEPT ![self] = 1]
                           /\ pc' = [pc EXCEPT ![self] = "we_1_l"]
                           /\ UNCHANGED << stack, dn, nt >>
                      ELSE /\ IF objs[self][k[self]] = CTR
                                 THEN /\ stack' = [stack EXCEPT ![self] = << [ procedure |->  "cready",
                                                                               pc        |->  "ws_2_l" ] >>
                                                                           \o stack[self]]
                                      /\ pc' = [pc EXCEPT ![self] = "cr_1_st"]
                                      /\ UNCHANGED << dn, nt >>
                                 ELSE /\ /\ dn' = [dn EXCEPT ![self] = objs[self][k[self]]]
                                         /\ stack' = [stack EXCEPT ![self] = << [ procedure |->  "ndeadline",
                                                                                  pc        |->  "ws_2_l",
                                                                                  nt        |->  nt[self],
                                                                                  dn        |->  dn[self] ] >>
                                                                              \o stack[self]]
                                      /\ nt' = [nt EXCEPT ![self] = 0]
                                      /\ pc' = [pc EXCEPT ![self] = "nd_1_ld"]
                           /\ k' = k
                /\ UNCHANGED << live, notified, exp, par, kids, wts, disc, lk, 
                                nww, sem, cval, cwaited, cq, clk, nwc, cmu, 
                                badmu, cz, now, ip, ret, dres, called, dl0, 
                                lpar, wfor, freeing, badret, vcount, uaf, 
                                taint4, taint5, taint6, cn, cp, i, klist, w, 
                                tn, p, xn, xcl, wn, wp, wdl, fail, fn, fp, fi, 
                                fk, cdl, cv, cwk, objs, adl, single, wm, rt, 
                                cnt, rdy, enq, wq, unl, sdl, scn, sct, sldl, 
                                snear, sso, st, pn >>

ws_2_l(self) == /\ pc[self] = "ws_2_l"
                /\ IF dres[self] = ZERO
                      THEN /\ ret' = [ret EXCEPT ![self] = IF single[self] THEN 1 ELSE k[self] - 1]
                           /\ pc' = [pc EXCEPT ![self] = Head(stack[self]).pc]
                           /\ k' = [k EXCEPT ![self] = Head(stack[self]).k]
                           /\ rt' = [rt EXCEPT ![self] = Head(stack[self]).rt]
                           /\ cnt' = [cnt EXCEPT ![self] = Head(stack[self]).cnt]
                           /\ rdy' = [rdy EXCEPT ![self] = Head(stack[self]).rdy]
                           /\ enq' = [enq EXCEPT ![self] = Head(stack[self]).enq]
                           /\ wq' = [wq EXCEPT ![self] = Head(stack[self]).wq]
                           /\ unl' = [unl EXCEPT ![self] = Head(stack[self]).unl]
                           /\ objs' = [objs EXCEPT ![self] = Head(stack[self]).objs]
                           /\ adl' = [adl EXCEPT ![self] = Head(stack[self]).adl]
                           /\ single' = [single EXCEPT ![self] = Head(stack[self]).single]
                           /\ wm' = [wm EXCEPT ![self] = Head(stack[self]).wm]
                           /\ stack' = [stack EXCEPT ![self] = Tail(stack[self])]
                      ELSE /\ k' = [k EXCEPT ![self] = k[self] + 1]
                           /\ pc' = [pc EXCEPT ![self] = "ws_1_l"]
                           /\ UNCHANGED << ret, stack, objs, adl, single, wm, 
                                           rt, cnt, rdy, enq, wq, unl >>
                /\ UNCHANGED << live, notified, exp, par, kids, wts, disc, lk, 
                                nww, sem, cval, cwaited, cq, clk, nwc, cmu, 
                                badmu, cz, now, ip, dres, called, dl0, lpar, 
                                wfor, freeing, badret, vcount, uaf, taint4, 
                                taint5, taint6, cn, cp, i, klist, w, tn, p, dn, 
                                nt, xn, xcl, wn, wp, wdl, fail, fn, fp, fi, fk, 
                                cdl, cv, cwk, sdl, scn, sct, sldl, snear, sso, 
                                st, pn >>

we_1_l(self) == /\ pc[self] = "we_1_l"
                /\ IF k[self] > Len(objs[self])
                      THEN /\ pc' = [pc EXCEPT ![self] = "wu_0_l"]
                      ELSE /\ pc' = [pc EXCEPT ![self] = "wn_1_st"]
                /\ UNCHANGED << live, notified, exp, par, kids, wts, disc, lk, 
                                nww, sem, cval, cwaited, cq, clk, nwc, cmu, 
                                badmu, cz, now, ip, ret, dres, called, dl0, 
                                lpar, wfor, freeing, badret, vcount, uaf, 
                                taint4, taint5, taint6, stack, cn, cp, i, 
                                klist, w, tn, p, dn, nt, xn, xcl, wn, wp, wdl, 
                                fail, fn, fp, fi, fk, cdl, cv, cwk, objs, adl, 
                                single, wm, k, rt, cnt, rdy, enq, wq, unl, sdl, 
                                scn, sct, sldl, snear, sso, st, pn >>

wn_1_st(self) == /\ pc[self] = "wn_1_st"
                 /\ IF objs[self][k[self]] = CTR
                       THEN /\ nwc' = [nwc EXCEPT ![self] = 0]
                            /\ pc' = [pc EXCEPT ![self] = "ce_1_lk"]
                            /\ nww' = nww
                       ELSE /\ nww' = [nww EXCEPT ![self][objs[self][k[self]]] = 0]
                            /\ pc' = [pc EXCEPT ![self] = "ne_1_lk"]
                            /\ nwc' = nwc
                 /\ UNCHANGED << live, notified, exp, par, kids, wts, disc, lk, 
                                 sem, cval, cwaited, cq, clk, cmu, badmu, cz, 
                                 now, ip, ret, dres, called, dl0, lpar, wfor, 
                                 freeing, badret, vcount, uaf, taint4, taint5, 
                                 taint6, stack, cn, cp, i, klist, w, tn, p, dn, 
                                 nt, xn, xcl, wn, wp, wdl, fail, fn, fp, fi, 
                                 fk, cdl, cv, cwk, objs, adl, single, wm, k, 
                                 rt, cnt, rdy, enq, wq, unl, sdl, scn, sct, 
                                 sldl, snear, sso, st, pn >>

ne_1_lk(self) == /\ pc[self] = "ne_1_lk"
                 /\ lk[objs[self][k[self]]] = 0
                 /\ lk' = [lk EXCEPT ![objs[self][k[self]]] = self]
                 /\ uaf' = (uaf \/ Touch(objs[self][k[self]]))
                 /\ pc' = [pc EXCEPT ![self] = "ne_2_ld"]
                 /\ UNCHANGED << live, notified, exp, par, kids, wts, disc, 
                                 nww, sem, cval, cwaited, cq, clk, nwc, cmu, 
                                 badmu, cz, now, ip, ret, dres, called, dl0, 
                                 lpar, wfor, freeing, badret, vcount, taint4, 
                                 taint5, taint6, stack, cn, cp, i, klist, w, 
                                 tn, p, dn, nt, xn, xcl, wn, wp, wdl, fail, fn, 
                                 fp, fi, fk, cdl, cv, cwk, objs, adl, single, 
                                 wm, k, rt, cnt, rdy, enq, wq, unl, sdl, scn, 
                                 sct, sldl, snear, sso, st, pn >>

ne_2_ld(self) == /\ pc[self] = "ne_2_ld"
                 /\ enq' = [enq EXCEPT ![self] = NTime(objs[self][k[self]]) > ZERO]
                 /\ IF NTime(objs[self][k[self]]) > ZERO
                       THEN /\ wts' = [wts EXCEPT ![objs[self][k[self]]] = Append(wts[objs[self][k[self]]], self)]
                       ELSE /\ TRUE
                            /\ wts' = wts
                 /\ pc' = [pc EXCEPT ![self] = "ne_3_st"]
                 /\ UNCHANGED << live, notified, exp, par, kids, disc, lk, nww, 
                                 sem, cval, cwaited, cq, clk, nwc, cmu, badmu, 
                                 cz, now, ip, ret, dres, called, dl0, lpar, 
                                 wfor, freeing, badret, vcount, uaf, taint4, 
                                 taint5, taint6, stack, cn, cp, i, klist, w, 
                                 tn, p, dn, nt, xn, xcl, wn, wp, wdl, fail, fn, 
                                 fp, fi, fk, cdl, cv, cwk, objs, adl, single, 
                                 wm, k, rt, cnt, rdy, wq, unl, sdl, scn, sct, 
                                 sldl, snear, sso, st, pn >>

ne_3_st(self) == /\ pc[self] = "ne_3_st"
                 /\ nww' = [nww EXCEPT ![self][objs[self][k[self]]] = IF enq[self] THEN 1 ELSE 0]
                 /\ pc' = [pc EXCEPT ![self] = "ne_4_ul"]
                 /\ UNCHANGED << live, notified, exp, par, kids, wts, disc, lk, 
                                 sem, cval, cwaited, cq, clk, nwc, cmu, badmu, 
                                 cz, now, ip, ret, dres, called, dl0, lpar, 
                                 wfor, freeing, badret, vcount, uaf, taint4, 
                                 taint5, taint6, stack, cn, cp, i, klist, w, 
                                 tn, p, dn, nt, xn, xcl, wn, wp, wdl, fail, fn, 
                                 fp, fi, fk, cdl, cv, cwk, objs, adl, single, 
                                 wm, k, rt, cnt, rdy, enq, wq, unl, sdl, scn, 
                                 sct, sldl, snear, sso, st, pn >>

ne_4_ul(self) == /\ pc[self] = "ne_4_ul"
                 /\ lk' = [lk EXCEPT ![objs[self][k[self]]] = 0]
                 /\ pc' = [pc EXCEPT ![self] = "ne_5_l"]
                 /\ UNCHANGED << live, notified, exp, par, kids, wts, disc, 
                                 nww, sem, cval, cwaited, cq, clk, nwc, cmu, 
                                 badmu, cz, now, ip, ret, dres, called, dl0, 
                                 lpar, wfor, freeing, badret, vcount, uaf, 
                                 taint4, taint5, taint6, stack, cn, cp, i, 
                                 klist, w, tn, p, dn, nt, xn, xcl, wn, wp, wdl, 
                                 fail, fn, fp, fi, fk, cdl, cv, cwk, objs, adl, 
                                 single, wm, k, rt, cnt, rdy, enq, wq, unl, 
                                 sdl, scn, sct, sldl, snear, sso, st, pn >>

ne_5_l(self) == /\ pc[self] = "ne_5_l"
                /\ cnt' = [cnt EXCEPT ![self] = k[self]]
                /\ IF enq[self]
                      THEN /\ k' = [k EXCEPT ![self] = k[self] + 1]
                           /\ pc' = [pc EXCEPT ![self] = "we_1_l"]
                      ELSE /\ IF k[self] = Len(objs[self])
                                 THEN /\ pc' = [pc EXCEPT ![self] = "wu_0_l"]
                                 ELSE /\ pc' = [pc EXCEPT ![self] = "wd_0_l"]
                           /\ k' = k
                /\ UNCHANGED << live, notified, exp, par, kids, wts, disc, lk, 
                                nww, sem, cval, cwaited, cq, clk, nwc, cmu, 
                                badmu, cz, now, ip, ret, dres, called, dl0, 
                                lpar, wfor, freeing, badret, vcount, uaf, 
                                taint4, taint5, taint6, stack, cn, cp, i, 
                                klist, w, tn, p, dn, nt, xn, xcl, wn, wp, wdl, 
                                fail, fn, fp, fi, fk, cdl, cv, cwk, objs, adl, 
                                single, wm, rt, rdy, enq, wq, unl, sdl, scn, 
                                sct, sldl, snear, sso, st, pn >>

ce_1_lk(self) == /\ pc[self] = "ce_1_lk"
                 /\ clk = 0
                 /\ clk' = self
                 /\ pc' = [pc EXCEPT ![self] = "ce_2_ld"]
                 /\ UNCHANGED << live, notified, exp, par, kids, wts, disc, lk, 
                                 nww, sem, cval, cwaited, cq, nwc, cmu, badmu, 
                                 cz, now, ip, ret, dres, called, dl0, lpar, 
                                 wfor, freeing, badret, vcount, uaf, taint4, 
                                 taint5, taint6, stack, cn, cp, i, klist, w, 
                                 tn, p, dn, nt, xn, xcl, wn, wp, wdl, fail, fn, 
                                 fp, fi, fk, cdl, cv, cwk, objs, adl, single, 
                                 wm, k, rt, cnt, rdy, enq, wq, unl, sdl, scn, 
                                 sct, sldl, snear, sso, st, pn >>

ce_2_ld(self) == /\ pc[self] = "ce_2_ld"
                 /\ enq' = [enq EXCEPT ![self] = cval # 0]
                 /\ IF cval # 0
                       THEN /\ cq' = Append(cq, self)
                       ELSE /\ TRUE
                            /\ cq' = cq
                 /\ pc' = [pc EXCEPT ![self] = "ce_3_st"]
                 /\ UNCHANGED << live, notified, exp, par, kids, wts, disc, lk, 
                                 nww, sem, cval, cwaited, clk, nwc, cmu, badmu, 
                                 cz, now, ip, ret, dres, called, dl0, lpar, 
                                 wfor, freeing, badret, vcount, uaf, taint4, 
                                 taint5, taint6, stack, cn, cp, i, klist, w, 
                                 tn, p, dn, nt, xn, xcl, wn, wp, wdl, fail, fn, 
                                 fp, fi, fk, cdl, cv, cwk, objs, adl, single, 
                                 wm, k, rt, cnt, rdy, wq, unl, sdl, scn, sct, 
                                 sldl, snear, sso, st, pn >>

ce_3_st(self) == /\ pc[self] = "ce_3_st"
                 /\ nwc' = [nwc EXCEPT ![self] = IF enq[self] THEN 1 ELSE 0]
                 /\ pc' = [pc EXCEPT ![self] = "ce_4_ul"]
                 /\ UNCHANGED << live, notified, exp, par, kids, wts, disc, lk, 
                                 nww, sem, cval, cwaited, cq, clk, cmu, badmu, 
                                 cz, now, ip, ret, dres, called, dl0, lpar, 
                                 wfor, freeing, badret, vcount, uaf, taint4, 
                                 taint5, taint6, stack, cn, cp, i, klist, w, 
                                 tn, p, dn, nt, xn, xcl, wn, wp, wdl, fail, fn, 
                                 fp, fi, fk, cdl, cv, cwk, objs, adl, single, 
                                 wm, k, rt, cnt, rdy, enq, wq, unl, sdl, scn, 
                                 sct, sldl, snear, sso, st, pn >>

ce_4_ul(self) == /\ pc[self] = "ce_4_ul"
                 /\ clk' = 0
                 /\ pc' = [pc EXCEPT ![self] = "ne_5_l"]
                 /\ UNCHANGED << live, notified, exp, par, kids, wts, disc, lk, 
                                 nww, sem, cval, cwaited, cq, nwc, cmu, badmu, 
                                 cz, now, ip, ret, dres, called, dl0, lpar, 
                                 wfor, freeing, badret, vcount, uaf, taint4, 
                                 taint5, taint6, stack, cn, cp, i, klist, w, 
                                 tn, p, dn, nt, xn, xcl, wn, wp, wdl, fail, fn, 
                                 fp, fi, fk, cdl, cv, cwk, objs, adl, single, 
                                 wm, k, rt, cnt, rdy, enq, wq, unl, sdl, scn, 
                                 sct, sldl, snear, sso, st, pn >>

wu_0_l(self) == /\ pc[self] = "wu_0_l"
                /\ IF ~wm[self]
                      THEN /\ pc' = [pc EXCEPT ![self] = "wl_0_l"]
                      ELSE /\ pc' = [pc EXCEPT ![self] = "wu_1_ul"]
                /\ UNCHANGED << live, notified, exp, par, kids, wts, disc, lk, 
                                nww, sem, cval, cwaited, cq, clk, nwc, cmu, 
                                badmu, cz, now, ip, ret, dres, called, dl0, 
                                lpar, wfor, freeing, badret, vcount, uaf, 
                                taint4, taint5, taint6, stack, cn, cp, i, 
                                klist, w, tn, p, dn, nt, xn, xcl, wn, wp, wdl, 
                                fail, fn, fp, fi, fk, cdl, cv, cwk, objs, adl, 
                                single, wm, k, rt, cnt, rdy, enq, wq, unl, sdl, 
                                scn, sct, sldl, snear, sso, st, pn >>

wu_1_ul(self) == /\ pc[self] = "wu_1_ul"
                 /\ cmu' = 0
                 /\ unl' = [unl EXCEPT ![self] = TRUE]
                 /\ pc' = [pc EXCEPT ![self] = "wl_0_l"]
                 /\ UNCHANGED << live, notified, exp, par, kids, wts, disc, lk, 
                                 nww, sem, cval, cwaited, cq, clk, nwc, badmu, 
                                 cz, now, ip, ret, dres, called, dl0, lpar, 
                                 wfor, freeing, badret, vcount, uaf, taint4, 
                                 taint5, taint6, stack, cn, cp, i, klist, w, 
                                 tn, p, dn, nt, xn, xcl, wn, wp, wdl, fail, fn, 
                                 fp, fi, fk, cdl, cv, cwk, objs, adl, single, 
                                 wm, k, rt, cnt, rdy, enq, wq, sdl, scn, sct, 
                                 sldl, snear, sso, st, pn >>

wl_0_l(self) == /\ pc[self] = "wl_0_l"
                /\ k' = [k EXCEPT ![self] = 1]
                /\ rt' = [rt EXCEPT ![self] = adl[self]]
                /\ pc' = [pc EXCEPT ![self] = "wl_1_l"]
                /\ UNCHANGED << live, notified, exp, par, kids, wts, disc, lk, 
                                nww, sem, cval, cwaited, cq, clk, nwc, cmu, 
                                badmu, cz, now, ip, ret, dres, called, dl0, 
                                lpar, wfor, freeing, badret, vcount, uaf, 
                                taint4, taint5, taint6, stack, cn, cp, i, 
                                klist, w, tn, p, dn, nt, xn, xcl, wn, wp, wdl, 
                                fail, fn, fp, fi, fk, cdl, cv, cwk, objs, adl, 
                                single, wm, cnt, rdy, enq, wq, unl, sdl, scn, 
                                sct, sldl, snear, sso, st, pn >>

wl_1_l(self) == /\ pc[self] = "wl_1_l"
                /\ IF k[self] > Len(objs[self])
                      THEN /\ pc' = [pc EXCEPT ![self] = "wl_3_l"]
                           /\ UNCHANGED << stack, dn, nt >>
                      ELSE /\ IF objs[self][k[self]] = CTR
                                 THEN /\ stack' = [stack EXCEPT ![self] = << [ procedure |->  "cready",
                                                                               pc        |->  "wl_2_l" ] >>
                                                                           \o stack[self]]
                                      /\ pc' = [pc EXCEPT ![self] = "cr_1_st"]
                                      /\ UNCHANGED << dn, nt >>
                                 ELSE /\ /\ dn' = [dn EXCEPT ![self] = objs[self][k[self]]]
                                         /\ stack' = [stack EXCEPT ![self] = << [ procedure |->  "ndeadline",
                                                                                  pc        |->  "wl_2_l",
                                                                                  nt        |->  nt[self],
                                                                                  dn        |->  dn[self] ] >>
                                                                              \o stack[self]]
                                      /\ nt' = [nt EXCEPT ![self] = 0]
                                      /\ pc' = [pc EXCEPT ![self] = "nd_1_ld"]
                /\ UNCHANGED << live, notified, exp, par, kids, wts, disc, lk, 
                                nww, sem, cval, cwaited, cq, clk, nwc, cmu, 
                                badmu, cz, now, ip, ret, dres, called, dl0, 
                                lpar, wfor, freeing, badret, vcount, uaf, 
                                taint4, taint5, taint6, cn, cp, i, klist, w, 
                                tn, p, xn, xcl, wn, wp, wdl, fail, fn, fp, fi, 
                                fk, cdl, cv, cwk, objs, adl, single, wm, k, rt, 
                                cnt, rdy, enq, wq, unl, sdl, scn, sct, sldl, 
                                snear, sso, st, pn >>

wl_2_l(self) == /\ pc[self] = "wl_2_l"
                /\ rt' = [rt EXCEPT ![self] = Min2(rt[self], dres[self])]
                /\ k' = [k EXCEPT ![self] = k[self] + 1]
                /\ pc' = [pc EXCEPT ![self] = "wl_1_l"]
                /\ UNCHANGED << live, notified, exp, par, kids, wts, disc, lk, 
                                nww, sem, cval, cwaited, cq, clk, nwc, cmu, 
                                badmu, cz, now, ip, ret, dres, called, dl0, 
                                lpar, wfor, freeing, badret, vcount, uaf, 
                                taint4, taint5, taint6, stack, cn, cp, i, 
                                klist, w, tn, p, dn, nt, xn, xcl, wn, wp, wdl, 
                                fail, fn, fp, fi, fk, cdl, cv, cwk, objs, adl, 
                                single, wm, cnt, rdy, enq, wq, unl, sdl, scn, 
                                sct, sldl, snear, sso, st, pn >>

wl_3_l(self) == /\ pc[self] = "wl_3_l"
                /\ IF rt[self] = ZERO
                      THEN /\ pc' = [pc EXCEPT ![self] = "wd_0_l"]
                      ELSE /\ pc' = [pc EXCEPT ![self] = "wn_7_pd"]
                /\ UNCHANGED << live, notified, exp, par, kids, wts, disc, lk, 
                                nww, sem, cval, cwaited, cq, clk, nwc, cmu, 
                                badmu, cz, now, ip, ret, dres, called, dl0, 
                                lpar, wfor, freeing, badret, vcount, uaf, 
                                taint4, taint5, taint6, stack, cn, cp, i, 
                                klist, w, tn, p, dn, nt, xn, xcl, wn, wp, wdl, 
                                fail, fn, fp, fi, fk, cdl, cv, cwk, objs, adl, 
                                single, wm, k, rt, cnt, rdy, enq, wq, unl, sdl, 
                                scn, sct, sldl, snear, sso, st, pn >>

wn_7_pd(self) == /\ pc[self] = "wn_7_pd"
                 /\ sem[self] > 0 \/ (rt[self] < NONE /\ now >= rt[self])
                 /\ IF sem[self] > 0
                       THEN /\ sem' = [sem EXCEPT ![self] = sem[self] - 1]
                            /\ pc' = [pc EXCEPT ![self] = "wl_0_l"]
                       ELSE /\ pc' = [pc EXCEPT ![self] = "wd_0_l"]
                            /\ sem' = sem
                 /\ UNCHANGED << live, notified, exp, par, kids, wts, disc, lk, 
                                 nww, cval, cwaited, cq, clk, nwc, cmu, badmu, 
                                 cz, now, ip, ret, dres, called, dl0, lpar, 
                                 wfor, freeing, badret, vcount, uaf, taint4, 
                                 taint5, taint6, stack, cn, cp, i, klist, w, 
                                 tn, p, dn, nt, xn, xcl, wn, wp, wdl, fail, fn, 
                                 fp, fi, fk, cdl, cv, cwk, objs, adl, single, 
                                 wm, k, rt, cnt, rdy, enq, wq, unl, sdl, scn, 
                                 sct, sldl, snear, sso, st, pn >>

wd_0_l(self) == /\ pc[self] = "wd_0_l"
                /\ k' = [k EXCEPT ![self] = 1]
                /\ rdy' = [rdy EXCEPT ![self] = 0]
                /\ pc' = [pc EXCEPT ![self] = "wd_1_l"]
                /\ UNCHANGED << live, notified, exp, par, kids, wts, disc, lk, 
                                nww, sem, cval, cwaited, cq, clk, nwc, cmu, 
                                badmu, cz, now, ip, ret, dres, called, dl0, 
                                lpar, wfor, freeing, badret, vcount, uaf, 
                                taint4, taint5, taint6, stack, cn, cp, i, 
                                klist, w, tn, p, dn, nt, xn, xcl, wn, wp, wdl, 
                                fail, fn, fp, fi, fk, cdl, cv, cwk, objs, adl, 
                                single, wm, rt, cnt, enq, wq, unl, sdl, scn, 
                                sct, sldl, snear, sso, st, pn >>

wd_1_l(self) == /\ pc[self] = "wd_1_l"
                /\ IF k[self] > cnt[self]
                      THEN /\ pc' = [pc EXCEPT ![self] = "wd_8_l"]
                           /\ UNCHANGED << stack, dn, nt >>
                      ELSE /\ IF objs[self][k[self]] = CTR
                                 THEN /\ pc' = [pc EXCEPT ![self] = "cd_1_lk"]
                                      /\ UNCHANGED << stack, dn, nt >>
                                 ELSE /\ /\ dn' = [dn EXCEPT ![self] = objs[self][k[self]]]
                                         /\ stack' = [stack EXCEPT ![self] = << [ procedure |->  "ndeadline",
                                                                                  pc        |->  "nq_2_lk",
                                                                                  nt        |->  nt[self],
                                                                                  dn        |->  dn[self] ] >>
                                                                              \o stack[self]]
                                      /\ nt' = [nt EXCEPT ![self] = 0]
                                      /\ pc' = [pc EXCEPT ![self] = "nd_1_ld"]
                /\ UNCHANGED << live, notified, exp, par, kids, wts, disc, lk, 
                                nww, sem, cval, cwaited, cq, clk, nwc, cmu, 
                                badmu, cz, now, ip, ret, dres, called, dl0, 
                                lpar, wfor, freeing, badret, vcount, uaf, 
                                taint4, taint5, taint6, cn, cp, i, klist, w, 
                                tn, p, xn, xcl, wn, wp, wdl, fail, fn, fp, fi, 
                                fk, cdl, cv, cwk, objs, adl, single, wm, k, rt, 
                                cnt, rdy, enq, wq, unl, sdl, scn, sct, sldl, 
                                snear, sso, st, pn >>

nq_2_lk(self) == /\ pc[self] = "nq_2_lk"
                 /\ lk[objs[self][k[self]]] = 0
                 /\ lk' = [lk EXCEPT ![objs[self][k[self]]] = self]
                 /\ uaf' = (uaf \/ Touch(objs[self][k[self]]))
                 /\ pc' = [pc EXCEPT ![self] = "nq_3_ld"]
                 /\ UNCHANGED << live, notified, exp, par, kids, wts, disc, 
                                 nww, sem, cval, cwaited, cq, clk, nwc, cmu, 
                                 badmu, cz, now, ip, ret, dres, called, dl0, 
                                 lpar, wfor, freeing, badret, vcount, taint4, 
                                 taint5, taint6, stack, cn, cp, i, klist, w, 
                                 tn, p, dn, nt, xn, xcl, wn, wp, wdl, fail, fn, 
                                 fp, fi, fk, cdl, cv, cwk, objs, adl, single, 
                                 wm, k, rt, cnt, rdy, enq, wq, unl, sdl, scn, 
                                 sct, sldl, snear, sso, st, pn >>

nq_3_ld(self) == /\ pc[self] = "nq_3_ld"
                 /\ wq' = [wq EXCEPT ![self] = NTime(objs[self][k[self]]) > ZERO]
                 /\ IF NTime(objs[self][k[self]]) > ZERO
                       THEN /\ wts' = [wts EXCEPT ![objs[self][k[self]]] = Without(wts[objs[self][k[self]]], self)]
                       ELSE /\ TRUE
                            /\ wts' = wts
                 /\ pc' = [pc EXCEPT ![self] = "nq_3_l"]
                 /\ UNCHANGED << live, notified, exp, par, kids, disc, lk, nww, 
                                 sem, cval, cwaited, cq, clk, nwc, cmu, badmu, 
                                 cz, now, ip, ret, dres, called, dl0, lpar, 
                                 wfor, freeing, badret, vcount, uaf, taint4, 
                                 taint5, taint6, stack, cn, cp, i, klist, w, 
                                 tn, p, dn, nt, xn, xcl, wn, wp, wdl, fail, fn, 
                                 fp, fi, fk, cdl, cv, cwk, objs, adl, single, 
                                 wm, k, rt, cnt, rdy, enq, unl, sdl, scn, sct, 
                                 sldl, snear, sso, st, pn >>

nq_3_l(self) == /\ pc[self] = "nq_3_l"
                /\ IF ~wq[self]
                      THEN /\ pc' = [pc EXCEPT ![self] = "nq_5_ul"]
                      ELSE /\ pc' = [pc EXCEPT ![self] = "nq_4_st"]
                /\ UNCHANGED << live, notified, exp, par, kids, wts, disc, lk, 
                                nww, sem, cval, cwaited, cq, clk, nwc, cmu, 
                                badmu, cz, now, ip, ret, dres, called, dl0, 
                                lpar, wfor, freeing, badret, vcount, uaf, 
                                taint4, taint5, taint6, stack, cn, cp, i, 
                                klist, w, tn, p, dn, nt, xn, xcl, wn, wp, wdl, 
                                fail, fn, fp, fi, fk, cdl, cv, cwk, objs, adl, 
                                single, wm, k, rt, cnt, rdy, enq, wq, unl, sdl, 
                                scn, sct, sldl, snear, sso, st, pn >>

nq_4_st(self) == /\ pc[self] = "nq_4_st"
                 /\ nww' = [nww EXCEPT ![self][objs[self][k[self]]] = 0]
                 /\ pc' = [pc EXCEPT ![self] = "nq_5_ul"]
                 /\ UNCHANGED << live, notified, exp, par, kids, wts, disc, lk, 
                                 sem, cval, cwaited, cq, clk, nwc, cmu, badmu, 
                                 cz, now, ip, ret, dres, called, dl0, lpar, 
                                 wfor, freeing, badret, vcount, uaf, taint4, 
                                 taint5, taint6, stack, cn, cp, i, klist, w, 
                                 tn, p, dn, nt, xn, xcl, wn, wp, wdl, fail, fn, 
                                 fp, fi, fk, cdl, cv, cwk, objs, adl, single, 
                                 wm, k, rt, cnt, rdy, enq, wq, unl, sdl, scn, 
                                 sct, sldl, snear, sso, st, pn >>

nq_5_ul(self) == /\ pc[self] = "nq_5_ul"
                 /\ lk' = [lk EXCEPT ![objs[self][k[self]]] = 0]
                 /\ pc' = [pc EXCEPT ![self] = "nq_6_l"]
                 /\ UNCHANGED << live, notified, exp, par, kids, wts, disc, 
                                 nww, sem, cval, cwaited, cq, clk, nwc, cmu, 
                                 badmu, cz, now, ip, ret, dres, called, dl0, 
                                 lpar, wfor, freeing, badret, vcount, uaf, 
                                 taint4, taint5, taint6, stack, cn, cp, i, 
                                 klist, w, tn, p, dn, nt, xn, xcl, wn, wp, wdl, 
                                 fail, fn, fp, fi, fk, cdl, cv, cwk, objs, adl, 
                                 single, wm, k, rt, cnt, rdy, enq, wq, unl, 
                                 sdl, scn, sct, sldl, snear, sso, st, pn >>

nq_6_l(self) == /\ pc[self] = "nq_6_l"
                /\ IF ~wq[self] /\ rdy[self] = 0
                      THEN /\ rdy' = [rdy EXCEPT ![self] = k[self]]
                      ELSE /\ TRUE
                           /\ rdy' = rdy
                /\ k' = [k EXCEPT ![self] = k[self] + 1]
                /\ pc' = [pc EXCEPT ![self] = "wd_1_l"]
                /\ UNCHANGED << live, notified, exp, par, kids, wts, disc, lk, 
                                nww, sem, cval, cwaited, cq, clk, nwc, cmu, 
                                badmu, cz, now, ip, ret, dres, called, dl0, 
                                lpar, wfor, freeing, badret, vcount, uaf, 
                                taint4, taint5, taint6, stack, cn, cp, i, 
                                klist, w, tn, p, dn, nt, xn, xcl, wn, wp, wdl, 
                                fail, fn, fp, fi, fk, cdl, cv, cwk, objs, adl, 
                                single, wm, rt, cnt, enq, wq, unl, sdl, scn, 
                                sct, sldl, snear, sso, st, pn >>

cd_1_lk(self) == /\ pc[self] = "cd_1_lk"
                 /\ clk = 0
                 /\ clk' = self
                 /\ pc' = [pc EXCEPT ![self] = "cd_2_ld"]
                 /\ UNCHANGED << live, notified, exp, par, kids, wts, disc, lk, 
                                 nww, sem, cval, cwaited, cq, nwc, cmu, badmu, 
                                 cz, now, ip, ret, dres, called, dl0, lpar, 
                                 wfor, freeing, badret, vcount, uaf, taint4, 
                                 taint5, taint6, stack, cn, cp, i, klist, w, 
                                 tn, p, dn, nt, xn, xcl, wn, wp, wdl, fail, fn, 
                                 fp, fi, fk, cdl, cv, cwk, objs, adl, single, 
                                 wm, k, rt, cnt, rdy, enq, wq, unl, sdl, scn, 
                                 sct, sldl, snear, sso, st, pn >>

cd_2_ld(self) == /\ pc[self] = "cd_2_ld"
                 /\ wq' = [wq EXCEPT ![self] = cval # 0]
                 /\ pc' = [pc EXCEPT ![self] = "cd_3_ld"]
                 /\ UNCHANGED << live, notified, exp, par, kids, wts, disc, lk, 
                                 nww, sem, cval, cwaited, cq, clk, nwc, cmu, 
                                 badmu, cz, now, ip, ret, dres, called, dl0, 
                                 lpar, wfor, freeing, badret, vcount, uaf, 
                                 taint4, taint5, taint6, stack, cn, cp, i, 
                                 klist, w, tn, p, dn, nt, xn, xcl, wn, wp, wdl, 
                                 fail, fn, fp, fi, fk, cdl, cv, cwk, objs, adl, 
                                 single, wm, k, rt, cnt, rdy, enq, unl, sdl, 
                                 scn, sct, sldl, snear, sso, st, pn >>

cd_3_ld(self) == /\ pc[self] = "cd_3_ld"
                 /\ IF nwc[self] # 0
                       THEN /\ cq' = Without(cq, self)
                            /\ pc' = [pc EXCEPT ![self] = "cd_4_st"]
                       ELSE /\ pc' = [pc EXCEPT ![self] = "cd_5_ul"]
                            /\ cq' = cq
                 /\ UNCHANGED << live, notified, exp, par, kids, wts, disc, lk, 
                                 nww, sem, cval, cwaited, clk, nwc, cmu, badmu, 
                                 cz, now, ip, ret, dres, called, dl0, lpar, 
                                 wfor, freeing, badret, vcount, uaf, taint4, 
                                 taint5, taint6, stack, cn, cp, i, klist, w, 
                                 tn, p, dn, nt, xn, xcl, wn, wp, wdl, fail, fn, 
                                 fp, fi, fk, cdl, cv, cwk, objs, adl, single, 
                                 wm, k, rt, cnt, rdy, enq, wq, unl, sdl, scn, 
                                 sct, sldl, snear, sso, st, pn >>

cd_4_st(self) == /\ pc[self] = "cd_4_st"
                 /\ nwc' = [nwc EXCEPT ![self] = 0]
                 /\ pc' = [pc EXCEPT ![self] = "cd_5_ul"]
                 /\ UNCHANGED << live, notified, exp, par, kids, wts, disc, lk, 
                                 nww, sem, cval, cwaited, cq, clk, cmu, badmu, 
                                 cz, now, ip, ret, dres, called, dl0, lpar, 
                                 wfor, freeing, badret, vcount, uaf, taint4, 
                                 taint5, taint6, stack, cn, cp, i, klist, w, 
                                 tn, p, dn, nt, xn, xcl, wn, wp, wdl, fail, fn, 
                                 fp, fi, fk, cdl, cv, cwk, objs, adl, single, 
                                 wm, k, rt, cnt, rdy, enq, wq, unl, sdl, scn, 
                                 sct, sldl, snear, sso, st, pn >>

cd_5_ul(self) == /\ pc[self] = "cd_5_ul"
                 /\ clk' = 0
                 /\ pc' = [pc EXCEPT ![self] = "nq_6_l"]
                 /\ UNCHANGED << live, notified, exp, par, kids, wts, disc, lk, 
                                 nww, sem, cval, cwaited, cq, nwc, cmu, badmu, 
                                 cz, now, ip, ret, dres, called, dl0, lpar, 
                                 wfor, freeing, badret, vcount, uaf, taint4, 
                                 taint5, taint6, stack, cn, cp, i, klist, w, 
                                 tn, p, dn, nt, xn, xcl, wn, wp, wdl, fail, fn, 
                                 fp, fi, fk, cdl, cv, cwk, objs, adl, single, 
                                 wm, k, rt, cnt, rdy, enq, wq, unl, sdl, scn, 
                                 sct, sldl, snear, sso, st, pn >>

wd_8_l(self) == /\ pc[self] = "wd_8_l"
                /\ IF ~unl[self]
                      THEN /\ pc' = [pc EXCEPT ![self] = "wd_9_l"]
                      ELSE /\ pc' = [pc EXCEPT ![self] = "wu_2_lk"]
                /\ UNCHANGED << live, notified, exp, par, kids, wts, disc, lk, 
                                nww, sem, cval, cwaited, cq, clk, nwc, cmu, 
                                badmu, cz, now, ip, ret, dres, called, dl0, 
                                lpar, wfor, freeing, badret, vcount, uaf, 
                                taint4, taint5, taint6, stack, cn, cp, i, 
                                klist, w, tn, p, dn, nt, xn, xcl, wn, wp, wdl, 
                                fail, fn, fp, fi, fk, cdl, cv, cwk, objs, adl, 
                                single, wm, k, rt, cnt, rdy, enq, wq, unl, sdl, 
                                scn, sct, sldl, snear, sso, st, pn >>

wu_2_lk(self) == /\ pc[self] = "wu_2_lk"
                 /\ cmu = 0
                 /\ cmu' = self
                 /\ pc' = [pc EXCEPT ![self] = "wd_9_l"]
                 /\ UNCHANGED << live, notified, exp, par, kids, wts, disc, lk, 
                                 nww, sem, cval, cwaited, cq, clk, nwc, badmu, 
                                 cz, now, ip, ret, dres, called, dl0, lpar, 
                                 wfor, freeing, badret, vcount, uaf, taint4, 
                                 taint5, taint6, stack, cn, cp, i, klist, w, 
                                 tn, p, dn, nt, xn, xcl, wn, wp, wdl, fail, fn, 
                                 fp, fi, fk, cdl, cv, cwk, objs, adl, single, 
                                 wm, k, rt, cnt, rdy, enq, wq, unl, sdl, scn, 
                                 sct, sldl, snear, sso, st, pn >>

wd_9_l(self) == /\ pc[self] = "wd_9_l"
                /\ badmu' = (badmu \/ (wm[self] /\ cmu # self))
                /\ badret' = (badret \/ (rdy[self] # 0 /\ (IF objs[self][rdy[self]] = CTR THEN ~cz ELSE ~Cause(objs[self][rdy[self]]))) \/ (rdy[self] = 0 /\ ~(adl[self] < NONE /\ adl[self] <= now)))
                /\ ret' = [ret EXCEPT ![self] = IF single[self] THEN (IF rdy[self] = 0 THEN 0 ELSE 1) ELSE (IF rdy[self] = 0 THEN Len(objs[self]) ELSE rdy[self] - 1)]
                /\ pc' = [pc EXCEPT ![self] = Head(stack[self]).pc]
                /\ k' = [k EXCEPT ![self] = Head(stack[self]).k]
                /\ rt' = [rt EXCEPT ![self] = Head(stack[self]).rt]
                /\ cnt' = [cnt EXCEPT ![self] = Head(stack[self]).cnt]
                /\ rdy' = [rdy EXCEPT ![self] = Head(stack[self]).rdy]
                /\ enq' = [enq EXCEPT ![self] = Head(stack[self]).enq]
                /\ wq' = [wq EXCEPT ![self] = Head(stack[self]).wq]
                /\ unl' = [unl EXCEPT ![self] = Head(stack[self]).unl]
                /\ objs' = [objs EXCEPT ![self] = Head(stack[self]).objs]
                /\ adl' = [adl EXCEPT ![self] = Head(stack[self]).adl]
                /\ single' = [single EXCEPT ![self] = Head(stack[self]).single]
                /\ wm' = [wm EXCEPT ![self] = Head(stack[self]).wm]
                /\ stack' = [stack EXCEPT ![self] = Tail(stack[self])]
                /\ UNCHANGED << live, notified, exp, par, kids, wts, disc, lk, 
                                nww, sem, cval, cwaited, cq, clk, nwc, cmu, cz, 
                                now, ip, dres, called, dl0, lpar, wfor, 
                                freeing, vcount, uaf, taint4, taint5, taint6, 
                                cn, cp, i, klist, w, tn, p, dn, nt, xn, xcl, 
                                wn, wp, wdl, fail, fn, fp, fi, fk, cdl, cv, 
                                cwk, sdl, scn, sct, sldl, snear, sso, st, pn >>

nwaitn(self) == ws_1_l(self) \/ ws_2_l(self) \/ we_1_l(self)
                   \/ wn_1_st(self) \/ ne_1_lk(self) \/ ne_2_ld(self)
                   \/ ne_3_st(self) \/ ne_4_ul(self) \/ ne_5_l(self)
                   \/ ce_1_lk(self) \/ ce_2_ld(self) \/ ce_3_st(self)
                   \/ ce_4_ul(self) \/ wu_0_l(self) \/ wu_1_ul(self)
                   \/ wl_0_l(self) \/ wl_1_l(self) \/ wl_2_l(self)
                   \/ wl_3_l(self) \/ wn_7_pd(self) \/ wd_0_l(self)
                   \/ wd_1_l(self) \/ nq_2_lk(self) \/ nq_3_ld(self)
                   \/ nq_3_l(self) \/ nq_4_st(self) \/ nq_5_ul(self)
                   \/ nq_6_l(self) \/ cd_1_lk(self) \/ cd_2_ld(self)
                   \/ cd_3_ld(self) \/ cd_4_st(self) \/ cd_5_ul(self)
                   \/ wd_8_l(self) \/ wu_2_lk(self) \/ wd_9_l(self)

sc_0_l(self) == /\ pc[self] = "sc_0_l"
                /\ IF scn[self] = 0
                      THEN /\ pc' = [pc EXCEPT ![self] = "sc_p_pd"]
                           /\ UNCHANGED << stack, dn, nt >>
                      ELSE /\ /\ dn' = [dn EXCEPT ![self] = scn[self]]
                              /\ stack' = [stack EXCEPT ![self] = << [ procedure |->  "ndeadline",
                                                                       pc        |->  "sc_1_l",
                                                                       nt        |->  nt[self],
                                                                       dn        |->  dn[self] ] >>
                                                                   \o stack[self]]
                           /\ nt' = [nt EXCEPT ![self] = 0]
                           /\ pc' = [pc EXCEPT ![self] = "nd_1_ld"]
                /\ UNCHANGED << live, notified, exp, par, kids, wts, disc, lk, 
                                nww, sem, cval, cwaited, cq, clk, nwc, cmu, 
                                badmu, cz, now, ip, ret, dres, called, dl0, 
                                lpar, wfor, freeing, badret, vcount, uaf, 
                                taint4, taint5, taint6, cn, cp, i, klist, w, 
                                tn, p, xn, xcl, wn, wp, wdl, fail, fn, fp, fi, 
                                fk, cdl, cv, cwk, objs, adl, single, wm, k, rt, 
                                cnt, rdy, enq, wq, unl, sdl, scn, sct, sldl, 
                                snear, sso, st, pn >>

sc_1_l(self) == /\ pc[self] = "sc_1_l"
                /\ IF dres[self] = ZERO
                      THEN /\ sso' = [sso EXCEPT ![self] = ECANCELED]
                           /\ pc' = [pc EXCEPT ![self] = "sc_r_l"]
                      ELSE /\ pc' = [pc EXCEPT ![self] = "sc_2_st"]
                           /\ sso' = sso
                /\ UNCHANGED << live, notified, exp, par, kids, wts, disc, lk, 
                                nww, sem, cval, cwaited, cq, clk, nwc, cmu, 
                                badmu, cz, now, ip, ret, dres, called, dl0, 
                                lpar, wfor, freeing, badret, vcount, uaf, 
                                taint4, taint5, taint6, stack, cn, cp, i, 
                                klist, w, tn, p, dn, nt, xn, xcl, wn, wp, wdl, 
                                fail, fn, fp, fi, fk, cdl, cv, cwk, objs, adl, 
                                single, wm, k, rt, cnt, rdy, enq, wq, unl, sdl, 
                                scn, sct, sldl, snear, st, pn >>

sc_2_st(self) == /\ pc[self] = "sc_2_st"
                 /\ nww' = [nww EXCEPT ![self][scn[self]] = 1]
                 /\ pc' = [pc EXCEPT ![self] = "sc_3_lk"]
                 /\ UNCHANGED << live, notified, exp, par, kids, wts, disc, lk, 
                                 sem, cval, cwaited, cq, clk, nwc, cmu, badmu, 
                                 cz, now, ip, ret, dres, called, dl0, lpar, 
                                 wfor, freeing, badret, vcount, uaf, taint4, 
                                 taint5, taint6, stack, cn, cp, i, klist, w, 
                                 tn, p, dn, nt, xn, xcl, wn, wp, wdl, fail, fn, 
                                 fp, fi, fk, cdl, cv, cwk, objs, adl, single, 
                                 wm, k, rt, cnt, rdy, enq, wq, unl, sdl, scn, 
                                 sct, sldl, snear, sso, st, pn >>

sc_3_lk(self) == /\ pc[self] = "sc_3_lk"
                 /\ lk[scn[self]] = 0
                 /\ lk' = [lk EXCEPT ![scn[self]] = self]
                 /\ uaf' = (uaf \/ Touch(scn[self]))
                 /\ pc' = [pc EXCEPT ![self] = "sc_4_ld"]
                 /\ UNCHANGED << live, notified, exp, par, kids, wts, disc, 
                                 nww, sem, cval, cwaited, cq, clk, nwc, cmu, 
                                 badmu, cz, now, ip, ret, dres, called, dl0, 
                                 lpar, wfor, freeing, badret, vcount, taint4, 
                                 taint5, taint6, stack, cn, cp, i, klist, w, 
                                 tn, p, dn, nt, xn, xcl, wn, wp, wdl, fail, fn, 
                                 fp, fi, fk, cdl, cv, cwk, objs, adl, single, 
                                 wm, k, rt, cnt, rdy, enq, wq, unl, sdl, scn, 
                                 sct, sldl, snear, sso, st, pn >>

sc_4_ld(self) == /\ pc[self] = "sc_4_ld"
                 /\ sct' = [sct EXCEPT ![self] = NTime(scn[self])]
                 /\ IF NTime(scn[self]) > ZERO
                       THEN /\ wts' = [wts EXCEPT ![scn[self]] = Append(wts[scn[self]], self)]
                            /\ sldl' = [sldl EXCEPT ![self] = Min2(NTime(scn[self]), sdl[self])]
                            /\ snear' = [snear EXCEPT ![self] = sdl[self] < NTime(scn[self])]
                            /\ pc' = [pc EXCEPT ![self] = "sc_5_ul"]
                            /\ sso' = sso
                       ELSE /\ sso' = [sso EXCEPT ![self] = ECANCELED]
                            /\ pc' = [pc EXCEPT ![self] = "sc_9_ul"]
                            /\ UNCHANGED << wts, sldl, snear >>
                 /\ UNCHANGED << live, notified, exp, par, kids, disc, lk, nww, 
                                 sem, cval, cwaited, cq, clk, nwc, cmu, badmu, 
                                 cz, now, ip, ret, dres, called, dl0, lpar, 
                                 wfor, freeing, badret, vcount, uaf, taint4, 
                                 taint5, taint6, stack, cn, cp, i, klist, w, 
                                 tn, p, dn, nt, xn, xcl, wn, wp, wdl, fail, fn, 
                                 fp, fi, fk, cdl, cv, cwk, objs, adl, single, 
                                 wm, k, rt, cnt, rdy, enq, wq, unl, sdl, scn, 
                                 st, pn >>

sc_5_ul(self) == /\ pc[self] = "sc_5_ul"
                 /\ lk' = [lk EXCEPT ![scn[self]] = 0]
                 /\ pc' = [pc EXCEPT ![self] = "sc_6_pd"]
                 /\ UNCHANGED << live, notified, exp, par, kids, wts, disc, 
                                 nww, sem, cval, cwaited, cq, clk, nwc, cmu, 
                                 badmu, cz, now, ip, ret, dres, called, dl0, 
                                 lpar, wfor, freeing, badret, vcount, uaf, 
                                 taint4, taint5, taint6, stack, cn, cp, i, 
                                 klist, w, tn, p, dn, nt, xn, xcl, wn, wp, wdl, 
                                 fail, fn, fp, fi, fk, cdl, cv, cwk, objs, adl, 
                                 single, wm, k, rt, cnt, rdy, enq, wq, unl, 
                                 sdl, scn, sct, sldl, snear, sso, st, pn >>

sc_6_pd(self) == /\ pc[self] = "sc_6_pd"
                 /\ sem[self] > 0 \/ (sldl[self] < NONE /\ now >= sldl[self])
                 /\ IF sem[self] > 0
                       THEN /\ sem' = [sem EXCEPT ![self] = sem[self] - 1]
                            /\ sso' = [sso EXCEPT ![self] = 0]
                       ELSE /\ sso' = [sso EXCEPT ![self] = ETIMEDOUT]
                            /\ sem' = sem
                 /\ pc' = [pc EXCEPT ![self] = "sc_6_l"]
                 /\ UNCHANGED << live, notified, exp, par, kids, wts, disc, lk, 
                                 nww, cval, cwaited, cq, clk, nwc, cmu, badmu, 
                                 cz, now, ip, ret, dres, called, dl0, lpar, 
                                 wfor, freeing, badret, vcount, uaf, taint4, 
                                 taint5, taint6, stack, cn, cp, i, klist, w, 
                                 tn, p, dn, nt, xn, xcl, wn, wp, wdl, fail, fn, 
                                 fp, fi, fk, cdl, cv, cwk, objs, adl, single, 
                                 wm, k, rt, cnt, rdy, enq, wq, unl, sdl, scn, 
                                 sct, sldl, snear, st, pn >>

sc_6_l(self) == /\ pc[self] = "sc_6_l"
                /\ IF sso[self] = ETIMEDOUT /\ ~snear[self]
                      THEN /\ sso' = [sso EXCEPT ![self] = ECANCELED]
                           /\ /\ stack' = [stack EXCEPT ![self] = << [ procedure |->  "nnotify",
                                                                       pc        |->  "sc_7_lk",
                                                                       xn        |->  xn[self],
                                                                       xcl       |->  xcl[self] ] >>
                                                                   \o stack[self]]
                              /\ xcl' = [xcl EXCEPT ![self] = FALSE]
                              /\ xn' = [xn EXCEPT ![self] = scn[self]]
                           /\ pc' = [pc EXCEPT ![self] = "nx_0_l"]
                      ELSE /\ pc' = [pc EXCEPT ![self] = "sc_7_lk"]
                           /\ UNCHANGED << stack, xn, xcl, sso >>
                /\ UNCHANGED << live, notified, exp, par, kids, wts, disc, lk, 
                                nww, sem, cval, cwaited, cq, clk, nwc, cmu, 
                                badmu, cz, now, ip, ret, dres, called, dl0, 
                                lpar, wfor, freeing, badret, vcount, uaf, 
                                taint4, taint5, taint6, cn, cp, i, klist, w, 
                                tn, p, dn, nt, wn, wp, wdl, fail, fn, fp, fi, 
                                fk, cdl, cv, cwk, objs, adl, single, wm, k, rt, 
                                cnt, rdy, enq, wq, unl, sdl, scn, sct, sldl, 
                                snear, st, pn >>

sc_7_lk(self) == /\ pc[self] = "sc_7_lk"
                 /\ lk[scn[self]] = 0
                 /\ lk' = [lk EXCEPT ![scn[self]] = self]
                 /\ uaf' = (uaf \/ Touch(scn[self]))
                 /\ pc' = [pc EXCEPT ![self] = "sc_8_ld"]
                 /\ UNCHANGED << live, notified, exp, par, kids, wts, disc, 
                                 nww, sem, cval, cwaited, cq, clk, nwc, cmu, 
                                 badmu, cz, now, ip, ret, dres, called, dl0, 
                                 lpar, wfor, freeing, badret, vcount, taint4, 
                                 taint5, taint6, stack, cn, cp, i, klist, w, 
                                 tn, p, dn, nt, xn, xcl, wn, wp, wdl, fail, fn, 
                                 fp, fi, fk, cdl, cv, cwk, objs, adl, single, 
                                 wm, k, rt, cnt, rdy, enq, wq, unl, sdl, scn, 
                                 sct, sldl, snear, sso, st, pn >>

sc_8_ld(self) == /\ pc[self] = "sc_8_ld"
                 /\ IF NTime(scn[self]) > ZERO
                       THEN /\ wts' = [wts EXCEPT ![scn[self]] = Without(wts[scn[self]], self)]
                       ELSE /\ TRUE
                            /\ wts' = wts
                 /\ pc' = [pc EXCEPT ![self] = "sc_9_ul"]
                 /\ UNCHANGED << live, notified, exp, par, kids, disc, lk, nww, 
                                 sem, cval, cwaited, cq, clk, nwc, cmu, badmu, 
                                 cz, now, ip, ret, dres, called, dl0, lpar, 
                                 wfor, freeing, badret, vcount, uaf, taint4, 
                                 taint5, taint6, stack, cn, cp, i, klist, w, 
                                 tn, p, dn, nt, xn, xcl, wn, wp, wdl, fail, fn, 
                                 fp, fi, fk, cdl, cv, cwk, objs, adl, single, 
                                 wm, k, rt, cnt, rdy, enq, wq, unl, sdl, scn, 
                                 sct, sldl, snear, sso, st, pn >>

sc_9_ul(self) == /\ pc[self] = "sc_9_ul"
                 /\ lk' = [lk EXCEPT ![scn[self]] = 0]
                 /\ pc' = [pc EXCEPT ![self] = "sc_r_l"]
                 /\ UNCHANGED << live, notified, exp, par, kids, wts, disc, 
                                 nww, sem, cval, cwaited, cq, clk, nwc, cmu, 
                                 badmu, cz, now, ip, ret, dres, called, dl0, 
                                 lpar, wfor, freeing, badret, vcount, uaf, 
                                 taint4, taint5, taint6, stack, cn, cp, i, 
                                 klist, w, tn, p, dn, nt, xn, xcl, wn, wp, wdl, 
                                 fail, fn, fp, fi, fk, cdl, cv, cwk, objs, adl, 
                                 single, wm, k, rt, cnt, rdy, enq, wq, unl, 
                                 sdl, scn, sct, sldl, snear, sso, st, pn >>

sc_r_l(self) == /\ pc[self] = "sc_r_l"
                /\ ret' = [ret EXCEPT ![self] = sso[self]]
                /\ IF scn[self] # 0
                      THEN /\ nww' = [nww EXCEPT ![self][scn[self]] = 0]
                      ELSE /\ TRUE
                           /\ nww' = nww
                /\ badret' = (badret \/ (sso[self] = ECANCELED /\ ~Cause(scn[self])) \/ (sso[self] = ETIMEDOUT /\ ~(sdl[self] < NONE /\ sdl[self] <= now)) \/ (sso[self] = 0 /\ vcount[self] = 0))
                /\ IF sso[self] = 0
                      THEN /\ vcount' = [vcount EXCEPT ![self] = vcount[self] - 1]
                      ELSE /\ TRUE
                           /\ UNCHANGED vcount
                /\ pc' = [pc EXCEPT ![self] = Head(stack[self]).pc]
                /\ sct' = [sct EXCEPT ![self] = Head(stack[self]).sct]
                /\ sldl' = [sldl EXCEPT ![self] = Head(stack[self]).sldl]
                /\ snear' = [snear EXCEPT ![self] = Head(stack[self]).snear]
                /\ sso' = [sso EXCEPT ![self] = Head(stack[self]).sso]
                /\ sdl' = [sdl EXCEPT ![self] = Head(stack[self]).sdl]
                /\ scn' = [scn EXCEPT ![self] = Head(stack[self]).scn]
                /\ stack' = [stack EXCEPT ![self] = Tail(stack[self])]
                /\ UNCHANGED << live, notified, exp, par, kids, wts, disc, lk, 
                                sem, cval, cwaited, cq, clk, nwc, cmu, badmu, 
                                cz, now, ip, dres, called, dl0, lpar, wfor, 
                                freeing, uaf, taint4, taint5, taint6, cn, cp, 
                                i, klist, w, tn, p, dn, nt, xn, xcl, wn, wp, 
                                wdl, fail, fn, fp, fi, fk, cdl, cv, cwk, objs, 
                                adl, single, wm, k, rt, cnt, rdy, enq, wq, unl, 
                                st, pn >>

sc_p_pd(self) == /\ pc[self] = "sc_p_pd"
                 /\ sem[self] > 0 \/ (sdl[self] < NONE /\ now >= sdl[self])
                 /\ IF sem[self] > 0
                       THEN /\ sem' = [sem EXCEPT ![self] = sem[self] - 1]
                            /\ sso' = [sso EXCEPT ![self] = 0]
                       ELSE /\ sso' = [sso EXCEPT ![self] = ETIMEDOUT]
                            /\ sem' = sem
                 /\ pc' = [pc EXCEPT ![self] = "sc_r_l"]
                 /\ UNCHANGED << live, notified, exp, par, kids, wts, disc, lk, 
                                 nww, cval, cwaited, cq, clk, nwc, cmu, badmu, 
                                 cz, now, ip, ret, dres, called, dl0, lpar, 
                                 wfor, freeing, badret, vcount, uaf, taint4, 
                                 taint5, taint6, stack, cn, cp, i, klist, w, 
                                 tn, p, dn, nt, xn, xcl, wn, wp, wdl, fail, fn, 
                                 fp, fi, fk, cdl, cv, cwk, objs, adl, single, 
                                 wm, k, rt, cnt, rdy, enq, wq, unl, sdl, scn, 
                                 sct, sldl, snear, st, pn >>

swc(self) == sc_0_l(self) \/ sc_1_l(self) \/ sc_2_st(self) \/ sc_3_lk(self)
                \/ sc_4_ld(self) \/ sc_5_ul(self) \/ sc_6_pd(self)
                \/ sc_6_l(self) \/ sc_7_lk(self) \/ sc_8_ld(self)
                \/ sc_9_ul(self) \/ sc_r_l(self) \/ sc_p_pd(self)

sv_1_v(self) == /\ pc[self] = "sv_1_v"
                /\ sem' = [sem EXCEPT ![st[self]] = sem[st[self]] + 1]
                /\ vcount' = [vcount EXCEPT ![st[self]] = vcount[st[self]] + 1]
                /\ ret' = [ret EXCEPT ![self] = 0]
                /\ pc' = [pc EXCEPT ![self] = Head(stack[self]).pc]
                /\ st' = [st EXCEPT ![self] = Head(stack[self]).st]
                /\ stack' = [stack EXCEPT ![self] = Tail(stack[self])]
                /\ UNCHANGED << live, notified, exp, par, kids, wts, disc, lk, 
                                nww, cval, cwaited, cq, clk, nwc, cmu, badmu, 
                                cz, now, ip, dres, called, dl0, lpar, wfor, 
                                freeing, badret, uaf, taint4, taint5, taint6, 
                                cn, cp, i, klist, w, tn, p, dn, nt, xn, xcl, 
                                wn, wp, wdl, fail, fn, fp, fi, fk, cdl, cv, 
                                cwk, objs, adl, single, wm, k, rt, cnt, rdy, 
                                enq, wq, unl, sdl, scn, sct, sldl, snear, sso, 
                                pn >>

semv(self) == sv_1_v(self)

ml_1_lk(self) == /\ pc[self] = "ml_1_lk"
                 /\ cmu = 0
                 /\ cmu' = self
                 /\ ret' = [ret EXCEPT ![self] = 0]
                 /\ pc' = [pc EXCEPT ![self] = Head(stack[self]).pc]
                 /\ stack' = [stack EXCEPT ![self] = Tail(stack[self])]
                 /\ UNCHANGED << live, notified, exp, par, kids, wts, disc, lk, 
                                 nww, sem, cval, cwaited, cq, clk, nwc, badmu, 
                                 cz, now, ip, dres, called, dl0, lpar, wfor, 
                                 freeing, badret, vcount, uaf, taint4, taint5, 
                                 taint6, cn, cp, i, klist, w, tn, p, dn, nt, 
                                 xn, xcl, wn, wp, wdl, fail, fn, fp, fi, fk, 
                                 cdl, cv, cwk, objs, adl, single, wm, k, rt, 
                                 cnt, rdy, enq, wq, unl, sdl, scn, sct, sldl, 
                                 snear, sso, st, pn >>

mlock(self) == ml_1_lk(self)

ml_2_ul(self) == /\ pc[self] = "ml_2_ul"
                 /\ cmu' = 0
                 /\ ret' = [ret EXCEPT ![self] = 0]
                 /\ pc' = [pc EXCEPT ![self] = Head(stack[self]).pc]
                 /\ stack' = [stack EXCEPT ![self] = Tail(stack[self])]
                 /\ UNCHANGED << live, notified, exp, par, kids, wts, disc, lk, 
                                 nww, sem, cval, cwaited, cq, clk, nwc, badmu, 
                                 cz, now, ip, dres, called, dl0, lpar, wfor, 
                                 freeing, badret, vcount, uaf, taint4, taint5, 
                                 taint6, cn, cp, i, klist, w, tn, p, dn, nt, 
                                 xn, xcl, wn, wp, wdl, fail, fn, fp, fi, fk, 
                                 cdl, cv, cwk, objs, adl, single, wm, k, rt, 
                                 cnt, rdy, enq, wq, unl, sdl, scn, sct, sldl, 
                                 snear, sso, st, pn >>

munlock(self) == ml_2_ul(self)

np_0_l(self) == /\ pc[self] = "np_0_l"
                /\ /\ dn' = [dn EXCEPT ![self] = pn[self]]
                   /\ stack' = [stack EXCEPT ![self] = << [ procedure |->  "ndeadline",
                                                            pc        |->  "np_1_l",
                                                            nt        |->  nt[self],
                                                            dn        |->  dn[self] ] >>
                                                        \o stack[self]]
                /\ nt' = [nt EXCEPT ![self] = 0]
                /\ pc' = [pc EXCEPT ![self] = "nd_1_ld"]
                /\ UNCHANGED << live, notified, exp, par, kids, wts, disc, lk, 
                                nww, sem, cval, cwaited, cq, clk, nwc, cmu, 
                                badmu, cz, now, ip, ret, dres, called, dl0, 
                                lpar, wfor, freeing, badret, vcount, uaf, 
                                taint4, taint5, taint6, cn, cp, i, klist, w, 
                                tn, p, xn, xcl, wn, wp, wdl, fail, fn, fp, fi, 
                                fk, cdl, cv, cwk, objs, adl, single, wm, k, rt, 
                                cnt, rdy, enq, wq, unl, sdl, scn, sct, sldl, 
                                snear, sso, st, pn >>

np_1_l(self) == /\ pc[self] = "np_1_l"
                /\ ret' = [ret EXCEPT ![self] = IF dres[self] = ZERO THEN 1 ELSE 0]
                /\ pc' = [pc EXCEPT ![self] = Head(stack[self]).pc]
                /\ pn' = [pn EXCEPT ![self] = Head(stack[self]).pn]
                /\ stack' = [stack EXCEPT ![self] = Tail(stack[self])]
                /\ UNCHANGED << live, notified, exp, par, kids, wts, disc, lk, 
                                nww, sem, cval, cwaited, cq, clk, nwc, cmu, 
                                badmu, cz, now, ip, dres, called, dl0, lpar, 
                                wfor, freeing, badret, vcount, uaf, taint4, 
                                taint5, taint6, cn, cp, i, klist, w, tn, p, dn, 
                                nt, xn, xcl, wn, wp, wdl, fail, fn, fp, fi, fk, 
                                cdl, cv, cwk, objs, adl, single, wm, k, rt, 
                                cnt, rdy, enq, wq, unl, sdl, scn, sct, sldl, 
                                snear, sso, st >>

npoll(self) == np_0_l(self) \/ np_1_l(self)

c0(self) == /\ pc[self] = "c0"
            /\ IF ip[self] <= Len(Prog[self])
                  THEN /\ IF CurOp(self).op = "notify"
                             THEN /\ ip' = [ip EXCEPT ![self] = ip[self] + 1]
                                  /\ /\ stack' = [stack EXCEPT ![self] = << [ procedure |->  "nnotify",
                                                                              pc        |->  "c0",
                                                                              xn        |->  xn[self],
                                                                              xcl       |->  xcl[self] ] >>
                                                                          \o stack[self]]
                                     /\ xcl' = [xcl EXCEPT ![self] = TRUE]
                                     /\ xn' = [xn EXCEPT ![self] = CurOp(self).a]
                                  /\ pc' = [pc EXCEPT ![self] = "nx_0_l"]
                                  /\ UNCHANGED << wn, wp, wdl, fail, fn, fp, 
                                                  fi, fk, cdl, cv, cwk, objs, 
                                                  adl, single, wm, k, rt, cnt, 
                                                  rdy, enq, wq, unl, sdl, scn, 
                                                  sct, sldl, snear, sso, st, 
                                                  pn >>
                             ELSE /\ IF CurOp(self).op = "poll"
                                        THEN /\ ip' = [ip EXCEPT ![self] = ip[self] + 1]
                                             /\ /\ pn' = [pn EXCEPT ![self] = CurOp(self).a]
                                                /\ stack' = [stack EXCEPT ![self] = << [ procedure |->  "npoll",
                                                                                         pc        |->  "c0",
                                                                                         pn        |->  pn[self] ] >>
                                                                                     \o stack[self]]
                                             /\ pc' = [pc EXCEPT ![self] = "np_0_l"]
                                             /\ UNCHANGED << wn, wp, wdl, fail, 
                                                             fn, fp, fi, fk, 
                                                             cdl, cv, cwk, 
                                                             objs, adl, single, 
                                                             wm, k, rt, cnt, 
                                                             rdy, enq, wq, unl, 
                                                             sdl, scn, sct, 
                                                             sldl, snear, sso, 
                                                             st >>
                                        ELSE /\ IF CurOp(self).op = "new"
                                                   THEN /\ ip' = [ip EXCEPT ![self] = ip[self] + 1]
                                                        /\ /\ fail' = [fail EXCEPT ![self] = CurOp(self).x = 1]
                                                           /\ stack' = [stack EXCEPT ![self] = << [ procedure |->  "nnew",
                                                                                                    pc        |->  "c0",
                                                                                                    wn        |->  wn[self],
                                                                                                    wp        |->  wp[self],
                                                                                                    wdl       |->  wdl[self],
                                                                                                    fail      |->  fail[self] ] >>
                                                                                                \o stack[self]]
                                                           /\ wdl' = [wdl EXCEPT ![self] = CurOp(self).dl]
                                                           /\ wn' = [wn EXCEPT ![self] = CurOp(self).a]
                                                           /\ wp' = [wp EXCEPT ![self] = CurOp(self).b]
                                                        /\ pc' = [pc EXCEPT ![self] = "nn_0_l"]
                                                        /\ UNCHANGED << fn, fp, 
                                                                        fi, fk, 
                                                                        cdl, 
                                                                        cv, 
                                                                        cwk, 
                                                                        objs, 
                                                                        adl, 
                                                                        single, 
                                                                        wm, k, 
                                                                        rt, 
                                                                        cnt, 
                                                                        rdy, 
                                                                        enq, 
                                                                        wq, 
                                                                        unl, 
                                                                        sdl, 
                                                                        scn, 
                                                                        sct, 
                                                                        sldl, 
                                                                        snear, 
                                                                        sso, 
                                                                        st >>
                                                   ELSE /\ IF CurOp(self).op = "free"
                                                              THEN /\ ip' = [ip EXCEPT ![self] = ip[self] + 1]
                                                                   /\ /\ fn' = [fn EXCEPT ![self] = CurOp(self).a]
                                                                      /\ stack' = [stack EXCEPT ![self] = << [ procedure |->  "nfree",
                                                                                                               pc        |->  "c0",
                                                                                                               fp        |->  fp[self],
                                                                                                               fi        |->  fi[self],
                                                                                                               fk        |->  fk[self],
                                                                                                               fn        |->  fn[self] ] >>
                                                                                                           \o stack[self]]
                                                                   /\ fp' = [fp EXCEPT ![self] = 0]
                                                                   /\ fi' = [fi EXCEPT ![self] = 1]
                                                                   /\ fk' = [fk EXCEPT ![self] = <<>>]
                                                                   /\ pc' = [pc EXCEPT ![self] = "nf_1_lk"]
                                                                   /\ UNCHANGED << cdl, 
                                                                                   cv, 
                                                                                   cwk, 
                                                                                   objs, 
                                                                                   adl, 
                                                                                   single, 
                                                                                   wm, 
                                                                                   k, 
                                                                                   rt, 
                                                                                   cnt, 
                                                                                   rdy, 
                                                                                   enq, 
                                                                                   wq, 
                                                                                   unl, 
                                                                                   sdl, 
                                                                                   scn, 
                                                                                   sct, 
                                                                                   sldl, 
                                                                                   snear, 
                                                                                   sso, 
                                                                                   st >>
                                                              ELSE /\ IF CurOp(self).op = "wait"
                                                                         THEN /\ ip' = [ip EXCEPT ![self] = ip[self] + 1]
                                                                              /\ /\ adl' = [adl EXCEPT ![self] = CurOp(self).dl]
                                                                                 /\ objs' = [objs EXCEPT ![self] = <<CurOp(self).a>>]
                                                                                 /\ single' = [single EXCEPT ![self] = TRUE]
                                                                                 /\ stack' = [stack EXCEPT ![self] = << [ procedure |->  "nwaitn",
                                                                                                                          pc        |->  "c0",
                                                                                                                          k         |->  k[self],
                                                                                                                          rt        |->  rt[self],
                                                                                                                          cnt       |->  cnt[self],
                                                                                                                          rdy       |->  rdy[self],
                                                                                                                          enq       |->  enq[self],
                                                                                                                          wq        |->  wq[self],
                                                                                                                          unl       |->  unl[self],
                                                                                                                          objs      |->  objs[self],
                                                                                                                          adl       |->  adl[self],
                                                                                                                          single    |->  single[self],
                                                                                                                          wm        |->  wm[self] ] >>
                                                                                                                      \o stack[self]]
                                                                                 /\ wm' = [wm EXCEPT ![self] = FALSE]
                                                                              /\ k' = [k EXCEPT ![self] = 1]
                                                                              /\ rt' = [rt EXCEPT ![self] = 0]
                                                                              /\ cnt' = [cnt EXCEPT ![self] = 0]
                                                                              /\ rdy' = [rdy EXCEPT ![self] = 0]
                                                                              /\ enq' = [enq EXCEPT ![self] = FALSE]
                                                                              /\ wq' = [wq EXCEPT ![self] = FALSE]
                                                                              /\ unl' = [unl EXCEPT ![self] = FALSE]
                                                                              /\ pc' = [pc EXCEPT ![self] = "ws_1_l"]
                                                                              /\ UNCHANGED << cdl, 
                                                                                              cv, 
                                                                                              cwk, 
                                                                                              sdl, 
                                                                                              scn, 
                                                                                              sct, 
                                                                                              sldl, 
                                                                                              snear, 
                                                                                              sso, 
                                                                                              st >>
                                                                         ELSE /\ IF CurOp(self).op = "waitn"
                                                                                    THEN /\ ip' = [ip EXCEPT ![self] = ip[self] + 1]
                                                                                         /\ /\ adl' = [adl EXCEPT ![self] = CurOp(self).dl]
                                                                                            /\ objs' = [objs EXCEPT ![self] = CurOp(self).objs]
                                                                                            /\ single' = [single EXCEPT ![self] = FALSE]
                                                                                            /\ stack' = [stack EXCEPT ![self] = << [ procedure |->  "nwaitn",
                                                                                                                                     pc        |->  "c0",
                                                                                                                                     k         |->  k[self],
                                                                                                                                     rt        |->  rt[self],
                                                                                                                                     cnt       |->  cnt[self],
                                                                                                                                     rdy       |->  rdy[self],
                                                                                                                                     enq       |->  enq[self],
                                                                                                                                     wq        |->  wq[self],
                                                                                                                                     unl       |->  unl[self],
                                                                                                                                     objs      |->  objs[self],
                                                                                                                                     adl       |->  adl[self],
                                                                                                                                     single    |->  single[self],
                                                                                                                                     wm        |->  wm[self] ] >>
                                                                                                                                 \o stack[self]]
                                                                                            /\ wm' = [wm EXCEPT ![self] = CurOp(self).x = 2]
                                                                                         /\ k' = [k EXCEPT ![self] = 1]
                                                                                         /\ rt' = [rt EXCEPT ![self] = 0]
                                                                                         /\ cnt' = [cnt EXCEPT ![self] = 0]
                                                                                         /\ rdy' = [rdy EXCEPT ![self] = 0]
                                                                                         /\ enq' = [enq EXCEPT ![self] = FALSE]
                                                                                         /\ wq' = [wq EXCEPT ![self] = FALSE]
                                                                                         /\ unl' = [unl EXCEPT ![self] = FALSE]
                                                                                         /\ pc' = [pc EXCEPT ![self] = "ws_1_l"]
                                                                                         /\ UNCHANGED << cdl, 
                                                                                                         cv, 
                                                                                                         cwk, 
                                                                                                         sdl, 
                                                                                                         scn, 
                                                                                                         sct, 
                                                                                                         sldl, 
                                                                                                         snear, 
                                                                                                         sso, 
                                                                                                         st >>
                                                                                    ELSE /\ IF CurOp(self).op = "mlock"
                                                                                               THEN /\ ip' = [ip EXCEPT ![self] = ip[self] + 1]
                                                                                                    /\ stack' = [stack EXCEPT ![self] = << [ procedure |->  "mlock",
                                                                                                                                             pc        |->  "c0" ] >>
                                                                                                                                         \o stack[self]]
                                                                                                    /\ pc' = [pc EXCEPT ![self] = "ml_1_lk"]
                                                                                                    /\ UNCHANGED << cdl, 
                                                                                                                    cv, 
                                                                                                                    cwk, 
                                                                                                                    sdl, 
                                                                                                                    scn, 
                                                                                                                    sct, 
                                                                                                                    sldl, 
                                                                                                                    snear, 
                                                                                                                    sso, 
                                                                                                                    st >>
                                                                                               ELSE /\ IF CurOp(self).op = "munlock"
                                                                                                          THEN /\ ip' = [ip EXCEPT ![self] = ip[self] + 1]
                                                                                                               /\ stack' = [stack EXCEPT ![self] = << [ procedure |->  "munlock",
                                                                                                                                                        pc        |->  "c0" ] >>
                                                                                                                                                    \o stack[self]]
                                                                                                               /\ pc' = [pc EXCEPT ![self] = "ml_2_ul"]
                                                                                                               /\ UNCHANGED << cdl, 
                                                                                                                               cv, 
                                                                                                                               cwk, 
                                                                                                                               sdl, 
                                                                                                                               scn, 
                                                                                                                               sct, 
                                                                                                                               sldl, 
                                                                                                                               snear, 
                                                                                                                               sso, 
                                                                                                                               st >>
                                                                                                          ELSE /\ IF CurOp(self).op = "cadd"
                                                                                                                     THEN /\ ip' = [ip EXCEPT ![self] = ip[self] + 1]
                                                                                                                          /\ /\ cdl' = [cdl EXCEPT ![self] = CurOp(self).a]
                                                                                                                             /\ stack' = [stack EXCEPT ![self] = << [ procedure |->  "cadd",
                                                                                                                                                                      pc        |->  "c0",
                                                                                                                                                                      cv        |->  cv[self],
                                                                                                                                                                      cwk       |->  cwk[self],
                                                                                                                                                                      cdl       |->  cdl[self] ] >>
                                                                                                                                                                  \o stack[self]]
                                                                                                                          /\ cv' = [cv EXCEPT ![self] = 0]
                                                                                                                          /\ cwk' = [cwk EXCEPT ![self] = 0]
                                                                                                                          /\ pc' = [pc EXCEPT ![self] = "ca_1_lk"]
                                                                                                                          /\ UNCHANGED << sdl, 
                                                                                                                                          scn, 
                                                                                                                                          sct, 
                                                                                                                                          sldl, 
                                                                                                                                          snear, 
                                                                                                                                          sso, 
                                                                                                                                          st >>
                                                                                                                     ELSE /\ IF CurOp(self).op = "swc"
                                                                                                                                THEN /\ ip' = [ip EXCEPT ![self] = ip[self] + 1]
                                                                                                                                     /\ /\ scn' = [scn EXCEPT ![self] = CurOp(self).a]
                                                                                                                                        /\ sdl' = [sdl EXCEPT ![self] = CurOp(self).dl]
                                                                                                                                        /\ stack' = [stack EXCEPT ![self] = << [ procedure |->  "swc",
                                                                                                                                                                                 pc        |->  "c0",
                                                                                                                                                                                 sct       |->  sct[self],
                                                                                                                                                                                 sldl      |->  sldl[self],
                                                                                                                                                                                 snear     |->  snear[self],
                                                                                                                                                                                 sso       |->  sso[self],
                                                                                                                                                                                 sdl       |->  sdl[self],
                                                                                                                                                                                 scn       |->  scn[self] ] >>
                                                                                                                                                                             \o stack[self]]
                                                                                                                                     /\ sct' = [sct EXCEPT ![self] = 0]
                                                                                                                                     /\ sldl' = [sldl EXCEPT ![self] = 0]
                                                                                                                                     /\ snear' = [snear EXCEPT ![self] = FALSE]
                                                                                                                                     /\ sso' = [sso EXCEPT ![self] = 0]
                                                                                                                                     /\ pc' = [pc EXCEPT ![self] = "sc_0_l"]
                                                                                                                                     /\ st' = st
                                                                                                                                ELSE /\ IF CurOp(self).op = "semv"
                                                                                                                                           THEN /\ ip' = [ip EXCEPT ![self] = ip[self] + 1]
                                                                                                                                                /\ /\ st' = [st EXCEPT ![self] = CurOp(self).a]
                                                                                                                                                   /\ stack' = [stack EXCEPT ![self] = << [ procedure |->  "semv",
                                                                                                                                                                                            pc        |->  "c0",
                                                                                                                                                                                            st        |->  st[self] ] >>
                                                                                                                                                                                        \o stack[self]]
                                                                                                                                                /\ pc' = [pc EXCEPT ![self] = "sv_1_v"]
                                                                                                                                           ELSE /\ ip' = [ip EXCEPT ![self] = ip[self] + 1]
                                                                                                                                                /\ pc' = [pc EXCEPT ![self] = "c0"]
                                                                                                                                                /\ UNCHANGED << stack, 
                                                                                                                                                                st >>
                                                                                                                                     /\ UNCHANGED << sdl, 
                                                                                                                                                     scn, 
                                                                                                                                                     sct, 
                                                                                                                                                     sldl, 
                                                                                                                                                     snear, 
                                                                                                                                                     sso >>
                                                                                                                          /\ UNCHANGED << cdl, 
                                                                                                                                          cv, 
                                                                                                                                          cwk >>
                                                                                         /\ UNCHANGED << objs, 
                                                                                                         adl, 
                                                                                                         single, 
                                                                                                         wm, 
                                                                                                         k, 
                                                                                                         rt, 
                                                                                                         cnt, 
                                                                                                         rdy, 
                                                                                                         enq, 
                                                                                                         wq, 
                                                                                                         unl >>
                                                                   /\ UNCHANGED << fn, 
                                                                                   fp, 
                                                                                   fi, 
                                                                                   fk >>
                                                        /\ UNCHANGED << wn, wp, 
                                                                        wdl, 
                                                                        fail >>
                                             /\ pn' = pn
                                  /\ UNCHANGED << xn, xcl >>
                  ELSE /\ pc' = [pc EXCEPT ![self] = "Done"]
                       /\ UNCHANGED << ip, stack, xn, xcl, wn, wp, wdl, fail, 
                                       fn, fp, fi, fk, cdl, cv, cwk, objs, adl, 
                                       single, wm, k, rt, cnt, rdy, enq, wq, 
                                       unl, sdl, scn, sct, sldl, snear, sso, 
                                       st, pn >>
            /\ UNCHANGED << live, notified, exp, par, kids, wts, disc, lk, nww, 
                            sem, cval, cwaited, cq, clk, nwc, cmu, badmu, cz, 
                            now, ret, dres, called, dl0, lpar, wfor, freeing, 
                            badret, vcount, uaf, taint4, taint5, taint6, cn, 
                            cp, i, klist, w, tn, p, dn, nt >>

thr(self) == c0(self)

(* Allow infinite stuttering to prevent deadlock on termination. *)
Terminating == /\ \A self \in ProcSet: pc[self] = "Done"
               /\ UNCHANGED vars

Next == (\E self \in ProcSet:  \/ notify_child(self) \/ notify(self)
                               \/ ndeadline(self) \/ nnotify(self)
                               \/ nnew(self) \/ nfree(self) \/ cready(self)
                               \/ cadd(self) \/ nwaitn(self) \/ swc(self)
                               \/ semv(self) \/ mlock(self) \/ munlock(self)
                               \/ npoll(self))
           \/ (\E self \in Threads: thr(self))
           \/ Terminating

Spec == Init /\ [][Next]_vars

Termination == <>(\A self \in ProcSet: pc[self] = "Done")

\* END TRANSLATION

LocalLabels == {"ca_4_l", "ca_5_l", "nc_5_l", "nc_9_l", "nc_k_l", "nc_w_l", "nd_5_l", "ne_5_l", "nf_10_l", "nf_12_l", "nf_1_l", "nf_5_l", "nf_6_l", "nf_k_l", "nn_0_l", "nn_1_l", "nn_2_l", "np_0_l", "np_1_l", "nq_3_l", "nq_6_l", "nt_2_l", "nt_7_l", "nt_7b_l", "nt_7c_l", "nx_0_l", "nx_1_l", "nx_2_l", "sc_0_l", "sc_1_l", "sc_6_l", "sc_r_l", "wd_0_l", "wd_1_l", "wd_8_l", "wd_9_l", "we_1_l", "wl_0_l", "wl_1_l", "wl_2_l", "wl_3_l", "ws_1_l", "ws_2_l", "wu_0_l"}
Step(self) == notify_child(self) \/ notify(self) \/ ndeadline(self) \/ nnotify(self) \/ nnew(self) \/ nfree(self) \/ cready(self) \/ cadd(self) \/ mlock(self) \/ munlock(self) \/ nwaitn(self) \/ swc(self) \/ semv(self) \/ npoll(self) \/ thr(self)
\* the clock matters to a sleeper with a deadline still ahead, and to notes whose own expiry is ahead (lazy expiry at the next poll)
TickUseful == \/ \E u \in Threads : pc[u] = "wn_7_pd" /\ rt[u] < NONE /\ rt[u] > now
              \/ \E u \in Threads : pc[u] = "sc_6_pd" /\ sldl[u] < NONE /\ sldl[u] > now
              \/ \E u \in Threads : pc[u] = "sc_p_pd" /\ sdl[u] < NONE /\ sdl[u] > now
              \/ \E n \in Notes : live[n] = "live" /\ notified[n] = 0 /\ exp[n] < NONE /\ exp[n] > now
Tick == /\ now < MaxNow /\ TickUseful
        /\ now' = now + 1
        /\ UNCHANGED <<pc, live, notified, exp, par, kids, wts, disc, lk, nww, sem, cval, cwaited, cq, clk, nwc, cmu, badmu, cz, ip, ret, dres, called, dl0, lpar, wfor, freeing, badret, vcount, uaf, taint4, taint5, taint6, stack, cn, cp, i, klist, w, tn, p, dn, nt, xn, xcl, wn, wp, wdl, fail, fn, fp, fi, fk, cdl, cv, cwk, objs, adl, single, wm, k, rt, cnt, rdy, enq, wq, unl, sdl, scn, sct, sldl, snear, sso, st, pn>>
\* BEGIN GENERATED (tools/mkspec.py)
KindMap == [x \in {"c0", "ca_1_lk", "ca_2_ld", "ca_3_cas", "ca_4_l", "ca_4_ld", "ca_5_l", "ca_5_st", "ca_6_v", "ca_7_ul", "cd_1_lk", "cd_2_ld", "cd_3_ld", "cd_4_st", "cd_5_ul", "ce_1_lk", "ce_2_ld", "ce_3_st", "ce_4_ul", "cr_1_st", "cr_2_ld", "ml_1_lk", "ml_2_ul", "nc_1_ld", "nc_2_st", "nc_3_st", "nc_4_v", "nc_5_l", "nc_5_lk", "nc_6_ul", "nc_7_r", "nc_8_lk", "nc_9_l", "nc_k_l", "nc_w_l", "nd_1_ld", "nd_2_lk", "nd_3_ld", "nd_4_ul", "nd_5_l", "ne_1_lk", "ne_2_ld", "ne_3_st", "ne_4_ul", "ne_5_l", "nf_10_l", "nf_11_ul", "nf_12_l", "nf_13_ul", "nf_1_l", "nf_1_lk", "nf_2_r", "nf_3_ul", "nf_4_lk", "nf_4b_lk", "nf_5_l", "nf_6_l", "nf_6_lk", "nf_7_ul", "nf_8_r", "nf_9_lk", "nf_k_l", "nn_0_l", "nn_1_l", "nn_2_l", "nn_3_lk", "nn_4_ld", "nn_5_ul", "np_0_l", "np_1_l", "nq_2_lk", "nq_3_l", "nq_3_ld", "nq_4_st", "nq_5_ul", "nq_6_l", "nt_1_lk", "nt_2_l", "nt_2_ld", "nt_3_r", "nt_4_ul", "nt_5_lk", "nt_6_lk", "nt_7_l", "nt_7_ul", "nt_7b_l", "nt_7c_l", "nt_8_ul", "nx_0_l", "nx_1_l", "nx_2_l", "sc_0_l", "sc_1_l", "sc_2_st", "sc_3_lk", "sc_4_ld", "sc_5_ul", "sc_6_l", "sc_6_pd", "sc_7_lk", "sc_8_ld", "sc_9_ul", "sc_p_pd", "sc_r_l", "sv_1_v", "wd_0_l", "wd_1_l", "wd_8_l", "wd_9_l", "we_1_l", "wl_0_l", "wl_1_l", "wl_2_l", "wl_3_l", "wn_1_st", "wn_7_pd", "ws_1_l", "ws_2_l", "wu_0_l", "wu_1_ul", "wu_2_lk", "Done"} |-> CASE x = "c0" -> "c" [] x = "ca_1_lk" -> "lock" [] x = "ca_2_ld" -> "ld" [] x = "ca_3_cas" -> "cas" [] x = "ca_4_l" -> "local" [] x = "ca_4_ld" -> "ld" [] x = "ca_5_l" -> "local" [] x = "ca_5_st" -> "st" [] x = "ca_6_v" -> "v" [] x = "ca_7_ul" -> "unlock" [] x = "cd_1_lk" -> "lock" [] x = "cd_2_ld" -> "ld" [] x = "cd_3_ld" -> "ld" [] x = "cd_4_st" -> "st" [] x = "cd_5_ul" -> "unlock" [] x = "ce_1_lk" -> "lock" [] x = "ce_2_ld" -> "ld" [] x = "ce_3_st" -> "st" [] x = "ce_4_ul" -> "unlock" [] x = "cr_1_st" -> "st" [] x = "cr_2_ld" -> "ld" [] x = "ml_1_lk" -> "lock" [] x = "ml_2_ul" -> "unlock" [] x = "nc_1_ld" -> "ld" [] x = "nc_2_st" -> "st" [] x = "nc_3_st" -> "st" [] x = "nc_4_v" -> "v" [] x = "nc_5_l" -> "local" [] x = "nc_5_lk" -> "lock" [] x = "nc_6_ul" -> "unlock" [] x = "nc_7_r" -> "region" [] x = "nc_8_lk" -> "lock" [] x = "nc_9_l" -> "local" [] x = "nc_k_l" -> "local" [] x = "nc_w_l" -> "local" [] x = "nd_1_ld" -> "ld" [] x = "nd_2_lk" -> "lock" [] x = "nd_3_ld" -> "ld" [] x = "nd_4_ul" -> "unlock" [] x = "nd_5_l" -> "local" [] x = "ne_1_lk" -> "lock" [] x = "ne_2_ld" -> "ld" [] x = "ne_3_st" -> "st" [] x = "ne_4_ul" -> "unlock" [] x = "ne_5_l" -> "local" [] x = "nf_10_l" -> "local" [] x = "nf_11_ul" -> "unlock" [] x = "nf_12_l" -> "local" [] x = "nf_13_ul" -> "unlock" [] x = "nf_1_l" -> "local" [] x = "nf_1_lk" -> "lock" [] x = "nf_2_r" -> "region" [] x = "nf_3_ul" -> "unlock" [] x = "nf_4_lk" -> "lock" [] x = "nf_4b_lk" -> "lock" [] x = "nf_5_l" -> "local" [] x = "nf_6_l" -> "local" [] x = "nf_6_lk" -> "lock" [] x = "nf_7_ul" -> "unlock" [] x = "nf_8_r" -> "region" [] x = "nf_9_lk" -> "lock" [] x = "nf_k_l" -> "local" [] x = "nn_0_l" -> "local" [] x = "nn_1_l" -> "local" [] x = "nn_2_l" -> "local" [] x = "nn_3_lk" -> "lock" [] x = "nn_4_ld" -> "ld" [] x = "nn_5_ul" -> "unlock" [] x = "np_0_l" -> "local" [] x = "np_1_l" -> "local" [] x = "nq_2_lk" -> "lock" [] x = "nq_3_l" -> "local" [] x = "nq_3_ld" -> "ld" [] x = "nq_4_st" -> "st" [] x = "nq_5_ul" -> "unlock" [] x = "nq_6_l" -> "local" [] x = "nt_1_lk" -> "lock" [] x = "nt_2_l" -> "local" [] x = "nt_2_ld" -> "ld" [] x = "nt_3_r" -> "region" [] x = "nt_4_ul" -> "unlock" [] x = "nt_5_lk" -> "lock" [] x = "nt_6_lk" -> "lock" [] x = "nt_7_l" -> "local" [] x = "nt_7_ul" -> "unlock" [] x = "nt_7b_l" -> "local" [] x = "nt_7c_l" -> "local" [] x = "nt_8_ul" -> "unlock" [] x = "nx_0_l" -> "local" [] x = "nx_1_l" -> "local" [] x = "nx_2_l" -> "local" [] x = "sc_0_l" -> "local" [] x = "sc_1_l" -> "local" [] x = "sc_2_st" -> "st" [] x = "sc_3_lk" -> "lock" [] x = "sc_4_ld" -> "ld" [] x = "sc_5_ul" -> "unlock" [] x = "sc_6_l" -> "local" [] x = "sc_6_pd" -> "pd" [] x = "sc_7_lk" -> "lock" [] x = "sc_8_ld" -> "ld" [] x = "sc_9_ul" -> "unlock" [] x = "sc_p_pd" -> "pd" [] x = "sc_r_l" -> "local" [] x = "sv_1_v" -> "v" [] x = "wd_0_l" -> "local" [] x = "wd_1_l" -> "local" [] x = "wd_8_l" -> "local" [] x = "wd_9_l" -> "local" [] x = "we_1_l" -> "local" [] x = "wl_0_l" -> "local" [] x = "wl_1_l" -> "local" [] x = "wl_2_l" -> "local" [] x = "wl_3_l" -> "local" [] x = "wn_1_st" -> "st" [] x = "wn_7_pd" -> "pd" [] x = "ws_1_l" -> "local" [] x = "ws_2_l" -> "local" [] x = "wu_0_l" -> "local" [] x = "wu_1_ul" -> "unlock" [] x = "wu_2_lk" -> "lock" [] x = "Done" -> "none"]
ResetAll == (* Global variables *)
        /\ live' = T0.live
        /\ notified' = T0.notified
        /\ exp' = T0.exp
        /\ par' = T0.par
        /\ kids' = T0.kids
        /\ wts' = [n \in Notes |-> <<>>]
        /\ disc' = [n \in Notes |-> 0]
        /\ lk' = [n \in Notes |-> 0]
        /\ nww' = [t \in Threads |-> [n \in Notes |-> 0]]
        /\ sem' = [t \in Threads |-> 0]
        /\ cval' = CV0
        /\ cwaited' = 0
        /\ cq' = <<>>
        /\ clk' = 0
        /\ nwc' = [t \in Threads |-> 0]
        /\ cmu' = 0
        /\ badmu' = FALSE
        /\ cz' = (CV0 = 0)
        /\ now' = 0
        /\ ip' = [t \in Threads |-> 1]
        /\ ret' = [t \in Threads |-> -1]
        /\ dres' = [t \in Threads |-> 0]
        /\ called' = [n \in Notes |-> FALSE]
        /\ dl0' = T0.dl0
        /\ lpar' = T0.lpar
        /\ wfor' = [t \in Threads |-> 0]
        /\ freeing' = [n \in Notes |-> FALSE]
        /\ badret' = FALSE
        /\ vcount' = [t \in Threads |-> 0]
        /\ uaf' = FALSE
        /\ taint4' = FALSE
        /\ taint5' = FALSE
        /\ taint6' = FALSE
        (* Procedure notify_child *)
        /\ cn' = [ self \in ProcSet |-> defaultInitValue]
        /\ cp' = [ self \in ProcSet |-> defaultInitValue]
        /\ i' = [ self \in ProcSet |-> 1]
        /\ klist' = [ self \in ProcSet |-> <<>>]
        /\ w' = [ self \in ProcSet |-> 0]
        (* Procedure notify *)
        /\ tn' = [ self \in ProcSet |-> defaultInitValue]
        /\ p' = [ self \in ProcSet |-> 0]
        (* Procedure ndeadline *)
        /\ dn' = [ self \in ProcSet |-> defaultInitValue]
        /\ nt' = [ self \in ProcSet |-> 0]
        (* Procedure nnotify *)
        /\ xn' = [ self \in ProcSet |-> defaultInitValue]
        /\ xcl' = [ self \in ProcSet |-> defaultInitValue]
        (* Procedure nnew *)
        /\ wn' = [ self \in ProcSet |-> defaultInitValue]
        /\ wp' = [ self \in ProcSet |-> defaultInitValue]
        /\ wdl' = [ self \in ProcSet |-> defaultInitValue]
        /\ fail' = [ self \in ProcSet |-> defaultInitValue]
        (* Procedure nfree *)
        /\ fn' = [ self \in ProcSet |-> defaultInitValue]
        /\ fp' = [ self \in ProcSet |-> 0]
        /\ fi' = [ self \in ProcSet |-> 1]
        /\ fk' = [ self \in ProcSet |-> <<>>]
        (* Procedure cadd *)
        /\ cdl' = [ self \in ProcSet |-> defaultInitValue]
        /\ cv' = [ self \in ProcSet |-> 0]
        /\ cwk' = [ self \in ProcSet |-> 0]
        (* Procedure nwaitn *)
        /\ objs' = [ self \in ProcSet |-> defaultInitValue]
        /\ adl' = [ self \in ProcSet |-> defaultInitValue]
        /\ single' = [ self \in ProcSet |-> defaultInitValue]
        /\ wm' = [ self \in ProcSet |-> defaultInitValue]
        /\ k' = [ self \in ProcSet |-> 1]
        /\ rt' = [ self \in ProcSet |-> 0]
        /\ cnt' = [ self \in ProcSet |-> 0]
        /\ rdy' = [ self \in ProcSet |-> 0]
        /\ enq' = [ self \in ProcSet |-> FALSE]
        /\ wq' = [ self \in ProcSet |-> FALSE]
        /\ unl' = [ self \in ProcSet |-> FALSE]
        (* Procedure swc *)
        /\ sdl' = [ self \in ProcSet |-> defaultInitValue]
        /\ scn' = [ self \in ProcSet |-> defaultInitValue]
        /\ sct' = [ self \in ProcSet |-> 0]
        /\ sldl' = [ self \in ProcSet |-> 0]
        /\ snear' = [ self \in ProcSet |-> FALSE]
        /\ sso' = [ self \in ProcSet |-> 0]
        (* Procedure semv *)
        /\ st' = [ self \in ProcSet |-> defaultInitValue]
        (* Procedure npoll *)
        /\ pn' = [ self \in ProcSet |-> defaultInitValue]
        /\ stack' = [self \in ProcSet |-> << >>]
        /\ pc' = [self \in ProcSet |-> "c0"]
\* END GENERATED
LocalPending == {u \in Threads : pc[u] \in LocalLabels}
NextU == IF LocalPending # {} THEN Step(CHOOSE u \in LocalPending : TRUE)
         ELSE (\E self \in Threads : Step(self)) \/ Tick
SpecU == Init /\ [][NextU]_vars

AllDone == \A u \in Threads : pc[u] = "Done"
\* ---- C08 ----
NotifiedHasCause == \A n \in Notes : (live[n] \in {"live", "new"} /\ notified[n] # 0) => Cause(n)
InNotify(u) == \/ pc[u] \in {"nc_1_ld", "nc_2_st", "nc_w_l", "nc_3_st", "nc_4_v", "nc_k_l", "nc_5_lk", "nc_5_l", "nc_6_ul", "nc_7_r", "nc_8_lk", "nc_9_l",
                             "nt_1_lk", "nt_2_ld", "nt_2_l", "nt_3_r", "nt_4_ul", "nt_5_lk", "nt_6_lk", "nt_7_l", "nt_7b_l", "nt_7_ul", "nt_7c_l", "nt_8_ul"}
               \/ \E j \in 1..Len(stack[u]) : stack[u][j].procedure \in {"notify", "notify_child"}
Quiescent == \A u \in Threads : ~InNotify(u)
\* once no notification is in progress, every live logical descendant of a notified note is notified and has no waiter left
\* a note is observably notified if its flag is set, it was born expired (parent already notified), or its expiry has passed (lazy expiry)
ObsNotified(d) == notified[d] # 0 \/ exp[d] = ZERO \/ (exp[d] < NONE /\ exp[d] <= now)
DescendantsNotified == Quiescent => \A n \in Notes : (live[n] = "live" /\ notified[n] # 0) =>
                         \A d \in Notes : (live[d] = "live" /\ ~freeing[d] /\ n \in LAnc(d, NN)) => (ObsNotified(d) /\ (notified[d] # 0 => wts[d] = <<>>))
ExpiryIsMin == \A n \in Notes : (live[n] = "live" /\ par[n] # 0 /\ live[par[n]] = "live") => exp[n] <= exp[par[n]]
\* ---- C09 ----
NoUseAfterFree == ~uaf
\* ---- C05 / C13 (waits on notes) ----
RetHonest == ~badret
MutexKept == ~badmu
InWait(u) == \E j \in 1..Len(stack[u]) : stack[u][j].procedure \in {"nwaitn", "swc"}
\* a wait record is on a note's waiter list, or in a notifier's hands, only while the call that owns it is still in progress
NoDeadRecord == /\ \A n \in Notes : live[n] = "live" => \A j \in 1..Len(wts[n]) : InWait(wts[n][j])
                /\ \A j \in 1..Len(cq) : InWait(cq[j])
                /\ \A u \in Threads : pc[u] \in {"ca_5_st", "ca_6_v"} => InWait(cwk[u])
                /\ \A u \in Threads : pc[u] \in {"nc_3_st", "nc_4_v"} => InWait(w[u])
AdoptionKeepsTree == \A n \in Notes : (live[n] = "live" /\ par[n] # 0) => live[par[n]] # "none"
BadSet == {x \in {"NotifiedHasCause", "DescendantsNotified", "ExpiryIsMin", "NoUseAfterFree", "RetHonest", "NoDeadRecord", "MutexKept"} :
             \/ (x = "MutexKept" /\ ~MutexKept)
             \/ (x = "RetHonest" /\ ~RetHonest) \/ (x = "NoDeadRecord" /\ ~NoDeadRecord)
             \/ (x = "NotifiedHasCause" /\ ~NotifiedHasCause) \/ (x = "DescendantsNotified" /\ ~DescendantsNotified)
             \/ (x = "ExpiryIsMin" /\ ~ExpiryIsMin) \/ (x = "NoUseAfterFree" /\ ~NoUseAfterFree)}

Moved(a) == pc[a] # pc'[a] \/ ip[a] # ip'[a]
Actor == IF \E a \in Threads : Moved(a) THEN CHOOSE a \in Threads : Moved(a) ELSE 0
L(n) == live'[n] = "live"
Obs == [live |-> [n \in Notes |-> IF live'[n] = "live" THEN 1 ELSE IF live'[n] = "freed" THEN 2 ELSE 0],
        notified |-> [n \in Notes |-> IF L(n) THEN notified'[n] ELSE 0],
        exp |-> [n \in Notes |-> IF L(n) THEN exp'[n] ELSE 0],
        par |-> [n \in Notes |-> IF L(n) THEN par'[n] ELSE 0],
        kids |-> [n \in Notes |-> IF L(n) THEN kids'[n] ELSE <<>>],
        wts |-> [n \in Notes |-> IF L(n) THEN wts'[n] ELSE <<>>],
        disc |-> [n \in Notes |-> IF L(n) THEN disc'[n] ELSE 0],
        lk |-> [n \in Notes |-> IF L(n) THEN lk'[n] ELSE 0],
        nww |-> nww', sem |-> sem', now |-> now', ret |-> ret',
        cval |-> cval', cq |-> cq', clk |-> clk', nwc |-> nwc', cmu |-> cmu',
        bad |-> BadSet', done |-> AllDone', taint4 |-> taint4', taint5 |-> taint5', taint6 |-> taint6']
Edge == (vars # vars') =>
          PrintT(ToJson(<<"E", TLCFP(vars), TLCFP(<<vars, 1>>), TLCFP(vars'), TLCFP(<<vars', 1>>),
                          Actor, IF Actor = 0 THEN "Tick" ELSE pc[Actor], Obs>>))
InitPrint == (TLCGet("level") = 1) => PrintT(ToJson(<<"I", TLCFP(vars), TLCFP(<<vars, 1>>)>>))
====
