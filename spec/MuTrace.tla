---- MODULE MuTrace ----
(* Code -> spec (DESIGN 3.4): executions of the REAL mu.c / cv.c / mu_wait.c / wait.c recorded by the harness
   (one JSON line per granted step: thread, kind of shared operation, the mutex word and the cv word afterwards;
   `tick` and `reset` lines) are validated against Mu.tla: each line must be explained by the step of that
   thread at its current label, of that kind, producing those words; the specification's local steps are taken
   silently in between.  Everything not logged (queues, waiter fields, ghosts) is inferred by TLC, and every
   invariant of Mu.tla is evaluated in every state of the matched behaviour.
   The trace is accepted iff the line counter reaches the end: `NotAccepted` is then violated (by design). *)
EXTENDS Mu, IOUtils

Tr == ndJsonDeserialize(IOEnv.TRACE)
VARIABLE l
tvars == <<vars, l>>

TraceInit == Init /\ l = 1 /\ TLCSet(1, 0)
TraceLocal == /\ LocalPending # {}
              /\ Step(CHOOSE u \in LocalPending : TRUE)
              /\ UNCHANGED l
TraceStep == /\ LocalPending = {}
             /\ l <= Len(Tr)
             /\ LET e == Tr[l] IN
                  CASE e.k = "tick" -> Tick
                    [] e.k = "reset" -> ResetAll
                    [] OTHER -> /\ KindMap[pc[e.t]] = e.k
                                /\ Step(e.t)
                                /\ word' = e.w
                                /\ cvword' = e.cw
             /\ l' = l + 1
TraceNext == TraceLocal \/ TraceStep
TraceSpec == TraceInit /\ [][TraceNext]_tvars
NotAccepted == l <= Len(Tr)
\* the longest matched prefix is reported through TLCSet/TLCGet register 1 (needs -workers 1)
Progress == TLCSet(1, IF TLCGet(1) > l THEN TLCGet(1) ELSE l)
\* POSTCONDITION: every line was consumed; prints how far the longest matched prefix got
Accepted == PrintT(<<"matched", TLCGet(1) - 1, "of", Len(Tr)>>) /\ TLCGet(1) = Len(Tr) + 1
\* invariants of the properties, evaluated on the real execution's states
TraceInv == Excl /\ PickedReportsWakeK /\ RetHonest /\ NoDeadRecordTouchK /\ NoTouchAfterFree
====
