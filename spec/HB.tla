---- MODULE HB ----
(* Happens-before of nsync's hand-offs under the memory orders the code REQUESTS (C03), by the C++20
   rules: a release store heads a release sequence; a read-modify-write by any thread continues it;
   a plain (relaxed) store by another thread ends it; an acquire load or RMW that reads from the
   sequence synchronises with its head.  No ordering is credited to the CPU or to the futex.

   One generic hand-off: W writes client data and then performs a releasing operation on the atomic
   location X; other threads (M) may modify X in between; R performs an acquiring operation on X,
   sees the hand-off, and reads the data.  The constants are the SETS OF (kind, order) PAIRS OBSERVED
   at the call sites that play each role in the build under test (extracted through the compiler
   instrumentation during lock-step replay), one TLC run per hand-off protocol:
     mutex word (unlock -> lock), waiter `waiting` flag (waker -> sleeper), once word, note `notified`,
     counter value, spinlock-protected queue fields (spinlock release -> acquire), semaphore count.
   NoRace must hold for every choice of sites. *)
EXTENDS Integers, FiniteSets, TLC

CONSTANTS Rel,     \* releasing sites: set of <<kind, mo>>, kind "st" or "rmw", mo 0..5 (relaxed consume acquire release acq_rel seq_cst)
          Mid,     \* sites that may modify X between the hand-off's two ends: set of <<kind, mo>>
          Acq      \* acquiring sites: set of <<kind, mo>> (mo = success order for a CAS)

IsAcq(o) == o \in {1, 2, 4, 5}
IsRel(o) == o \in {3, 4, 5}

VARIABLES x,        \* 0 initial, 1 after W's releasing operation, 2 after an intermediate modification
          seq,      \* the release sequence currently headed on X carries W's data write
          written,  \* W has written the data
          covR,     \* R's knowledge covers W's data write
          race, pcW, pcM, pcR
vars == <<x, seq, written, covR, race, pcW, pcM, pcR>>

Init == x = 0 /\ seq = FALSE /\ written = FALSE /\ covR = FALSE /\ race = FALSE /\ pcW = "w1" /\ pcM = "m1" /\ pcR = "r1"

W1 == pcW = "w1" /\ written' = TRUE /\ pcW' = "w2" /\ UNCHANGED <<x, seq, covR, race, pcM, pcR>>
W2 == /\ pcW = "w2"
      /\ \E s \in Rel :
           /\ x' = 1
           /\ seq' = IF s[1] = "st" THEN IsRel(s[2]) ELSE (seq \/ IsRel(s[2]))
      /\ pcW' = "done" /\ UNCHANGED <<written, covR, race, pcM, pcR>>
\* an intermediate thread has not synchronised with W: its own release store heads a sequence without W's write
M1 == /\ pcM = "m1" /\ x = 1
      /\ \E s \in Mid :
           /\ x' = 2
           /\ seq' = IF s[1] = "st" THEN FALSE ELSE seq
      /\ pcM' = "done" /\ UNCHANGED <<written, covR, race, pcW, pcR>>
R1 == /\ pcR = "r1" /\ x >= 1
      /\ \E s \in Acq : covR' = (covR \/ (IsAcq(s[2]) /\ seq))
      /\ pcR' = "r2" /\ UNCHANGED <<x, seq, written, race, pcW, pcM>>
R2 == /\ pcR = "r2"
      /\ race' = (written /\ ~covR)
      /\ pcR' = "done" /\ UNCHANGED <<x, seq, written, covR, pcW, pcM>>
Next == W1 \/ W2 \/ M1 \/ R1 \/ R2
Spec == Init /\ [][Next]_vars
NoRace == ~race
====
