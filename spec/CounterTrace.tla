---- MODULE CounterTrace ----
(* Code -> spec for Counter.tla: executions of the real counter.c (+ the nsync_wait_n path of nsync_counter_wait) over the ideal lock,
   recorded by h_l2 under random schedules (thread, kind of operation, value and `waited` afterwards; tick / reset lines), must be
   behaviours of Counter.tla; its invariants are evaluated in every matched state.  Same scheme as MuTrace.tla / NoteTrace.tla. *)
EXTENDS Counter, IOUtils
Tr == ndJsonDeserialize(IOEnv.TRACE)
VARIABLE l
tvars == <<vars, l>>
TraceInit == Init /\ l = 1 /\ TLCSet(1, 0)
TraceLocal == /\ LocalPending # {}
              /\ Step(CHOOSE u \in LocalPending : TRUE)
              /\ UNCHANGED l
TraceStep == /\ LocalPending = {}
             /\ l <= Len(Tr)
             /\ LET e == Tr[l] IN
                  CASE e.k = "tick" -> Tick
                    [] e.k = "reset" -> ResetAll
                    [] OTHER -> /\ KindMap[pc[e.t]] = e.k
                                /\ Step(e.t)
                                /\ (~freed' => (value' = e.v /\ waited' = e.wd))
             /\ l' = l + 1
TraceNext == TraceLocal \/ TraceStep
TraceSpec == TraceInit /\ [][TraceNext]_tvars
Progress == TLCSet(1, IF TLCGet(1) > l THEN TLCGet(1) ELSE l)
Accepted == PrintT(<<"matched", TLCGet(1) - 1, "of", Len(Tr)>>) /\ TLCGet(1) = Len(Tr) + 1
====
