---- MODULE Once ----
(* internal/once.c over the ideal lock and condition variable of IdealMu: nsync_run_once,
   nsync_run_once_arg (blocking callers: once_mu + once_cv with short deadlines) and
   nsync_run_once_spin, nsync_run_once_arg_spin (spinning callers), on two nsync_once words that
   map to the SAME once_sync slot (shared lock and cv).  One label per atomic operation on the once
   word, per lock / cv operation, per spin-delay, and two client steps inside the once function
   (f0 = it starts, f1 = it completes).  Property C07. *)
EXTENDS Integers, Sequences, FiniteSets, TLC, TLCExt, Json

CONSTANTS N, Prog,     \* Prog[t] = sequence of [op |-> "once", a |-> kind 0..3, b |-> which once 0/1]
          MaxNow,
          Nest       \* 0, or 1 + the kind of nsync_run_once call that the function of once 0 makes on once 1 (a nested initialisation)

Threads == 1..N
Onces == 0..1

(* --algorithm once {
  variables
    ow = [q \in Onces |-> 0],               \* the nsync_once words: 0 not started, 1 running, 2 done
    lockh = 0,                              \* once_mu holder
    cvw = [t \in Threads |-> FALSE],        \* waiting on once_cv
    cvs = [t \in Threads |-> FALSE],        \* ... and signalled
    cvx = [t \in Threads |-> FALSE],        \* ... and its short deadline has passed
    ip = [t \in Threads |-> 1],
    runs = [q \in Onces |-> 0],             \* ghost: how often the function ran
    fdone = [q \in Onces |-> FALSE],        \* ghost: the function has completed
    early = FALSE;                          \* ghost: some call returned before the function had completed

  define { CurOp(t) == Prog[t][ip[t]] }

  procedure run_once(kind, k)
    variables o = 0, blocking = FALSE;
  {
   ro_1_ld:  if (ow[k] = 2) { early := early \/ ~fdone[k]; return; };       \* once.c:108/119/130/140 ATM_LOAD_ACQ
   ro_2_ld:  if (ow[k] = 2) { early := early \/ ~fdone[k]; return; }        \* once.c:63 ATM_LOAD_ACQ
             else { o := ow[k]; blocking := kind < 2; };
   ro_2_l:   if (~blocking) { goto ro_4_l; };
   ro_3_lk:  await lockh = 0; lockh := self;                                  \* once.c:66 nsync_mu_lock
   ro_4_l:   if (o # 0) { goto ro_10_ld; };
   ro_4_cas: if (ow[k] = 0) { ow[k] := 1; goto ro_6_l; };                     \* once.c:69 ATM_CAS_ACQ
   ro_5_ld:  o := ow[k]; goto ro_4_l;                                         \* once.c:70 ATM_LOAD
   ro_6_l:   if (~blocking) { goto f0; };
   ro_6_ul:  lockh := 0;                                                      \* once.c:74 nsync_mu_unlock
   f0:       runs[k] := runs[k] + 1;                                          \* the once function starts ...
   fn_l:     if (Nest > 0 /\ k = 0) { call run_once(Nest - 1, 1); };           \* ... may itself need another once (sharing the once_sync slot) ...
   f1:       fdone[k] := TRUE;                                                \* ... and completes
   ro_7_l:   if (~blocking) { goto ro_9_st; };
   ro_7_lk:  await lockh = 0; lockh := self;                                  \* once.c:82
   ro_8_r:   cvs := [u \in Threads |-> cvs[u] \/ cvw[u]];                     \* once.c:83 nsync_cv_broadcast
   ro_9_st:  ow[k] := 2;                                                      \* once.c:85 ATM_STORE_REL
   ro_10_ld: if (ow[k] = 2) { goto ro_13_l; };                                \* once.c:87 ATM_LOAD_ACQ
   ro_10_l:  if (~blocking) { goto ro_d; };
   ro_11_r:  cvw[self] := TRUE; cvs[self] := FALSE; cvx[self] := FALSE;     \* once.c:94 nsync_cv_wait_with_deadline: release + enqueue
             lockh := 0;
   ro_12_lk: await lockh = 0 /\ (cvs[self] \/ cvx[self]);              \* ... woken (broadcast or the short deadline), lock re-taken
             lockh := self; cvw[self] := FALSE; cvs[self] := FALSE;
             goto ro_10_ld;
   ro_d:     goto ro_10_ld;                                                   \* once.c:96 nsync_spin_delay_
   ro_13_l:  if (~blocking) { early := early \/ ~fdone[k]; return; };
   ro_13_ul: lockh := 0;                                                      \* once.c:100 nsync_mu_unlock
             early := early \/ ~fdone[k]; return;
  }

  process (thr \in Threads)
  {
   c0: while (ip[self] <= Len(Prog[self])) {
         ip[self] := ip[self] + 1;
         call run_once(CurOp(self).a, CurOp(self).b);
       };
  }
} *)
\* BEGIN TRANSLATION
CONSTANT defaultInitValue
VARIABLES pc, ow, lockh, cvw, cvs, cvx, ip, runs, fdone, early, stack

(* define statement *)
CurOp(t) == Prog[t][ip[t]]

VARIABLES kind, k, o, blocking

vars == << pc, ow, lockh, cvw, cvs, cvx, ip, runs, fdone, early, stack, kind, 
           k, o, blocking >>

ProcSet == (Threads)

Init == (* Global variables *)
        /\ ow = [q \in Onces |-> 0]
        /\ lockh = 0
        /\ cvw = [t \in Threads |-> FALSE]
        /\ cvs = [t \in Threads |-> FALSE]
        /\ cvx = [t \in Threads |-> FALSE]
        /\ ip = [t \in Threads |-> 1]
        /\ runs = [q \in Onces |-> 0]
        /\ fdone = [q \in Onces |-> FALSE]
        /\ early = FALSE
        (* Procedure run_once *)
        /\ kind = [ self \in ProcSet |-> defaultInitValue]
        /\ k = [ self \in ProcSet |-> defaultInitValue]
        /\ o = [ self \in ProcSet |-> 0]
        /\ blocking = [ self \in ProcSet |-> FALSE]
        /\ stack = [self \in ProcSet |-> << >>]
        /\ pc = [self \in ProcSet |-> "c0"]

ro_1_ld(self) == /\ pc[self] = "ro_1_ld"
                 /\ IF ow[k[self]] = 2
                       THEN /\ early' = (early \/ ~fdone[k[self]])
                            /\ pc' = [pc EXCEPT ![self] = Head(stack[self]).pc]
                            /\ o' = [o EXCEPT ![self] = Head(stack[self]).o]
                            /\ blocking' = [blocking EXCEPT ![self] = Head(stack[self]).blocking]
                            /\ kind' = [kind EXCEPT ![self] = Head(stack[self]).kind]
                            /\ k' = [k EXCEPT ![self] = Head(stack[self]).k]
                            /\ stack' = [stack EXCEPT ![self] = Tail(stack[self])]
                       ELSE /\ pc' = [pc EXCEPT ![self] = "ro_2_ld"]
                            /\ UNCHANGED << early, stack, kind, k, o, blocking >>
                 /\ UNCHANGED << ow, lockh, cvw, cvs, cvx, ip, runs, fdone >>

ro_2_ld(self) == /\ pc[self] = "ro_2_ld"
                 /\ IF ow[k[self]] = 2
                       THEN /\ early' = (early \/ ~fdone[k[self]])
                            /\ pc' = [pc EXCEPT ![self] = Head(stack[self]).pc]
                            /\ o' = [o EXCEPT ![self] = Head(stack[self]).o]
                            /\ blocking' = [blocking EXCEPT ![self] = Head(stack[self]).blocking]
                            /\ kind' = [kind EXCEPT ![self] = Head(stack[self]).kind]
                            /\ k' = [k EXCEPT ![self] = Head(stack[self]).k]
                            /\ stack' = [stack EXCEPT ![self] = Tail(stack[self])]
                       ELSE /\ o' = [o EXCEPT ![self] = ow[k[self]]]
                            /\ blocking' = [blocking EXCEPT ![self] = kind[self] < 2]
                            /\ pc' = [pc EXCEPT ![self] = "ro_2_l"]
                            /\ UNCHANGED << early, stack, kind, k >>
                 /\ UNCHANGED << ow, lockh, cvw, cvs, cvx, ip, runs, fdone >>

ro_2_l(self) == /\ pc[self] = "ro_2_l"
                /\ IF ~blocking[self]
                      THEN /\ pc' = [pc EXCEPT ![self] = "ro_4_l"]
                      ELSE /\ pc' = [pc EXCEPT ![self] = "ro_3_lk"]
                /\ UNCHANGED << ow, lockh, cvw, cvs, cvx, ip, runs, fdone, 
                                early, stack, kind, k, o, blocking >>

ro_3_lk(self) == /\ pc[self] = "ro_3_lk"
                 /\ lockh = 0
                 /\ lockh' = self
                 /\ pc' = [pc EXCEPT ![self] = "ro_4_l"]
                 /\ UNCHANGED << ow, cvw, cvs, cvx, ip, runs, fdone, early, 
                                 stack, kind, k, o, blocking >>

ro_4_l(self) == /\ pc[self] = "ro_4_l"
                /\ IF o[self] # 0
                      THEN /\ pc' = [pc EXCEPT ![self] = "ro_10_ld"]
                      ELSE /\ pc' = [pc EXCEPT ![self] = "ro_4_cas"]
                /\ UNCHANGED << ow, lockh, cvw, cvs, cvx, ip, runs, fdone, 
                                early, stack, kind, k, o, blocking >>

ro_4_cas(self) == /\ pc[self] = "ro_4_cas"
                  /\ IF ow[k[self]] = 0
                        THEN /\ ow' = [ow EXCEPT ![k[self]] = 1]
                             /\ pc' = [pc EXCEPT ![self] = "ro_6_l"]
                        ELSE /\ pc' = [pc EXCEPT ![self] = "ro_5_ld"]
                             /\ ow' = ow
                  /\ UNCHANGED << lockh, cvw, cvs, cvx, ip, runs, fdone, early, 
                                  stack, kind, k, o, blocking >>

ro_5_ld(self) == /\ pc[self] = "ro_5_ld"
                 /\ o' = [o EXCEPT ![self] = ow[k[self]]]
                 /\ pc' = [pc EXCEPT ![self] = "ro_4_l"]
                 /\ UNCHANGED << ow, lockh, cvw, cvs, cvx, ip, runs, fdone, 
                                 early, stack, kind, k, blocking >>

ro_6_l(self) == /\ pc[self] = "ro_6_l"
                /\ IF ~blocking[self]
                      THEN /\ pc' = [pc EXCEPT ![self] = "f0"]
                      ELSE /\ pc' = [pc EXCEPT ![self] = "ro_6_ul"]
                /\ UNCHANGED << ow, lockh, cvw, cvs, cvx, ip, runs, fdone, 
                                early, stack, kind, k, o, blocking >>

ro_6_ul(self) == /\ pc[self] = "ro_6_ul"
                 /\ lockh' = 0
                 /\ pc' = [pc EXCEPT ![self] = "f0"]
                 /\ UNCHANGED << ow, cvw, cvs, cvx, ip, runs, fdone, early, 
                                 stack, kind, k, o, blocking >>

f0(self) == /\ pc[self] = "f0"
            /\ runs' = [runs EXCEPT ![k[self]] = runs[k[self]] + 1]
            /\ pc' = [pc EXCEPT ![self] = "fn_l"]
            /\ UNCHANGED << ow, lockh, cvw, cvs, cvx, ip, fdone, early, stack, 
                            kind, k, o, blocking >>

fn_l(self) == /\ pc[self] = "fn_l"
              /\ IF Nest > 0 /\ k[self] = 0
                    THEN /\ /\ k' = [k EXCEPT ![self] = 1]
                            /\ kind' = [kind EXCEPT ![self] = Nest - 1]
                            /\ stack' = [stack EXCEPT ![self] = << [ procedure |->  "run_once",
                                                                     pc        |->  "f1",
                                                                     o         |->  o[self],
                                                                     blocking  |->  blocking[self],
                                                                     kind      |->  kind[self],
                                                                     k         |->  k[self] ] >>
                                                                 \o stack[self]]
                         /\ o' = [o EXCEPT ![self] = 0]
                         /\ blocking' = [blocking EXCEPT ![self] = FALSE]
                         /\ pc' = [pc EXCEPT ![self] = "ro_1_ld"]
                    ELSE /\ pc' = [pc EXCEPT ![self] = "f1"]
                         /\ UNCHANGED << stack, kind, k, o, blocking >>
              /\ UNCHANGED << ow, lockh, cvw, cvs, cvx, ip, runs, fdone, early >>

f1(self) == /\ pc[self] = "f1"
            /\ fdone' = [fdone EXCEPT ![k[self]] = TRUE]
            /\ pc' = [pc EXCEPT ![self] = "ro_7_l"]
            /\ UNCHANGED << ow, lockh, cvw, cvs, cvx, ip, runs, early, stack, 
                            kind, k, o, blocking >>

ro_7_l(self) == /\ pc[self] = "ro_7_l"
                /\ IF ~blocking[self]
                      THEN /\ pc' = [pc EXCEPT ![self] = "ro_9_st"]
                      ELSE /\ pc' = [pc EXCEPT ![self] = "ro_7_lk"]
                /\ UNCHANGED << ow, lockh, cvw, cvs, cvx, ip, runs, fdone, 
                                early, stack, kind, k, o, blocking >>

ro_7_lk(self) == /\ pc[self] = "ro_7_lk"
                 /\ lockh = 0
                 /\ lockh' = self
                 /\ pc' = [pc EXCEPT ![self] = "ro_8_r"]
                 /\ UNCHANGED << ow, cvw, cvs, cvx, ip, runs, fdone, early, 
                                 stack, kind, k, o, blocking >>

ro_8_r(self) == /\ pc[self] = "ro_8_r"
                /\ cvs' = [u \in Threads |-> cvs[u] \/ cvw[u]]
                /\ pc' = [pc EXCEPT ![self] = "ro_9_st"]
                /\ UNCHANGED << ow, lockh, cvw, cvx, ip, runs, fdone, early, 
                                stack, kind, k, o, blocking >>

ro_9_st(self) == /\ pc[self] = "ro_9_st"
                 /\ ow' = [ow EXCEPT ![k[self]] = 2]
                 /\ pc' = [pc EXCEPT ![self] = "ro_10_ld"]
                 /\ UNCHANGED << lockh, cvw, cvs, cvx, ip, runs, fdone, early, 
                                 stack, kind, k, o, blocking >>

ro_10_ld(self) == /\ pc[self] = "ro_10_ld"
                  /\ IF ow[k[self]] = 2
                        THEN /\ pc' = [pc EXCEPT ![self] = "ro_13_l"]
                        ELSE /\ pc' = [pc EXCEPT ![self] = "ro_10_l"]
                  /\ UNCHANGED << ow, lockh, cvw, cvs, cvx, ip, runs, fdone, 
                                  early, stack, kind, k, o, blocking >>

ro_10_l(self) == /\ pc[self] = "ro_10_l"
                 /\ IF ~blocking[self]
                       THEN /\ pc' = [pc EXCEPT ![self] = "ro_d"]
                       ELSE /\ pc' = [pc EXCEPT ![self] = "ro_11_r"]
                 /\ UNCHANGED << ow, lockh, cvw, cvs, cvx, ip, runs, fdone, 
                                 early, stack, kind, k, o, blocking >>

ro_11_r(self) == /\ pc[self] = "ro_11_r"
                 /\ cvw' = [cvw EXCEPT ![self] = TRUE]
                 /\ cvs' = [cvs EXCEPT ![self] = FALSE]
                 /\ cvx' = [cvx EXCEPT ![self] = FALSE]
                 /\ lockh' = 0
                 /\ pc' = [pc EXCEPT ![self] = "ro_12_lk"]
                 /\ UNCHANGED << ow, ip, runs, fdone, early, stack, kind, k, o, 
                                 blocking >>

ro_12_lk(self) == /\ pc[self] = "ro_12_lk"
                  /\ lockh = 0 /\ (cvs[self] \/ cvx[self])
                  /\ lockh' = self
                  /\ cvw' = [cvw EXCEPT ![self] = FALSE]
                  /\ cvs' = [cvs EXCEPT ![self] = FALSE]
                  /\ pc' = [pc EXCEPT ![self] = "ro_10_ld"]
                  /\ UNCHANGED << ow, cvx, ip, runs, fdone, early, stack, kind, 
                                  k, o, blocking >>

ro_d(self) == /\ pc[self] = "ro_d"
              /\ pc' = [pc EXCEPT ![self] = "ro_10_ld"]
              /\ UNCHANGED << ow, lockh, cvw, cvs, cvx, ip, runs, fdone, early, 
                              stack, kind, k, o, blocking >>

ro_13_l(self) == /\ pc[self] = "ro_13_l"
                 /\ IF ~blocking[self]
                       THEN /\ early' = (early \/ ~fdone[k[self]])
                            /\ pc' = [pc EXCEPT ![self] = Head(stack[self]).pc]
                            /\ o' = [o EXCEPT ![self] = Head(stack[self]).o]
                            /\ blocking' = [blocking EXCEPT ![self] = Head(stack[self]).blocking]
                            /\ kind' = [kind EXCEPT ![self] = Head(stack[self]).kind]
                            /\ k' = [k EXCEPT ![self] = Head(stack[self]).k]
                            /\ stack' = [stack EXCEPT ![self] = Tail(stack[self])]
                       ELSE /\ pc' = [pc EXCEPT ![self] = "ro_13_ul"]
                            /\ UNCHANGED << early, stack, kind, k, o, blocking >>
                 /\ UNCHANGED << ow, lockh, cvw, cvs, cvx, ip, runs, fdone >>

ro_13_ul(self) == /\ pc[self] = "ro_13_ul"
                  /\ lockh' = 0
                  /\ early' = (early \/ ~fdone[k[self]])
                  /\ pc' = [pc EXCEPT ![self] = Head(stack[self]).pc]
                  /\ o' = [o EXCEPT ![self] = Head(stack[self]).o]
                  /\ blocking' = [blocking EXCEPT ![self] = Head(stack[self]).blocking]
                  /\ kind' = [kind EXCEPT ![self] = Head(stack[self]).kind]
                  /\ k' = [k EXCEPT ![self] = Head(stack[self]).k]
                  /\ stack' = [stack EXCEPT ![self] = Tail(stack[self])]
                  /\ UNCHANGED << ow, cvw, cvs, cvx, ip, runs, fdone >>

run_once(self) == ro_1_ld(self) \/ ro_2_ld(self) \/ ro_2_l(self)
                     \/ ro_3_lk(self) \/ ro_4_l(self) \/ ro_4_cas(self)
                     \/ ro_5_ld(self) \/ ro_6_l(self) \/ ro_6_ul(self)
                     \/ f0(self) \/ fn_l(self) \/ f1(self) \/ ro_7_l(self)
                     \/ ro_7_lk(self) \/ ro_8_r(self) \/ ro_9_st(self)
                     \/ ro_10_ld(self) \/ ro_10_l(self) \/ ro_11_r(self)
                     \/ ro_12_lk(self) \/ ro_d(self) \/ ro_13_l(self)
                     \/ ro_13_ul(self)

c0(self) == /\ pc[self] = "c0"
            /\ IF ip[self] <= Len(Prog[self])
                  THEN /\ ip' = [ip EXCEPT ![self] = ip[self] + 1]
                       /\ /\ k' = [k EXCEPT ![self] = CurOp(self).b]
                          /\ kind' = [kind EXCEPT ![self] = CurOp(self).a]
                          /\ stack' = [stack EXCEPT ![self] = << [ procedure |->  "run_once",
                                                                   pc        |->  "c0",
                                                                   o         |->  o[self],
                                                                   blocking  |->  blocking[self],
                                                                   kind      |->  kind[self],
                                                                   k         |->  k[self] ] >>
                                                               \o stack[self]]
                       /\ o' = [o EXCEPT ![self] = 0]
                       /\ blocking' = [blocking EXCEPT ![self] = FALSE]
                       /\ pc' = [pc EXCEPT ![self] = "ro_1_ld"]
                  ELSE /\ pc' = [pc EXCEPT ![self] = "Done"]
                       /\ UNCHANGED << ip, stack, kind, k, o, blocking >>
            /\ UNCHANGED << ow, lockh, cvw, cvs, cvx, runs, fdone, early >>

thr(self) == c0(self)

(* Allow infinite stuttering to prevent deadlock on termination. *)
Terminating == /\ \A self \in ProcSet: pc[self] = "Done"
               /\ UNCHANGED vars

Next == (\E self \in ProcSet: run_once(self))
           \/ (\E self \in Threads: thr(self))
           \/ Terminating

Spec == Init /\ [][Next]_vars

Termination == <>(\A self \in ProcSet: pc[self] = "Done")

\* END TRANSLATION

LocalLabels == {"fn_l", "ro_10_l", "ro_13_l", "ro_2_l", "ro_4_l", "ro_6_l", "ro_7_l"}
Step(self) == run_once(self) \/ thr(self)
\* the clock passes the short deadlines (10-50 ms) of everybody currently waiting on once_cv
TickUseful == \E u \in Threads : pc[u] = "ro_12_lk" /\ ~cvs[u] /\ ~cvx[u]
Tick == /\ TickUseful
        /\ cvx' = [u \in Threads |-> cvx[u] \/ cvw[u]]
        /\ UNCHANGED <<pc, ow, lockh, cvw, cvs, ip, runs, fdone, early, stack, kind, k, o, blocking>>
\* BEGIN GENERATED (tools/mkspec.py)
KindMap == [x \in {"c0", "f0", "f1", "fn_l", "ro_10_l", "ro_10_ld", "ro_11_r", "ro_12_lk", "ro_13_l", "ro_13_ul", "ro_1_ld", "ro_2_l", "ro_2_ld", "ro_3_lk", "ro_4_cas", "ro_4_l", "ro_5_ld", "ro_6_l", "ro_6_ul", "ro_7_l", "ro_7_lk", "ro_8_r", "ro_9_st", "ro_d", "Done"} |-> CASE x = "c0" -> "c" [] x = "f0" -> "c" [] x = "f1" -> "c" [] x = "fn_l" -> "local" [] x = "ro_10_l" -> "local" [] x = "ro_10_ld" -> "ld" [] x = "ro_11_r" -> "region" [] x = "ro_12_lk" -> "lock" [] x = "ro_13_l" -> "local" [] x = "ro_13_ul" -> "unlock" [] x = "ro_1_ld" -> "ld" [] x = "ro_2_l" -> "local" [] x = "ro_2_ld" -> "ld" [] x = "ro_3_lk" -> "lock" [] x = "ro_4_cas" -> "cas" [] x = "ro_4_l" -> "local" [] x = "ro_5_ld" -> "ld" [] x = "ro_6_l" -> "local" [] x = "ro_6_ul" -> "unlock" [] x = "ro_7_l" -> "local" [] x = "ro_7_lk" -> "lock" [] x = "ro_8_r" -> "region" [] x = "ro_9_st" -> "st" [] x = "ro_d" -> "d" [] x = "Done" -> "none"]
ResetAll == (* Global variables *)
        /\ ow' = [q \in Onces |-> 0]
        /\ lockh' = 0
        /\ cvw' = [t \in Threads |-> FALSE]
        /\ cvs' = [t \in Threads |-> FALSE]
        /\ cvx' = [t \in Threads |-> FALSE]
        /\ ip' = [t \in Threads |-> 1]
        /\ runs' = [q \in Onces |-> 0]
        /\ fdone' = [q \in Onces |-> FALSE]
        /\ early' = FALSE
        (* Procedure run_once *)
        /\ kind' = [ self \in ProcSet |-> defaultInitValue]
        /\ k' = [ self \in ProcSet |-> defaultInitValue]
        /\ o' = [ self \in ProcSet |-> 0]
        /\ blocking' = [ self \in ProcSet |-> FALSE]
        /\ stack' = [self \in ProcSet |-> << >>]
        /\ pc' = [self \in ProcSet |-> "c0"]
\* END GENERATED
LocalPending == {u \in Threads : pc[u] \in LocalLabels}
NextU == IF LocalPending # {} THEN Step(CHOOSE u \in LocalPending : TRUE)
         ELSE (\E self \in Threads : Step(self)) \/ Tick
SpecU == Init /\ [][NextU]_vars

AllDone == \A u \in Threads : pc[u] = "Done"
\* C07
AtMostOnce == \A q \in Onces : runs[q] <= 1
NobodyEarly == ~early
DoneMeansRan == \A q \in Onces : ow[q] = 2 => fdone[q]
BadSet == {x \in {"AtMostOnce", "NobodyEarly", "DoneMeansRan"} :
             \/ (x = "AtMostOnce" /\ ~AtMostOnce) \/ (x = "NobodyEarly" /\ ~NobodyEarly) \/ (x = "DoneMeansRan" /\ ~DoneMeansRan)}

Moved(a) == pc[a] # pc'[a] \/ ip[a] # ip'[a]
Actor == IF \E a \in Threads : Moved(a) THEN CHOOSE a \in Threads : Moved(a) ELSE 0
Obs == [once |-> [i \in 1..2 |-> ow'[i - 1]], runs |-> [i \in 1..2 |-> runs'[i - 1]],
        fdone |-> [i \in 1..2 |-> fdone'[i - 1]],
        bad |-> BadSet', done |-> AllDone']
Edge == (vars # vars') =>
          PrintT(ToJson(<<"E", TLCFP(vars), TLCFP(<<vars, 1>>), TLCFP(vars'), TLCFP(<<vars', 1>>),
                          Actor, IF Actor = 0 THEN "Tick" ELSE pc[Actor], Obs>>))
InitPrint == (TLCGet("level") = 1) => PrintT(ToJson(<<"I", TLCFP(vars), TLCFP(<<vars, 1>>)>>))
====
