---- MODULE Dll ----
(* internal/dll.c at pointer level.  Elements 1..NE, list heads 1..NL (a head is the LAST
   element of its circular list, 0 = NULL).  Every action is one C function, its statements
   applied in source order to the pointer maps nxt/prv.  Ghost state: the abstract sequence
   of each list and the set of loose rings (elements that are in no list).  The invariant
   says the pointer structure implements those sequences (C17).  TLC's breadth-first
   search reaches a fixpoint, so the result covers operation sequences of every length over
   this universe. *)
EXTENDS Integers, Sequences, FiniteSets, TLC, TLCExt, Json

CONSTANTS NE, NL
Elem == 1..NE
Heads == 1..NL

VARIABLES nxt, prv, L,        \* pointer state
          S,                  \* ghost: S[h] = abstract sequence of list h
          R,                  \* ghost: set of loose rings, each a sequence starting at its smallest element
          last                \* last operation (for the exported graph)
vars == <<nxt, prv, L, S, R, last>>
pvars == <<nxt, prv, L, S, R>>

Range(s) == {s[i] : i \in 1..Len(s)}
IndexOf(s, e) == CHOOSE i \in 1..Len(s) : s[i] = e
Min(X) == CHOOSE x \in X : \A y \in X : x <= y
\* rotate ring r (a sequence, cyclic) so that it starts at element e
RotTo(r, e) == LET i == IndexOf(r, e) IN SubSeq(r, i, Len(r)) \o SubSeq(r, 1, i - 1)
Canon(r) == RotTo(r, Min(Range(r)))
RingOf(e) == CHOOSE r \in R : e \in Range(r)
Loose(e) == \E r \in R : e \in Range(r)
Without(s, e) == LET i == IndexOf(s, e) IN SubSeq(s, 1, i - 1) \o SubSeq(s, i + 1, Len(s))

Init == /\ nxt = [e \in Elem |-> e] /\ prv = [e \in Elem |-> e]     \* nsync_dll_init_ on every element
        /\ L = [h \in Heads |-> 0]
        /\ S = [h \in Heads |-> <<>>]
        /\ R = {<<e>> : e \in Elem}
        /\ last = <<"init", 0, 0>>

\* ---- pointer-level transcriptions (statement order of dll.c) ----
\* nsync_dll_splice_after_ (p, n), dll.c:61-68
SpliceP(nx, pv, p, n) ==
  LET p2 == nx[p]  nl == pv[n]
      nx1 == [nx EXCEPT ![p] = n]
      pv1 == [pv EXCEPT ![n] = p]
      nx2 == [nx1 EXCEPT ![nl] = p2]
      pv2 == [pv1 EXCEPT ![p2] = nl]
  IN <<nx2, pv2>>

\* nsync_dll_remove_ (list, e), dll.c:36-49
Remove(h, e) ==
  /\ e \in Range(S[h])                                   \* C precondition: e is in that list
  /\ LET list == L[h]
         nl == IF list = e THEN (IF prv[list] = list THEN 0 ELSE prv[list]) ELSE list
         pv1 == [prv EXCEPT ![nxt[e]] = prv[e]]          \* e->next->prev = e->prev
         nx1 == [nxt EXCEPT ![pv1[e]] = nxt[e]]          \* e->prev->next = e->next
         nx2 == [nx1 EXCEPT ![e] = e]                    \* e->next = e
         pv2 == [pv1 EXCEPT ![e] = e]                    \* e->prev = e
     IN /\ nxt' = nx2 /\ prv' = pv2 /\ L' = [L EXCEPT ![h] = nl]
  /\ S' = [S EXCEPT ![h] = Without(S[h], e)]
  /\ R' = R \cup {<<e>>}
  /\ last' = <<"remove", h, e>>

\* nsync_dll_make_first_in_list_ (list, e), dll.c:84-93 ; e must not be in that list (here: loose)
MakeFirst(h, e) ==
  /\ Loose(e)
  /\ IF L[h] = 0
       THEN /\ L' = [L EXCEPT ![h] = prv[e]] /\ UNCHANGED <<nxt, prv>>
       ELSE /\ LET r == SpliceP(nxt, prv, L[h], e) IN nxt' = r[1] /\ prv' = r[2]
            /\ UNCHANGED L
  /\ S' = [S EXCEPT ![h] = RotTo(RingOf(e), e) \o S[h]]
  /\ R' = R \ {RingOf(e)}
  /\ last' = <<"first", h, e>>

\* nsync_dll_make_last_in_list_ (list, e), dll.c:100-106
MakeLast(h, e) ==
  /\ Loose(e)
  /\ IF L[h] = 0
       THEN UNCHANGED <<nxt, prv>>                         \* make_first's result is discarded
       ELSE LET r == SpliceP(nxt, prv, L[h], nxt[e]) IN nxt' = r[1] /\ prv' = r[2]
  /\ L' = [L EXCEPT ![h] = e]
  /\ S' = [S EXCEPT ![h] = S[h] \o RotTo(RingOf(e), nxt[e])]
  /\ R' = R \ {RingOf(e)}
  /\ last' = <<"last", h, e>>

\* nsync_dll_splice_after_ (p, n) on two loose rings (how same_condition rings are merged)
SpliceLoose(p, n) ==
  /\ Loose(p) /\ Loose(n) /\ RingOf(p) # RingOf(n)
  /\ LET r == SpliceP(nxt, prv, p, n) IN nxt' = r[1] /\ prv' = r[2]
  /\ UNCHANGED <<L, S>>
  /\ LET A == RotTo(RingOf(p), p)  B == RotTo(RingOf(n), n)
     IN R' = (R \ {RingOf(p), RingOf(n)}) \cup {Canon(<<p>> \o B \o Tail(A))}
  /\ last' = <<"spliceloose", p, n>>

\* nsync_dll_splice_after_ (p, n) with p in list h and n loose (n's ring is inserted after p;
\* after the last element means at the front, because the head designates the last element)
SpliceIn(h, p, n) ==
  /\ p \in Range(S[h]) /\ Loose(n)
  /\ LET r == SpliceP(nxt, prv, p, n) IN nxt' = r[1] /\ prv' = r[2]
  /\ UNCHANGED L
  /\ LET B == RotTo(RingOf(n), n)  i == IndexOf(S[h], p)
     IN S' = [S EXCEPT ![h] = IF i = Len(S[h]) THEN B \o S[h]
                               ELSE SubSeq(S[h], 1, i) \o B \o SubSeq(S[h], i + 1, Len(S[h]))]
  /\ R' = R \ {RingOf(n)}
  /\ last' = <<"splicein", p, n>>

Next == \/ \E h \in Heads, e \in Elem : Remove(h, e) \/ MakeFirst(h, e) \/ MakeLast(h, e)
        \/ \E p, n \in Elem : SpliceLoose(p, n)
        \/ \E h \in Heads, p, n \in Elem : SpliceIn(h, p, n)
Spec == Init /\ [][Next]_vars

\* ---- the property: traversals yield the abstract sequences ----
\* nsync_dll_first_/next_ : forward traversal of list h
RECURSIVE Fwd(_, _, _)
Fwd(h, e, k) == IF k = 0 THEN <<>> ELSE IF e = L[h] THEN <<e>> ELSE <<e>> \o Fwd(h, nxt[e], k - 1)
Forward(h) == IF L[h] = 0 THEN <<>> ELSE Fwd(h, nxt[L[h]], NE + 1)
\* nsync_dll_last_/prev_ : backward traversal
RECURSIVE Bwd(_, _, _)
Bwd(h, e, k) == IF k = 0 THEN <<>> ELSE IF e = nxt[L[h]] THEN <<e>> ELSE <<e>> \o Bwd(h, prv[e], k - 1)
Backward(h) == IF L[h] = 0 THEN <<>> ELSE Bwd(h, L[h], NE + 1)
Reverse(s) == [i \in 1..Len(s) |-> s[Len(s) + 1 - i]]

SeqOK == \A h \in Heads : /\ Forward(h) = S[h]
                          /\ Backward(h) = Reverse(S[h])
                          /\ (L[h] = 0) <=> (S[h] = <<>>)            \* nsync_dll_is_empty_
RingsOK == \A r \in R : \A i \in 1..Len(r) :
              /\ nxt[r[i]] = r[(i % Len(r)) + 1]
              /\ prv[r[(i % Len(r)) + 1]] = r[i]
\* a removed element is a self-linked singleton (follows from RingsOK for <<e>>); all elements accounted for once
Partition == /\ \A e \in Elem : Cardinality({h \in Heads : e \in Range(S[h])}) + Cardinality({r \in R : e \in Range(r)}) = 1
             /\ \A h \in Heads : Len(S[h]) = Cardinality(Range(S[h]))
DllOK == SeqOK /\ RingsOK /\ Partition

\* ---- graph export ----
Obs == [L |-> [h \in Heads |-> L'[h]], nxt |-> [e \in Elem |-> nxt'[e]], prv |-> [e \in Elem |-> prv'[e]],
        S |-> [h \in Heads |-> S'[h]]]
Edge == PrintT(ToJson(<<"E", TLCFP(pvars), TLCFP(<<pvars, 1>>), TLCFP(pvars'), TLCFP(<<pvars', 1>>),
                        1, ToString(last'[1]) \o ":" \o ToString(last'[2]) \o ":" \o ToString(last'[3]), Obs>>))
InitPrint == (TLCGet("level") = 1) => PrintT(ToJson(<<"I", TLCFP(pvars), TLCFP(<<pvars, 1>>)>>))
View == pvars
====
