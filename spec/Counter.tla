---- MODULE Counter ----
(* internal/counter.c and the nsync_wait_n path of internal/wait.c that nsync_counter_wait takes, over
   the ideal lock of IdealMu (what C01/C02 establish for nsync_mu): one label per lock operation
   (_lk / _ul), per atomic operation on the counter's words or on a waiter record (_ld / _st / _cas),
   per semaphore call (_pd / _v), per client step (c0).  Property C10 (and C03's counter hand-off). *)
EXTENDS Integers, Sequences, FiniteSets, TLC, TLCExt, Json

CONSTANTS N,        \* threads
          Prog,     \* Prog[t] = sequence of [op, d, dl]: "add" (delta d), "value", "wait" (deadline dl, 0 = none)
          V0,       \* initial value
          MaxNow

Threads == 1..N
Expired(dl, now) == dl > 0 /\ now >= dl
Without(q, e) == SelectSeq(q, LAMBDA x : x # e)

(* --algorithm counter {
  variables
    value = V0, waited = 0,               \* nsync_counter_s_: value, waited
    cwaiters = <<>>,                      \* c->waiters: records of the threads queued (first..last)
    lockh = 0,                            \* holder of c->counter_mu (0 = free)
    nww = [t \in Threads |-> 0],          \* nsync_wait_n record of t: waiting
    sem = [t \in Threads |-> 0],          \* t's waiter semaphore
    now = 0,
    ip = [t \in Threads |-> 1],
    ret = [t \in Threads |-> -1],         \* value returned by the last add / value / wait
    \* ghosts
    everzero = (V0 = 0),                  \* the counter has been zero
    freed = FALSE;                        \* nsync_counter_free has returned: the counter's memory is gone

  define { CurOp(t) == Prog[t][ip[t]] }

  procedure add(d)
    variables v = 0, wk = 0;
  {
   ca_1_lk:  await lockh = 0; lockh := self;                                  \* counter.c:58 nsync_mu_lock
   ca_2_ld:  v := value;                                                      \* counter.c:60 ATM_LOAD
   ca_3_cas: if (value = v) { everzero := everzero \/ (v + d = 0); value := v + d; v := v + d; }   \* counter.c:61 ATM_CAS_RELACQ
             else { goto ca_2_ld; };
   ca_4_l:   if (d > 0 /\ v = d) { goto ca_4_ld; } else { goto ca_5_l; };
   ca_4_ld:  assert waited = 0;                                               \* counter.c:66 ATM_LOAD (&c->waited) inside ASSERT
   ca_5_l:   if (v # 0 \/ cwaiters = <<>>) { goto ca_7_ul; }
             else { wk := Head(cwaiters); cwaiters := Tail(cwaiters); };      \* counter.c:73-75 (plain, under the lock)
   ca_5_st:  nww[wk] := 0;                                                    \* counter.c:76 ATM_STORE_REL
   ca_6_v:   sem[wk] := sem[wk] + 1;                                          \* counter.c:77 nsync_mu_semaphore_v
             goto ca_5_l;
   ca_7_ul:  lockh := 0;                                                      \* counter.c:80 nsync_mu_unlock
             ret[self] := v; return;
  }

  \* nsync_counter_wait = nsync_wait_n (NULL, ..., dl, 1, {counter}) then a load of the value on timeout
  procedure cwait(dl)
    variables rdy = FALSE, enq = FALSE, still = FALSE;
  {
   cr_1_st:  waited := 1;                                                     \* counter.c:111 ATM_STORE (counter_ready_time)
   cr_2_ld:  if (value = 0) { ret[self] := 0; return; };                      \* counter.c:112 ATM_LOAD_ACQ: ready at once
   wn_1_st:  nww[self] := 0;                                                  \* wait.c:54 ATM_STORE
   ce_1_lk:  await lockh = 0; lockh := self;                                  \* counter.c:119
   ce_2_ld:  enq := value # 0;                                                \* counter.c:120 ATM_LOAD_ACQ
             if (value # 0) { cwaiters := Append(cwaiters, self); };          \* counter.c:122 (plain, under the lock)
   ce_3_st:  nww[self] := IF enq THEN 1 ELSE 0;                               \* counter.c:123 / 125 ATM_STORE
   ce_4_ul:  lockh := 0;
   wr_1_st:  waited := 1;                                                     \* wait.c:70 ready_time (v, &nw)
   wr_2_ld:  if (value = 0) { goto cd_1_lk; };                                \* min_ntime = zero: stop sleeping
   wn_7_pd:  await sem[self] > 0 \/ Expired(dl, now);                         \* wait.c:76 nsync_mu_semaphore_p_with_deadline
             if (sem[self] > 0) { sem[self] := sem[self] - 1; goto wr_1_st; };
   cd_1_lk:  await lockh = 0; lockh := self;                                  \* counter.c:134 (counter_dequeue)
   cd_2_ld:  still := value # 0;                                              \* counter.c:135
   cd_3_ld:  if (nww[self] = 0) { goto cd_5_ul; }                             \* counter.c:136
             else { cwaiters := Without(cwaiters, self); };                   \* counter.c:137 (plain, under the lock)
   cd_4_st:  nww[self] := 0;                                                  \* counter.c:138
   cd_5_ul:  lockh := 0;
             if (~still) { ret[self] := 0; return; };                         \* ready = 0: the counter is zero
   cw_1_ld:  ret[self] := value; return;                                      \* counter.c:102 ATM_LOAD_ACQ (timeout: report the value)
  }

  procedure cvalue()
  {
   cv_1_ld:  ret[self] := value; return;                                      \* counter.c:89 ATM_LOAD_ACQ
  }

  \* nsync_counter_free (counter.c:45-50): the lock is taken and released once so that whoever is still inside an operation has left
  procedure cfree()
  {
   cf_1_lk:  await lockh = 0; lockh := self;                                  \* counter.c:46
   cf_2_ul:  lockh := 0; freed := TRUE; ret[self] := 0; return;               \* counter.c:48-49 unlock; free (c)
  }

  procedure cnew()
  {
   cn_1_st:  ret[self] := 1; return;                                          \* counter.c:40 ATM_STORE (&c->value, value) of the fresh counter
  }

  process (thr \in Threads)
  {
   c0: while (ip[self] <= Len(Prog[self])) {
         if (CurOp(self).op = "add" /\ CurOp(self).d = 0) { ip[self] := ip[self] + 1; call cvalue(); }     \* counter.c:56
         else if (CurOp(self).op = "add") { ip[self] := ip[self] + 1; call add(CurOp(self).d); }
         else if (CurOp(self).op = "value") { ip[self] := ip[self] + 1; call cvalue(); }
         else if (CurOp(self).op = "new") {                                    \* nsync_counter_new (d) of a further counter; x = 1: its allocation fails (C19)
           ip[self] := ip[self] + 1;
           if (CurOp(self).x = 1) { ret[self] := 0; } else { call cnew(); };   \* NULL; the counter under test is untouched
         }
         else if (CurOp(self).op = "free") { ip[self] := ip[self] + 1; call cfree(); }
         else if (CurOp(self).op = "wait") { ip[self] := ip[self] + 1; call cwait(CurOp(self).dl); }
         else { ip[self] := ip[self] + 1; };
       };
  }
} *)
\* BEGIN TRANSLATION
CONSTANT defaultInitValue
VARIABLES pc, value, waited, cwaiters, lockh, nww, sem, now, ip, ret, 
          everzero, freed, stack

(* define statement *)
CurOp(t) == Prog[t][ip[t]]

VARIABLES d, v, wk, dl, rdy, enq, still

vars == << pc, value, waited, cwaiters, lockh, nww, sem, now, ip, ret, 
           everzero, freed, stack, d, v, wk, dl, rdy, enq, still >>

ProcSet == (Threads)

Init == (* Global variables *)
        /\ value = V0
        /\ waited = 0
        /\ cwaiters = <<>>
        /\ lockh = 0
        /\ nww = [t \in Threads |-> 0]
        /\ sem = [t \in Threads |-> 0]
        /\ now = 0
        /\ ip = [t \in Threads |-> 1]
        /\ ret = [t \in Threads |-> -1]
        /\ everzero = (V0 = 0)
        /\ freed = FALSE
        (* Procedure add *)
        /\ d = [ self \in ProcSet |-> defaultInitValue]
        /\ v = [ self \in ProcSet |-> 0]
        /\ wk = [ self \in ProcSet |-> 0]
        (* Procedure cwait *)
        /\ dl = [ self \in ProcSet |-> defaultInitValue]
        /\ rdy = [ self \in ProcSet |-> FALSE]
        /\ enq = [ self \in ProcSet |-> FALSE]
        /\ still = [ self \in ProcSet |-> FALSE]
        /\ stack = [self \in ProcSet |-> << >>]
        /\ pc = [self \in ProcSet |-> "c0"]

ca_1_lk(self) == /\ pc[self] = "ca_1_lk"
                 /\ lockh = 0
                 /\ lockh' = self
                 /\ pc' = [pc EXCEPT ![self] = "ca_2_ld"]
                 /\ UNCHANGED << value, waited, cwaiters, nww, sem, now, ip, 
                                 ret, everzero, freed, stack, d, v, wk, dl, 
                                 rdy, enq, still >>

ca_2_ld(self) == /\ pc[self] = "ca_2_ld"
                 /\ v' = [v EXCEPT ![self] = value]
                 /\ pc' = [pc EXCEPT ![self] = "ca_3_cas"]
                 /\ UNCHANGED << value, waited, cwaiters, lockh, nww, sem, now, 
                                 ip, ret, everzero, freed, stack, d, wk, dl, 
                                 rdy, enq, still >>

ca_3_cas(self) == /\ pc[self] = "ca_3_cas"
                  /\ IF value = v[self]
                        THEN /\ everzero' = (everzero \/ (v[self] + d[self] = 0))
                             /\ value' = v[self] + d[self]
                             /\ v' = [v EXCEPT ![self] = v[self] + d[self]]
                             /\ pc' = [pc EXCEPT ![self] = "ca_4_l"]
                        ELSE /\ pc' = [pc EXCEPT ![self] = "ca_2_ld"]
                             /\ UNCHANGED << value, everzero, v >>
                  /\ UNCHANGED << waited, cwaiters, lockh, nww, sem, now, ip, 
                                  ret, freed, stack, d, wk, dl, rdy, enq, 
                                  still >>

ca_4_l(self) == /\ pc[self] = "ca_4_l"
                /\ IF d[self] > 0 /\ v[self] = d[self]
                      THEN /\ pc' = [pc EXCEPT ![self] = "ca_4_ld"]
                      ELSE /\ pc' = [pc EXCEPT ![self] = "ca_5_l"]
                /\ UNCHANGED << value, waited, cwaiters, lockh, nww, sem, now, 
                                ip, ret, everzero, freed, stack, d, v, wk, dl, 
                                rdy, enq, still >>

ca_4_ld(self) == /\ pc[self] = "ca_4_ld"
                 /\ Assert(waited = 0, 
                           "Failure of assertion at line 41, column 14.")
                 /\ pc' = [pc EXCEPT ![self] = "ca_5_l"]
                 /\ UNCHANGED << value, waited, cwaiters, lockh, nww, sem, now, 
                                 ip, ret, everzero, freed, stack, d, v, wk, dl, 
                                 rdy, enq, still >>

ca_5_l(self) == /\ pc[self] = "ca_5_l"
                /\ IF v[self] # 0 \/ cwaiters = <<>>
                      THEN /\ pc' = [pc EXCEPT ![self] = "ca_7_ul"]
                           /\ UNCHANGED << cwaiters, wk >>
                      ELSE /\ wk' = [wk EXCEPT ![self] = Head(cwaiters)]
                           /\ cwaiters' = Tail(cwaiters)
                           /\ pc' = [pc EXCEPT ![self] = "ca_5_st"]
                /\ UNCHANGED << value, waited, lockh, nww, sem, now, ip, ret, 
                                everzero, freed, stack, d, v, dl, rdy, enq, 
                                still >>

ca_5_st(self) == /\ pc[self] = "ca_5_st"
                 /\ nww' = [nww EXCEPT ![wk[self]] = 0]
                 /\ pc' = [pc EXCEPT ![self] = "ca_6_v"]
                 /\ UNCHANGED << value, waited, cwaiters, lockh, sem, now, ip, 
                                 ret, everzero, freed, stack, d, v, wk, dl, 
                                 rdy, enq, still >>

ca_6_v(self) == /\ pc[self] = "ca_6_v"
                /\ sem' = [sem EXCEPT ![wk[self]] = sem[wk[self]] + 1]
                /\ pc' = [pc EXCEPT ![self] = "ca_5_l"]
                /\ UNCHANGED << value, waited, cwaiters, lockh, nww, now, ip, 
                                ret, everzero, freed, stack, d, v, wk, dl, rdy, 
                                enq, still >>

ca_7_ul(self) == /\ pc[self] = "ca_7_ul"
                 /\ lockh' = 0
                 /\ ret' = [ret EXCEPT ![self] = v[self]]
                 /\ pc' = [pc EXCEPT ![self] = Head(stack[self]).pc]
                 /\ v' = [v EXCEPT ![self] = Head(stack[self]).v]
                 /\ wk' = [wk EXCEPT ![self] = Head(stack[self]).wk]
                 /\ d' = [d EXCEPT ![self] = Head(stack[self]).d]
                 /\ stack' = [stack EXCEPT ![self] = Tail(stack[self])]
                 /\ UNCHANGED << value, waited, cwaiters, nww, sem, now, ip, 
                                 everzero, freed, dl, rdy, enq, still >>

add(self) == ca_1_lk(self) \/ ca_2_ld(self) \/ ca_3_cas(self)
                \/ ca_4_l(self) \/ ca_4_ld(self) \/ ca_5_l(self)
                \/ ca_5_st(self) \/ ca_6_v(self) \/ ca_7_ul(self)

cr_1_st(self) == /\ pc[self] = "cr_1_st"
                 /\ waited' = 1
                 /\ pc' = [pc EXCEPT ![self] = "cr_2_ld"]
                 /\ UNCHANGED << value, cwaiters, lockh, nww, sem, now, ip, 
                                 ret, everzero, freed, stack, d, v, wk, dl, 
                                 rdy, enq, still >>

cr_2_ld(self) == /\ pc[self] = "cr_2_ld"
                 /\ IF value = 0
                       THEN /\ ret' = [ret EXCEPT ![self] = 0]
                            /\ pc' = [pc EXCEPT ![self] = Head(stack[self]).pc]
                            /\ rdy' = [rdy EXCEPT ![self] = Head(stack[self]).rdy]
                            /\ enq' = [enq EXCEPT ![self] = Head(stack[self]).enq]
                            /\ still' = [still EXCEPT ![self] = Head(stack[self]).still]
                            /\ dl' = [dl EXCEPT ![self] = Head(stack[self]).dl]
                            /\ stack' = [stack EXCEPT ![self] = Tail(stack[self])]
                       ELSE /\ pc' = [pc EXCEPT ![self] = "wn_1_st"]
                            /\ UNCHANGED << ret, stack, dl, rdy, enq, still >>
                 /\ UNCHANGED << value, waited, cwaiters, lockh, nww, sem, now, 
                                 ip, everzero, freed, d, v, wk >>

wn_1_st(self) == /\ pc[self] = "wn_1_st"
                 /\ nww' = [nww EXCEPT ![self] = 0]
                 /\ pc' = [pc EXCEPT ![self] = "ce_1_lk"]
                 /\ UNCHANGED << value, waited, cwaiters, lockh, sem, now, ip, 
                                 ret, everzero, freed, stack, d, v, wk, dl, 
                                 rdy, enq, still >>

ce_1_lk(self) == /\ pc[self] = "ce_1_lk"
                 /\ lockh = 0
                 /\ lockh' = self
                 /\ pc' = [pc EXCEPT ![self] = "ce_2_ld"]
                 /\ UNCHANGED << value, waited, cwaiters, nww, sem, now, ip, 
                                 ret, everzero, freed, stack, d, v, wk, dl, 
                                 rdy, enq, still >>

ce_2_ld(self) == /\ pc[self] = "ce_2_ld"
                 /\ enq' = [enq EXCEPT ![self] = value # 0]
                 /\ IF value # 0
                       THEN /\ cwaiters' = Append(cwaiters, self)
                       ELSE /\ TRUE
                            /\ UNCHANGED cwaiters
                 /\ pc' = [pc EXCEPT ![self] = "ce_3_st"]
                 /\ UNCHANGED << value, waited, lockh, nww, sem, now, ip, ret, 
                                 everzero, freed, stack, d, v, wk, dl, rdy, 
                                 still >>

ce_3_st(self) == /\ pc[self] = "ce_3_st"
                 /\ nww' = [nww EXCEPT ![self] = IF enq[self] THEN 1 ELSE 0]
                 /\ pc' = [pc EXCEPT ![self] = "ce_4_ul"]
                 /\ UNCHANGED << value, waited, cwaiters, lockh, sem, now, ip, 
                                 ret, everzero, freed, stack, d, v, wk, dl, 
                                 rdy, enq, still >>

ce_4_ul(self) == /\ pc[self] = "ce_4_ul"
                 /\ lockh' = 0
                 /\ pc' = [pc EXCEPT ![self] = "wr_1_st"]
                 /\ UNCHANGED << value, waited, cwaiters, nww, sem, now, ip, 
                                 ret, everzero, freed, stack, d, v, wk, dl, 
                                 rdy, enq, still >>

wr_1_st(self) == /\ pc[self] = "wr_1_st"
                 /\ waited' = 1
                 /\ pc' = [pc EXCEPT ![self] = "wr_2_ld"]
                 /\ UNCHANGED << value, cwaiters, lockh, nww, sem, now, ip, 
                                 ret, everzero, freed, stack, d, v, wk, dl, 
                                 rdy, enq, still >>

wr_2_ld(self) == /\ pc[self] = "wr_2_ld"
                 /\ IF value = 0
                       THEN /\ pc' = [pc EXCEPT ![self] = "cd_1_lk"]
                       ELSE /\ pc' = [pc EXCEPT ![self] = "wn_7_pd"]
                 /\ UNCHANGED << value, waited, cwaiters, lockh, nww, sem, now, 
                                 ip, ret, everzero, freed, stack, d, v, wk, dl, 
                                 rdy, enq, still >>

wn_7_pd(self) == /\ pc[self] = "wn_7_pd"
                 /\ sem[self] > 0 \/ Expired(dl[self], now)
                 /\ IF sem[self] > 0
                       THEN /\ sem' = [sem EXCEPT ![self] = sem[self] - 1]
                            /\ pc' = [pc EXCEPT ![self] = "wr_1_st"]
                       ELSE /\ pc' = [pc EXCEPT ![self] = "cd_1_lk"]
                            /\ sem' = sem
                 /\ UNCHANGED << value, waited, cwaiters, lockh, nww, now, ip, 
                                 ret, everzero, freed, stack, d, v, wk, dl, 
                                 rdy, enq, still >>

cd_1_lk(self) == /\ pc[self] = "cd_1_lk"
                 /\ lockh = 0
                 /\ lockh' = self
                 /\ pc' = [pc EXCEPT ![self] = "cd_2_ld"]
                 /\ UNCHANGED << value, waited, cwaiters, nww, sem, now, ip, 
                                 ret, everzero, freed, stack, d, v, wk, dl, 
                                 rdy, enq, still >>

cd_2_ld(self) == /\ pc[self] = "cd_2_ld"
                 /\ still' = [still EXCEPT ![self] = value # 0]
                 /\ pc' = [pc EXCEPT ![self] = "cd_3_ld"]
                 /\ UNCHANGED << value, waited, cwaiters, lockh, nww, sem, now, 
                                 ip, ret, everzero, freed, stack, d, v, wk, dl, 
                                 rdy, enq >>

cd_3_ld(self) == /\ pc[self] = "cd_3_ld"
                 /\ IF nww[self] = 0
                       THEN /\ pc' = [pc EXCEPT ![self] = "cd_5_ul"]
                            /\ UNCHANGED cwaiters
                       ELSE /\ cwaiters' = Without(cwaiters, self)
                            /\ pc' = [pc EXCEPT ![self] = "cd_4_st"]
                 /\ UNCHANGED << value, waited, lockh, nww, sem, now, ip, ret, 
                                 everzero, freed, stack, d, v, wk, dl, rdy, 
                                 enq, still >>

cd_4_st(self) == /\ pc[self] = "cd_4_st"
                 /\ nww' = [nww EXCEPT ![self] = 0]
                 /\ pc' = [pc EXCEPT ![self] = "cd_5_ul"]
                 /\ UNCHANGED << value, waited, cwaiters, lockh, sem, now, ip, 
                                 ret, everzero, freed, stack, d, v, wk, dl, 
                                 rdy, enq, still >>

cd_5_ul(self) == /\ pc[self] = "cd_5_ul"
                 /\ lockh' = 0
                 /\ IF ~still[self]
                       THEN /\ ret' = [ret EXCEPT ![self] = 0]
                            /\ pc' = [pc EXCEPT ![self] = Head(stack[self]).pc]
                            /\ rdy' = [rdy EXCEPT ![self] = Head(stack[self]).rdy]
                            /\ enq' = [enq EXCEPT ![self] = Head(stack[self]).enq]
                            /\ still' = [still EXCEPT ![self] = Head(stack[self]).still]
                            /\ dl' = [dl EXCEPT ![self] = Head(stack[self]).dl]
                            /\ stack' = [stack EXCEPT ![self] = Tail(stack[self])]
                       ELSE /\ pc' = [pc EXCEPT ![self] = "cw_1_ld"]
                            /\ UNCHANGED << ret, stack, dl, rdy, enq, still >>
                 /\ UNCHANGED << value, waited, cwaiters, nww, sem, now, ip, 
                                 everzero, freed, d, v, wk >>

cw_1_ld(self) == /\ pc[self] = "cw_1_ld"
                 /\ ret' = [ret EXCEPT ![self] = value]
                 /\ pc' = [pc EXCEPT ![self] = Head(stack[self]).pc]
                 /\ rdy' = [rdy EXCEPT ![self] = Head(stack[self]).rdy]
                 /\ enq' = [enq EXCEPT ![self] = Head(stack[self]).enq]
                 /\ still' = [still EXCEPT ![self] = Head(stack[self]).still]
                 /\ dl' = [dl EXCEPT ![self] = Head(stack[self]).dl]
                 /\ stack' = [stack EXCEPT ![self] = Tail(stack[self])]
                 /\ UNCHANGED << value, waited, cwaiters, lockh, nww, sem, now, 
                                 ip, everzero, freed, d, v, wk >>

cwait(self) == cr_1_st(self) \/ cr_2_ld(self) \/ wn_1_st(self)
                  \/ ce_1_lk(self) \/ ce_2_ld(self) \/ ce_3_st(self)
                  \/ ce_4_ul(self) \/ wr_1_st(self) \/ wr_2_ld(self)
                  \/ wn_7_pd(self) \/ cd_1_lk(self) \/ cd_2_ld(self)
                  \/ cd_3_ld(self) \/ cd_4_st(self) \/ cd_5_ul(self)
                  \/ cw_1_ld(self)

cv_1_ld(self) == /\ pc[self] = "cv_1_ld"
                 /\ ret' = [ret EXCEPT ![self] = value]
                 /\ pc' = [pc EXCEPT ![self] = Head(stack[self]).pc]
                 /\ stack' = [stack EXCEPT ![self] = Tail(stack[self])]
                 /\ UNCHANGED << value, waited, cwaiters, lockh, nww, sem, now, 
                                 ip, everzero, freed, d, v, wk, dl, rdy, enq, 
                                 still >>

cvalue(self) == cv_1_ld(self)

cf_1_lk(self) == /\ pc[self] = "cf_1_lk"
                 /\ lockh = 0
                 /\ lockh' = self
                 /\ pc' = [pc EXCEPT ![self] = "cf_2_ul"]
                 /\ UNCHANGED << value, waited, cwaiters, nww, sem, now, ip, 
                                 ret, everzero, freed, stack, d, v, wk, dl, 
                                 rdy, enq, still >>

cf_2_ul(self) == /\ pc[self] = "cf_2_ul"
                 /\ lockh' = 0
                 /\ freed' = TRUE
                 /\ ret' = [ret EXCEPT ![self] = 0]
                 /\ pc' = [pc EXCEPT ![self] = Head(stack[self]).pc]
                 /\ stack' = [stack EXCEPT ![self] = Tail(stack[self])]
                 /\ UNCHANGED << value, waited, cwaiters, nww, sem, now, ip, 
                                 everzero, d, v, wk, dl, rdy, enq, still >>

cfree(self) == cf_1_lk(self) \/ cf_2_ul(self)

cn_1_st(self) == /\ pc[self] = "cn_1_st"
                 /\ ret' = [ret EXCEPT ![self] = 1]
                 /\ pc' = [pc EXCEPT ![self] = Head(stack[self]).pc]
                 /\ stack' = [stack EXCEPT ![self] = Tail(stack[self])]
                 /\ UNCHANGED << value, waited, cwaiters, lockh, nww, sem, now, 
                                 ip, everzero, freed, d, v, wk, dl, rdy, enq, 
                                 still >>

cnew(self) == cn_1_st(self)

c0(self) == /\ pc[self] = "c0"
            /\ IF ip[self] <= Len(Prog[self])
                  THEN /\ IF CurOp(self).op = "add" /\ CurOp(self).d = 0
                             THEN /\ ip' = [ip EXCEPT ![self] = ip[self] + 1]
                                  /\ stack' = [stack EXCEPT ![self] = << [ procedure |->  "cvalue",
                                                                           pc        |->  "c0" ] >>
                                                                       \o stack[self]]
                                  /\ pc' = [pc EXCEPT ![self] = "cv_1_ld"]
                                  /\ UNCHANGED << ret, d, v, wk, dl, rdy, enq, 
                                                  still >>
                             ELSE /\ IF CurOp(self).op = "add"
                                        THEN /\ ip' = [ip EXCEPT ![self] = ip[self] + 1]
                                             /\ /\ d' = [d EXCEPT ![self] = CurOp(self).d]
                                                /\ stack' = [stack EXCEPT ![self] = << [ procedure |->  "add",
                                                                                         pc        |->  "c0",
                                                                                         v         |->  v[self],
                                                                                         wk        |->  wk[self],
                                                                                         d         |->  d[self] ] >>
                                                                                     \o stack[self]]
                                             /\ v' = [v EXCEPT ![self] = 0]
                                             /\ wk' = [wk EXCEPT ![self] = 0]
                                             /\ pc' = [pc EXCEPT ![self] = "ca_1_lk"]
                                             /\ UNCHANGED << ret, dl, rdy, enq, 
                                                             still >>
                                        ELSE /\ IF CurOp(self).op = "value"
                                                   THEN /\ ip' = [ip EXCEPT ![self] = ip[self] + 1]
                                                        /\ stack' = [stack EXCEPT ![self] = << [ procedure |->  "cvalue",
                                                                                                 pc        |->  "c0" ] >>
                                                                                             \o stack[self]]
                                                        /\ pc' = [pc EXCEPT ![self] = "cv_1_ld"]
                                                        /\ UNCHANGED << ret, 
                                                                        dl, 
                                                                        rdy, 
                                                                        enq, 
                                                                        still >>
                                                   ELSE /\ IF CurOp(self).op = "new"
                                                              THEN /\ ip' = [ip EXCEPT ![self] = ip[self] + 1]
                                                                   /\ IF CurOp(self).x = 1
                                                                         THEN /\ ret' = [ret EXCEPT ![self] = 0]
                                                                              /\ pc' = [pc EXCEPT ![self] = "c0"]
                                                                              /\ stack' = stack
                                                                         ELSE /\ stack' = [stack EXCEPT ![self] = << [ procedure |->  "cnew",
                                                                                                                       pc        |->  "c0" ] >>
                                                                                                                   \o stack[self]]
                                                                              /\ pc' = [pc EXCEPT ![self] = "cn_1_st"]
                                                                              /\ ret' = ret
                                                                   /\ UNCHANGED << dl, 
                                                                                   rdy, 
                                                                                   enq, 
                                                                                   still >>
                                                              ELSE /\ IF CurOp(self).op = "free"
                                                                         THEN /\ ip' = [ip EXCEPT ![self] = ip[self] + 1]
                                                                              /\ stack' = [stack EXCEPT ![self] = << [ procedure |->  "cfree",
                                                                                                                       pc        |->  "c0" ] >>
                                                                                                                   \o stack[self]]
                                                                              /\ pc' = [pc EXCEPT ![self] = "cf_1_lk"]
                                                                              /\ UNCHANGED << dl, 
                                                                                              rdy, 
                                                                                              enq, 
                                                                                              still >>
                                                                         ELSE /\ IF CurOp(self).op = "wait"
                                                                                    THEN /\ ip' = [ip EXCEPT ![self] = ip[self] + 1]
                                                                                         /\ /\ dl' = [dl EXCEPT ![self] = CurOp(self).dl]
                                                                                            /\ stack' = [stack EXCEPT ![self] = << [ procedure |->  "cwait",
                                                                                                                                     pc        |->  "c0",
                                                                                                                                     rdy       |->  rdy[self],
                                                                                                                                     enq       |->  enq[self],
                                                                                                                                     still     |->  still[self],
                                                                                                                                     dl        |->  dl[self] ] >>
                                                                                                                                 \o stack[self]]
                                                                                         /\ rdy' = [rdy EXCEPT ![self] = FALSE]
                                                                                         /\ enq' = [enq EXCEPT ![self] = FALSE]
                                                                                         /\ still' = [still EXCEPT ![self] = FALSE]
                                                                                         /\ pc' = [pc EXCEPT ![self] = "cr_1_st"]
                                                                                    ELSE /\ ip' = [ip EXCEPT ![self] = ip[self] + 1]
                                                                                         /\ pc' = [pc EXCEPT ![self] = "c0"]
                                                                                         /\ UNCHANGED << stack, 
                                                                                                         dl, 
                                                                                                         rdy, 
                                                                                                         enq, 
                                                                                                         still >>
                                                                   /\ ret' = ret
                                             /\ UNCHANGED << d, v, wk >>
                  ELSE /\ pc' = [pc EXCEPT ![self] = "Done"]
                       /\ UNCHANGED << ip, ret, stack, d, v, wk, dl, rdy, enq, 
                                       still >>
            /\ UNCHANGED << value, waited, cwaiters, lockh, nww, sem, now, 
                            everzero, freed >>

thr(self) == c0(self)

(* Allow infinite stuttering to prevent deadlock on termination. *)
Terminating == /\ \A self \in ProcSet: pc[self] = "Done"
               /\ UNCHANGED vars

Next == (\E self \in ProcSet:  \/ add(self) \/ cwait(self) \/ cvalue(self)
                               \/ cfree(self) \/ cnew(self))
           \/ (\E self \in Threads: thr(self))
           \/ Terminating

Spec == Init /\ [][Next]_vars

Termination == <>(\A self \in ProcSet: pc[self] = "Done")

\* END TRANSLATION

LocalLabels == {"ca_4_l", "ca_5_l"}
Step(self) == add(self) \/ cwait(self) \/ cvalue(self) \/ cfree(self) \/ cnew(self) \/ thr(self)
TickUseful == \E u \in Threads : pc[u] = "wn_7_pd" /\ dl[u] > now
Tick == /\ now < MaxNow /\ TickUseful
        /\ now' = now + 1
        /\ UNCHANGED <<pc, value, waited, cwaiters, lockh, nww, sem, ip, ret, everzero, freed, stack, d, v, wk, dl, rdy, enq, still>>
\* BEGIN GENERATED (tools/mkspec.py)
KindMap == [x \in {"c0", "ca_1_lk", "ca_2_ld", "ca_3_cas", "ca_4_l", "ca_4_ld", "ca_5_l", "ca_5_st", "ca_6_v", "ca_7_ul", "cd_1_lk", "cd_2_ld", "cd_3_ld", "cd_4_st", "cd_5_ul", "ce_1_lk", "ce_2_ld", "ce_3_st", "ce_4_ul", "cf_1_lk", "cf_2_ul", "cn_1_st", "cr_1_st", "cr_2_ld", "cv_1_ld", "cw_1_ld", "wn_1_st", "wn_7_pd", "wr_1_st", "wr_2_ld", "Done"} |-> CASE x = "c0" -> "c" [] x = "ca_1_lk" -> "lock" [] x = "ca_2_ld" -> "ld" [] x = "ca_3_cas" -> "cas" [] x = "ca_4_l" -> "local" [] x = "ca_4_ld" -> "ld" [] x = "ca_5_l" -> "local" [] x = "ca_5_st" -> "st" [] x = "ca_6_v" -> "v" [] x = "ca_7_ul" -> "unlock" [] x = "cd_1_lk" -> "lock" [] x = "cd_2_ld" -> "ld" [] x = "cd_3_ld" -> "ld" [] x = "cd_4_st" -> "st" [] x = "cd_5_ul" -> "unlock" [] x = "ce_1_lk" -> "lock" [] x = "ce_2_ld" -> "ld" [] x = "ce_3_st" -> "st" [] x = "ce_4_ul" -> "unlock" [] x = "cf_1_lk" -> "lock" [] x = "cf_2_ul" -> "unlock" [] x = "cn_1_st" -> "st" [] x = "cr_1_st" -> "st" [] x = "cr_2_ld" -> "ld" [] x = "cv_1_ld" -> "ld" [] x = "cw_1_ld" -> "ld" [] x = "wn_1_st" -> "st" [] x = "wn_7_pd" -> "pd" [] x = "wr_1_st" -> "st" [] x = "wr_2_ld" -> "ld" [] x = "Done" -> "none"]
ResetAll == (* Global variables *)
        /\ value' = V0
        /\ waited' = 0
        /\ cwaiters' = <<>>
        /\ lockh' = 0
        /\ nww' = [t \in Threads |-> 0]
        /\ sem' = [t \in Threads |-> 0]
        /\ now' = 0
        /\ ip' = [t \in Threads |-> 1]
        /\ ret' = [t \in Threads |-> -1]
        /\ everzero' = (V0 = 0)
        /\ freed' = FALSE
        (* Procedure add *)
        /\ d' = [ self \in ProcSet |-> defaultInitValue]
        /\ v' = [ self \in ProcSet |-> 0]
        /\ wk' = [ self \in ProcSet |-> 0]
        (* Procedure cwait *)
        /\ dl' = [ self \in ProcSet |-> defaultInitValue]
        /\ rdy' = [ self \in ProcSet |-> FALSE]
        /\ enq' = [ self \in ProcSet |-> FALSE]
        /\ still' = [ self \in ProcSet |-> FALSE]
        /\ stack' = [self \in ProcSet |-> << >>]
        /\ pc' = [self \in ProcSet |-> "c0"]
\* END GENERATED
LocalPending == {u \in Threads : pc[u] \in LocalLabels}
NextU == IF LocalPending # {} THEN Step(CHOOSE u \in LocalPending : TRUE)
         ELSE (\E self \in Threads : Step(self)) \/ Tick
SpecU == Init /\ [][NextU]_vars

AllDone == \A u \in Threads : pc[u] = "Done"
\* C10
NeverNegative == value >= 0
WaitersOnlyIfNonZero == (value = 0 /\ lockh = 0) => cwaiters = <<>>      \* everybody waiting at zero has been released
QueuedAreWaiting == (lockh = 0) => \A i \in 1..Len(cwaiters) : nww[cwaiters[i]] = 1
\* C13: once the counter is freed no thread is still inside one of its operations
InCounter(u) == \E j \in 1..Len(stack[u]) : stack[u][j].procedure \in {"add", "cwait", "cvalue"}
NoUseAfterFree == freed => \A u \in Threads : ~InCounter(u)
BadSet == {x \in {"NeverNegative", "WaitersOnlyIfNonZero", "QueuedAreWaiting", "NoUseAfterFree"} :
             \/ (x = "NoUseAfterFree" /\ ~NoUseAfterFree)
             \/ (x = "NeverNegative" /\ ~NeverNegative) \/ (x = "WaitersOnlyIfNonZero" /\ ~WaitersOnlyIfNonZero)
             \/ (x = "QueuedAreWaiting" /\ ~QueuedAreWaiting)}

Moved(a) == pc[a] # pc'[a] \/ ip[a] # ip'[a]
Actor == IF \E a \in Threads : Moved(a) THEN CHOOSE a \in Threads : Moved(a) ELSE 0
Obs == [value |-> IF freed' THEN 0 ELSE value', waited |-> IF freed' THEN 0 ELSE waited', q |-> cwaiters', lockh |-> lockh', nww |-> nww', sem |-> sem', now |-> now', ret |-> ret',
        bad |-> BadSet', done |-> AllDone']
Edge == (vars # vars') =>
          PrintT(ToJson(<<"E", TLCFP(vars), TLCFP(<<vars, 1>>), TLCFP(vars'), TLCFP(<<vars', 1>>),
                          Actor, IF Actor = 0 THEN "Tick" ELSE pc[Actor], Obs>>))
InitPrint == (TLCGet("level") = 1) => PrintT(ToJson(<<"I", TLCFP(vars), TLCFP(<<vars, 1>>)>>))
====
