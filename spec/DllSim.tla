---- MODULE DllSim ----
(* Simulation wrapper: carries the behaviour as a history variable and prints it (JSON) once it is
   D steps long; used with `tlc -simulate` for universes too large to enumerate. *)
EXTENDS Dll
CONSTANT D
VARIABLE hist
InitS == Init /\ hist = <<>>
NextS == Next /\ hist' = Append(hist, <<ToString(last'[1]) \o ":" \o ToString(last'[2]) \o ":" \o ToString(last'[3]), Obs>>)
SpecS == InitS /\ [][NextS]_<<vars, hist>>
Emit == Len(hist) < D \/ PrintT(ToJson(<<"H", hist>>))
====
