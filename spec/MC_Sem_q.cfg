SPECIFICATION SpecE
CONSTANTS NP = 2 WOps = 2 POps = 1 Timed = TRUE DL = 1 MaxNow = 2 F = 2 AcceptEarlyTimeout = FALSE WakeOnV = TRUE defaultInitValue = 0
INVARIANT Conservation
INVARIANT NoFreeSuccess
INVARIANT TimeoutHonest
INVARIANT NoLostPost
CHECK_DEADLOCK FALSE
