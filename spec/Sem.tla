---- MODULE Sem ----
(* platform/linux/src/nsync_semaphore_futex.c at the granularity of its atomic operations
   and futex system calls (one label per ATM_* / futex call, source order), against a
   modelled kernel futex: the value check and the sleep of FUTEX_WAIT are one atomic step,
   FUTEX_WAKE wakes at most one sleeper, timeouts are absolute on the clock `now`, and the
   kernel wait may return early (EINTR, spurious 0, premature ETIMEDOUT), each early return
   consuming one unit of the fault budget F.  Property C12. *)
EXTENDS Integers, Sequences, FiniteSets, TLC, TLCExt, Json

CONSTANTS NP,        \* number of posters (threads 2..NP+1); thread 1 is the waiter
          WOps,      \* number of P calls made by the waiter
          POps,      \* number of V calls made by each poster
          Timed,     \* TRUE: the waiter calls nsync_mu_semaphore_p_with_deadline (deadline DL)
          DL,        \* deadline, in clock ticks
          MaxNow,    \* the clock runs 0..MaxNow
          F,         \* fault budget
          AcceptEarlyTimeout, \* FALSE in the real code: ETIMEDOUT is accepted only if the clock agrees
          WakeOnV    \* TRUE in the real code: V calls futex_wake

Posters == 2..(NP + 1)
Threads == 1..(NP + 1)

(* --algorithm sem {
  variables i = 0,                 \* futex word (struct futex.i)
            asleep = FALSE,        \* waiter is inside the kernel wait
            woken = FALSE,         \* a futex_wake picked the sleeping waiter
            now = 0, faults = 0,
            posts = 0, takes = 0,  \* ghosts: completed V increments, successful P returns
            res = -1,              \* result of the waiter's last P (0 / "ETIMEDOUT" = 110)
            err = 0;               \* errno of the last futex wait return (ghost, for the log)

  procedure P()
    variables iw = 0;
  {
   p_ld:  iw := i;                                             \* futex.c:75 / 93  ATM_LOAD
          if (iw # 0) { goto p_cas; };
   p_fw:  \* futex.c:77 / 118: futex (FUTEX_WAIT_BITSET | CLOCK_REALTIME, i, ts)
          if (i # iw) { err := 11; goto p_ld; }                \* EAGAIN: value changed
          else if (Timed /\ now >= DL) {                       \* already expired: ETIMEDOUT, clock agrees
              err := 110; res := 110; return; }
          else { asleep := TRUE; err := 0; };
   p_sl:  \* return from the kernel wait

          either { await woken; woken := FALSE; asleep := FALSE; err := 0; goto p_ld; }
          or     { await ~woken /\ Timed /\ now >= DL; asleep := FALSE; err := 110; res := 110; return; }
          or     { await ~woken /\ faults < F; faults := faults + 1; asleep := FALSE;
                   with (e \in IF Timed THEN {4, 0, 110} ELSE {4, 0}) {   \* EINTR, spurious 0, early ETIMEDOUT
                     err := e;
                     if (e = 110 /\ (now >= DL \/ AcceptEarlyTimeout)) { res := 110; return; }
                     else { goto p_ld; };
                   };
                 };
   p_cas: if (i = iw) { i := iw - 1; takes := takes + 1; res := 0; return; }   \* futex.c:82 / 127 ATM_CAS_ACQ
          else { goto p_ld; };
  }

  procedure V()
    variables old = 0;
  {
   v_ld:  old := i;                                            \* futex.c:136 ATM_LOAD
   v_cas: if (i = old) { i := old + 1; posts := posts + 1; }   \* futex.c:137 ATM_CAS_REL
          else { goto v_ld; };
   v_wk:  if (WakeOnV /\ asleep /\ ~woken) { woken := TRUE; }; \* futex.c:138 futex (FUTEX_WAKE, 1)
          return;
  }

  process (w = 1)
    variables n = 0;
  {
   c0: while (n < WOps) {
         n := n + 1;
         call P();
       };
  }

  process (p \in Posters)
    variables m = 0;
  {
   d0: while (m < POps) {
         m := m + 1;
         call V();
       };
  }
} *)
\* BEGIN TRANSLATION
VARIABLES pc, i, asleep, woken, now, faults, posts, takes, res, err, stack, 
          iw, old, n, m

vars == << pc, i, asleep, woken, now, faults, posts, takes, res, err, stack, 
           iw, old, n, m >>

ProcSet == {1} \cup (Posters)

Init == (* Global variables *)
        /\ i = 0
        /\ asleep = FALSE
        /\ woken = FALSE
        /\ now = 0
        /\ faults = 0
        /\ posts = 0
        /\ takes = 0
        /\ res = -1
        /\ err = 0
        (* Procedure P *)
        /\ iw = [ self \in ProcSet |-> 0]
        (* Procedure V *)
        /\ old = [ self \in ProcSet |-> 0]
        (* Process w *)
        /\ n = 0
        (* Process p *)
        /\ m = [self \in Posters |-> 0]
        /\ stack = [self \in ProcSet |-> << >>]
        /\ pc = [self \in ProcSet |-> CASE self = 1 -> "c0"
                                        [] self \in Posters -> "d0"]

p_ld(self) == /\ pc[self] = "p_ld"
              /\ iw' = [iw EXCEPT ![self] = i]
              /\ IF iw'[self] # 0
                    THEN /\ pc' = [pc EXCEPT ![self] = "p_cas"]
                    ELSE /\ pc' = [pc EXCEPT ![self] = "p_fw"]
              /\ UNCHANGED << i, asleep, woken, now, faults, posts, takes, res, 
                              err, stack, old, n, m >>

p_fw(self) == /\ pc[self] = "p_fw"
              /\ IF i # iw[self]
                    THEN /\ err' = 11
                         /\ pc' = [pc EXCEPT ![self] = "p_ld"]
                         /\ UNCHANGED << asleep, res, stack, iw >>
                    ELSE /\ IF Timed /\ now >= DL
                               THEN /\ err' = 110
                                    /\ res' = 110
                                    /\ pc' = [pc EXCEPT ![self] = Head(stack[self]).pc]
                                    /\ iw' = [iw EXCEPT ![self] = Head(stack[self]).iw]
                                    /\ stack' = [stack EXCEPT ![self] = Tail(stack[self])]
                                    /\ UNCHANGED asleep
                               ELSE /\ asleep' = TRUE
                                    /\ err' = 0
                                    /\ pc' = [pc EXCEPT ![self] = "p_sl"]
                                    /\ UNCHANGED << res, stack, iw >>
              /\ UNCHANGED << i, woken, now, faults, posts, takes, old, n, m >>

p_sl(self) == /\ pc[self] = "p_sl"
              /\ \/ /\ woken
                    /\ woken' = FALSE
                    /\ asleep' = FALSE
                    /\ err' = 0
                    /\ pc' = [pc EXCEPT ![self] = "p_ld"]
                    /\ UNCHANGED <<faults, res, stack, iw>>
                 \/ /\ ~woken /\ Timed /\ now >= DL
                    /\ asleep' = FALSE
                    /\ err' = 110
                    /\ res' = 110
                    /\ pc' = [pc EXCEPT ![self] = Head(stack[self]).pc]
                    /\ iw' = [iw EXCEPT ![self] = Head(stack[self]).iw]
                    /\ stack' = [stack EXCEPT ![self] = Tail(stack[self])]
                    /\ UNCHANGED <<woken, faults>>
                 \/ /\ ~woken /\ faults < F
                    /\ faults' = faults + 1
                    /\ asleep' = FALSE
                    /\ \E e \in IF Timed THEN {4, 0, 110} ELSE {4, 0}:
                         /\ err' = e
                         /\ IF e = 110 /\ (now >= DL \/ AcceptEarlyTimeout)
                               THEN /\ res' = 110
                                    /\ pc' = [pc EXCEPT ![self] = Head(stack[self]).pc]
                                    /\ iw' = [iw EXCEPT ![self] = Head(stack[self]).iw]
                                    /\ stack' = [stack EXCEPT ![self] = Tail(stack[self])]
                               ELSE /\ pc' = [pc EXCEPT ![self] = "p_ld"]
                                    /\ UNCHANGED << res, stack, iw >>
                    /\ woken' = woken
              /\ UNCHANGED << i, now, posts, takes, old, n, m >>

p_cas(self) == /\ pc[self] = "p_cas"
               /\ IF i = iw[self]
                     THEN /\ i' = iw[self] - 1
                          /\ takes' = takes + 1
                          /\ res' = 0
                          /\ pc' = [pc EXCEPT ![self] = Head(stack[self]).pc]
                          /\ iw' = [iw EXCEPT ![self] = Head(stack[self]).iw]
                          /\ stack' = [stack EXCEPT ![self] = Tail(stack[self])]
                     ELSE /\ pc' = [pc EXCEPT ![self] = "p_ld"]
                          /\ UNCHANGED << i, takes, res, stack, iw >>
               /\ UNCHANGED << asleep, woken, now, faults, posts, err, old, n, 
                               m >>

P(self) == p_ld(self) \/ p_fw(self) \/ p_sl(self) \/ p_cas(self)

v_ld(self) == /\ pc[self] = "v_ld"
              /\ old' = [old EXCEPT ![self] = i]
              /\ pc' = [pc EXCEPT ![self] = "v_cas"]
              /\ UNCHANGED << i, asleep, woken, now, faults, posts, takes, res, 
                              err, stack, iw, n, m >>

v_cas(self) == /\ pc[self] = "v_cas"
               /\ IF i = old[self]
                     THEN /\ i' = old[self] + 1
                          /\ posts' = posts + 1
                          /\ pc' = [pc EXCEPT ![self] = "v_wk"]
                     ELSE /\ pc' = [pc EXCEPT ![self] = "v_ld"]
                          /\ UNCHANGED << i, posts >>
               /\ UNCHANGED << asleep, woken, now, faults, takes, res, err, 
                               stack, iw, old, n, m >>

v_wk(self) == /\ pc[self] = "v_wk"
              /\ IF WakeOnV /\ asleep /\ ~woken
                    THEN /\ woken' = TRUE
                    ELSE /\ TRUE
                         /\ woken' = woken
              /\ pc' = [pc EXCEPT ![self] = Head(stack[self]).pc]
              /\ old' = [old EXCEPT ![self] = Head(stack[self]).old]
              /\ stack' = [stack EXCEPT ![self] = Tail(stack[self])]
              /\ UNCHANGED << i, asleep, now, faults, posts, takes, res, err, 
                              iw, n, m >>

V(self) == v_ld(self) \/ v_cas(self) \/ v_wk(self)

c0 == /\ pc[1] = "c0"
      /\ IF n < WOps
            THEN /\ n' = n + 1
                 /\ stack' = [stack EXCEPT ![1] = << [ procedure |->  "P",
                                                       pc        |->  "c0",
                                                       iw        |->  iw[1] ] >>
                                                   \o stack[1]]
                 /\ iw' = [iw EXCEPT ![1] = 0]
                 /\ pc' = [pc EXCEPT ![1] = "p_ld"]
            ELSE /\ pc' = [pc EXCEPT ![1] = "Done"]
                 /\ UNCHANGED << stack, iw, n >>
      /\ UNCHANGED << i, asleep, woken, now, faults, posts, takes, res, err, 
                      old, m >>

w == c0

d0(self) == /\ pc[self] = "d0"
            /\ IF m[self] < POps
                  THEN /\ m' = [m EXCEPT ![self] = m[self] + 1]
                       /\ stack' = [stack EXCEPT ![self] = << [ procedure |->  "V",
                                                                pc        |->  "d0",
                                                                old       |->  old[self] ] >>
                                                            \o stack[self]]
                       /\ old' = [old EXCEPT ![self] = 0]
                       /\ pc' = [pc EXCEPT ![self] = "v_ld"]
                  ELSE /\ pc' = [pc EXCEPT ![self] = "Done"]
                       /\ UNCHANGED << stack, old, m >>
            /\ UNCHANGED << i, asleep, woken, now, faults, posts, takes, res, 
                            err, iw, n >>

p(self) == d0(self)

(* Allow infinite stuttering to prevent deadlock on termination. *)
Terminating == /\ \A self \in ProcSet: pc[self] = "Done"
               /\ UNCHANGED vars

Next == w
           \/ (\E self \in ProcSet: P(self) \/ V(self))
           \/ (\E self \in Posters: p(self))
           \/ Terminating

Spec == Init /\ [][Next]_vars

Termination == <>(\A self \in ProcSet: pc[self] = "Done")

\* END TRANSLATION

Tick == /\ now < MaxNow
        /\ now' = now + 1
        /\ UNCHANGED <<i, asleep, woken, faults, posts, takes, res, err, pc, stack, iw, old, n, m>>

NextE == Next \/ Tick
SpecE == Init /\ [][NextE]_vars
FairSpecE == SpecE /\ \A t \in Threads : WF_vars(w \/ P(1) \/ V(t) \/ p(t)) /\ WF_vars(Tick)

----
\* Properties (C12)
Conservation == i = posts - takes /\ i >= 0          \* no post is lost, none invented
NoFreeSuccess == takes <= posts                       \* a wait never succeeds without a post
TimeoutHonest == (res = 110) => now >= DL             \* ETIMEDOUT only at or after the deadline
AllDone == \A t \in Threads : pc[t] = "Done"
\* a post makes a pending or future wait return: the waiter is never left asleep (or looping)
\* in a state from which nothing can happen while the count is positive
NoLostPost == (~ENABLED NextE) => (AllDone \/ (i = 0 /\ pc[1] = "p_sl" /\ ~Timed))
\* an untimed waiter may legitimately sleep for ever only if all posts have been consumed
WaiterReturns == (\A t \in Posters : pc[t] = "Done") /\ posts > takes ~> pc[1] = "Done" \/ takes = posts

----
\* Graph export for lock-step replay (DESIGN 3.3)
Actor == IF \E a \in Threads : pc[a] # pc'[a] THEN CHOOSE a \in Threads : pc[a] # pc'[a] ELSE 0
Obs == [i |-> i', asleep |-> asleep', woken |-> woken', now |-> now', res |-> res', err |-> err']
Edge == (vars # vars') =>
          PrintT(ToJson(<<"E", TLCFP(vars), TLCFP(<<vars, 1>>), TLCFP(vars'), TLCFP(<<vars', 1>>),
                          Actor, IF Actor = 0 THEN "Tick" ELSE pc[Actor], Obs>>))
InitPrint == (TLCGet("level") = 1) => PrintT(ToJson(<<"I", TLCFP(vars), TLCFP(<<vars, 1>>)>>))
====
