---- MODULE OnceTrace ----
(* Code -> spec for Once.tla: executions of the real once.c over the ideal lock and condition variable, recorded by h_l2 under random
   schedules (thread, kind of operation, the two once words afterwards; tick / reset lines), must be behaviours of Once.tla; AtMostOnce,
   NobodyEarly and DoneMeansRan are evaluated in every matched state. *)
EXTENDS Once, IOUtils
Tr == ndJsonDeserialize(IOEnv.TRACE)
VARIABLE l
tvars == <<vars, l>>
TraceInit == Init /\ l = 1 /\ TLCSet(1, 0)
TraceLocal == /\ LocalPending # {}
              /\ Step(CHOOSE u \in LocalPending : TRUE)
              /\ UNCHANGED l
TraceStep == /\ LocalPending = {}
             /\ l <= Len(Tr)
             /\ LET e == Tr[l] IN
                  CASE e.k = "tick" -> IF TickUseful THEN Tick ELSE UNCHANGED vars      \* the clock also moves when no waiter is left whose short
                                                                                          \* deadline matters: nothing changes then
                    [] e.k = "reset" -> ResetAll
                    [] OTHER -> /\ KindMap[pc[e.t]] = e.k
                                /\ Step(e.t)
                                /\ ow'[0] = e.ow[1] /\ ow'[1] = e.ow[2]
             /\ l' = l + 1
TraceNext == TraceLocal \/ TraceStep
TraceSpec == TraceInit /\ [][TraceNext]_tvars
Progress == TLCSet(1, IF TLCGet(1) > l THEN TLCGet(1) ELSE l)
Accepted == PrintT(<<"matched", TLCGet(1) - 1, "of", Len(Tr)>>) /\ TLCGet(1) = Len(Tr) + 1
====
