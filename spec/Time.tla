---- MODULE Time ----
(* nsync_time arithmetic (platform/posix/src/time_rep.c, platform/c++11/src/time_rep_timespec.cc,
   internal/time_internal.c) transcribed with the C carry / borrow structure over pairs
   [s |-> seconds, n |-> nanoseconds] and radix R (= 10^9 in the code), and the outcome table of the
   timed entry points for each class of deadline (C15).
   C18: TLC checks the algebraic laws exhaustively for a small radix (the algorithm is uniform in R),
   and evaluates the transcribed operators for R = 10^9 on the part of the boundary grid that fits
   TLC's 32-bit integers; the results are compared with the real C and C++ functions. *)
EXTENDS Integers, Sequences, TLC, Json

CONSTANTS R,          \* radix: nanoseconds per second
          SMax,       \* small-radix law checking: seconds range -SMax..SMax
          GridS, GridN, GridU   \* R = 10^9 evaluation grids: seconds, nanoseconds, unsigned ms/us arguments

T(s, n) == [s |-> s, n |-> n]
\* nsync_time_add (time_rep.c:65-73)
Add(a, b) == LET s == a.s + b.s  n == a.n + b.n
             IN IF n >= R THEN T(s + 1, n - R) ELSE T(s, n)
\* nsync_time_sub (time_rep.c:75-83)
Sub(a, b) == LET s == a.s - b.s
             IN IF a.n < b.n THEN T(s - 1, (a.n + R) - b.n) ELSE T(s, a.n - b.n)
Sgn(x, y) == IF x > y THEN 1 ELSE IF x < y THEN -1 ELSE 0
\* nsync_time_cmp (time_rep.c:85-93)
Cmp(a, b) == IF Sgn(a.s, b.s) # 0 THEN Sgn(a.s, b.s) ELSE Sgn(a.n, b.n)
\* nsync_time_ms / nsync_time_us (time_internal.c:23-31), written for a general radix R = 1000 * K (ms) / 1000000 * K' (us)
Ms(ms) == T(ms \div 1000, (R \div 1000) * (ms % 1000))
Us(us) == T(us \div 1000000, (R \div 1000000) * (us % 1000000))

\* ---- laws, for a radix small enough that s * R + n fits ----
Val(a) == a.s * R + a.n
Normal(a) == 0 <= a.n /\ a.n < R
Times == {T(s, n) : s \in (-SMax)..SMax, n \in 0..(R - 1)}
VARIABLES a, b
Init == a \in Times /\ b \in Times
Next == UNCHANGED <<a, b>>
Spec == Init /\ [][Next]_<<a, b>>
Laws == /\ Normal(Add(a, b)) /\ Val(Add(a, b)) = Val(a) + Val(b)
        /\ Normal(Sub(a, b)) /\ Val(Sub(a, b)) = Val(a) - Val(b)
        /\ Sub(Add(a, b), b) = a
        /\ Cmp(a, b) = Sgn(Val(a), Val(b))
        /\ Cmp(a, b) = -Cmp(b, a)
        /\ (Cmp(a, b) = 0) <=> (a = b)
        /\ (a.s >= 0 => Cmp(T(0, 0), a) <= 0)

\* ---- evaluation for R = 10^9 on the grid (values stay within 32 bits) ----
GTimes == {T(s, n) : s \in GridS, n \in GridN}
EvalInit == a \in GTimes /\ b \in GTimes
EvalSpec == EvalInit /\ [][Next]_<<a, b>>
EmitPair == PrintT(ToJson(<<"P", a.s, a.n, b.s, b.n, Add(a, b).s, Add(a, b).n, Sub(a, b).s, Sub(a, b).n, Cmp(a, b)>>))
EmitDur == (a = T(0, 0) /\ b = T(0, 0)) =>
             \A u \in GridU : PrintT(ToJson(<<"D", u, Ms(u).s, Ms(u).n, Us(u).s, Us(u).n>>))
Emit == EmitPair /\ EmitDur

\* ---- C15: what each timed entry point may do for each class of deadline ----
\* kind: "pred" (nsync_mu_wait_with_deadline: a true condition wins), "obj" (note / counter / nsync_wait_n: a ready
\* object wins), "cv" (nsync_cv_wait_with_deadline: nothing to test, it waits)
DeadlineClass == {"zero", "neg_ns", "neg_s", "neg_big", "past", "future", "max1", "none"}
IsPast(c) == c \in {"zero", "neg_ns", "neg_s", "neg_big", "past"}
Outcome(kind, c, happened) ==
  IF happened /\ kind \in {"pred", "obj"} THEN {"event"}
  ELSE IF IsPast(c) THEN {"timeout_promptly"}
  ELSE IF c = "future" THEN {"timeout_not_early"}
  ELSE {"blocks"}                      \* max-1 or no deadline, nothing happens: the call keeps waiting (not exercised)
EmitOutcomes == \A k \in {"pred", "obj", "cv"}, c \in DeadlineClass, h \in BOOLEAN :
                  PrintT(ToJson(<<"O", k, c, h, Outcome(k, c, h)>>))
OutInit == a = T(0, 0) /\ b = T(0, 0) /\ EmitOutcomes
OutSpec == OutInit /\ [][Next]_<<a, b>>
====
