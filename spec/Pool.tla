---- MODULE Pool ----
(* The waiter pool of internal/common.c: nsync_waiter_new_ / nsync_waiter_free_ / waiter_destroy (the per-thread destructor run at
   thread exit) and the spinlock free_waiters_mu (nsync_spin_test_and_set_) that protects the free list.  Every blocking nsync
   operation gets its waiter (and so its semaphore) here; Mu.tla models only WHICH waiter a thread gets (variables mw/pool) and runs
   these functions atomically, so their internal locking is specified here.  One label per atomic operation on the spinlock word
   (_ld / _cas / _st), per spin delay (_d), per atomic initialisation store of a fresh waiter (_st); plain list and flag operations
   belong to the step before them (they are made under the spinlock or on a waiter no other thread can reach).
   Invariants: a waiter is in use by at most one thread, never both free and in use, never twice on the free list, never lost. *)
EXTENDS Integers, Sequences, FiniteSets, TLC, TLCExt, Json

CONSTANTS N,        \* threads
          Prog,     \* Prog[t]: sequence of "new" / "free" (free of the most recently obtained waiter still held) / "exit" (waiter_destroy runs:
                    \* thread-local destructors run in no particular order, so nsync calls may follow); the thread then exits
          MaxW      \* bound on allocations (for the type of the state only)

Threads == 1..N
Waiters == 1..MaxW

(* --algorithm pool {
  variables
    spin = 0,                                  \* free_waiters_mu
    freeq = <<>>,                              \* free_waiters, first..last
    tw = [t \in Threads |-> 0],                \* the thread's reserved waiter (per-thread slot), 0 = none
    res = [x \in Waiters |-> FALSE],           \* WAITER_RESERVED
    use = [x \in Waiters |-> FALSE],           \* WAITER_IN_USE
    nalloc = 0,
    held = [t \in Threads |-> <<>>],           \* waiters obtained and not yet freed by t (most recent last)
    cur = [t \in Threads |-> 0],               \* the waiter the thread's current pool call is dealing with (a C local)
    ip = [t \in Threads |-> 1];

  \* nsync_spin_test_and_set_ (&free_waiters_mu, 1, 1, 0) (common.c:102-111)
  procedure acquire()
    variables o = 0;
  {
   sp_1_ld:  o := spin;                                                     \* common.c:105 / 108 ATM_LOAD
             if (o # 0) { goto sp_3_d; };
   sp_2_cas: if (spin = o) { spin := 1; return; };                          \* common.c:106 ATM_CAS_ACQ
   sp_3_d:   goto sp_1_ld;                                                  \* common.c:107 nsync_spin_delay_
  }

  \* nsync_waiter_new_ (common.c:172-218)
  procedure wnew()
  {
   pn_1_l:   if (tw[self] # 0 /\ res[tw[self]] /\ ~use[tw[self]]) { cur[self] := tw[self]; goto pn_9_l; }   \* common.c:182: the thread's own waiter is free to use
             else { cur[self] := 0; call acquire(); };                      \* common.c:184
   pn_2_l:   if (freeq # <<>>) { cur[self] := Head(freeq); freeq := Tail(freeq); };   \* common.c:185-189 (plain, under the spinlock)
   pn_3_st:  spin := 0;                                                     \* common.c:190 ATM_STORE_REL
   pn_4_l:   if (cur[self] # 0) { goto pn_8_l; }
             else { nalloc := nalloc + 1; cur[self] := nalloc; };           \* common.c:191-197 malloc
   pn_5_st:  res[cur[self]] := FALSE || use[cur[self]] := FALSE;            \* common.c:205 ATM_STORE (&w->remove_count, 0) (the store of nw.waiting two lines
                                                                            \* earlier is an initialisation, not an atomic operation); flags = 0
   pn_8_l:   if (tw[self] = 0) { res[cur[self]] := TRUE; tw[self] := cur[self]; };   \* common.c:209-215
   pn_9_l:   use[cur[self]] := TRUE; held[self] := Append(held[self], cur[self]); return;   \* common.c:217
  }

  \* nsync_waiter_free_ (common.c:221-229)
  procedure wfree()
  {
   pf_1_l:   cur[self] := held[self][Len(held[self])];
   pf_1b_l:  held[self] := SubSeq(held[self], 1, Len(held[self]) - 1);
             use[cur[self]] := FALSE;                                       \* common.c:223
             if (res[cur[self]]) { return; } else { call acquire(); };      \* common.c:224-225
   pf_2_l:   freeq := <<cur[self]>> \o freeq;                               \* common.c:226 make_first (plain, under the spinlock)
   pf_3_st:  spin := 0; return;                                             \* common.c:227
  }

  \* waiter_destroy, at thread exit (common.c:146-160)
  procedure wexit()
  {
   px_1_l:   cur[self] := tw[self];
   px_1b_l:  if (cur[self] = 0) { return; }
             else { tw[self] := 0; res[cur[self]] := FALSE; call acquire(); };   \* common.c:152-156
   px_2_l:   freeq := <<cur[self]>> \o freeq;                               \* common.c:157
   px_3_st:  spin := 0; return;                                             \* common.c:158
  }

  process (thr \in Threads)
  {
   c0: while (ip[self] <= Len(Prog[self])) {
         if (Prog[self][ip[self]] = "new") { ip[self] := ip[self] + 1; call wnew(); }
         else if (Prog[self][ip[self]] = "exit") { ip[self] := ip[self] + 1; call wexit(); }   \* the destructor has run, but the thread goes on
                                                                              \* using nsync (a later thread-local destructor of the client)
         else { ip[self] := ip[self] + 1; call wfree(); };
       };
   cx: call wexit();
  }
} *)
\* BEGIN TRANSLATION
VARIABLES pc, spin, freeq, tw, res, use, nalloc, held, cur, ip, stack, o

vars == << pc, spin, freeq, tw, res, use, nalloc, held, cur, ip, stack, o >>

ProcSet == (Threads)

Init == (* Global variables *)
        /\ spin = 0
        /\ freeq = <<>>
        /\ tw = [t \in Threads |-> 0]
        /\ res = [x \in Waiters |-> FALSE]
        /\ use = [x \in Waiters |-> FALSE]
        /\ nalloc = 0
        /\ held = [t \in Threads |-> <<>>]
        /\ cur = [t \in Threads |-> 0]
        /\ ip = [t \in Threads |-> 1]
        (* Procedure acquire *)
        /\ o = [ self \in ProcSet |-> 0]
        /\ stack = [self \in ProcSet |-> << >>]
        /\ pc = [self \in ProcSet |-> "c0"]

sp_1_ld(self) == /\ pc[self] = "sp_1_ld"
                 /\ o' = [o EXCEPT ![self] = spin]
                 /\ IF o'[self] # 0
                       THEN /\ pc' = [pc EXCEPT ![self] = "sp_3_d"]
                       ELSE /\ pc' = [pc EXCEPT ![self] = "sp_2_cas"]
                 /\ UNCHANGED << spin, freeq, tw, res, use, nalloc, held, cur, 
                                 ip, stack >>

sp_2_cas(self) == /\ pc[self] = "sp_2_cas"
                  /\ IF spin = o[self]
                        THEN /\ spin' = 1
                             /\ pc' = [pc EXCEPT ![self] = Head(stack[self]).pc]
                             /\ o' = [o EXCEPT ![self] = Head(stack[self]).o]
                             /\ stack' = [stack EXCEPT ![self] = Tail(stack[self])]
                        ELSE /\ pc' = [pc EXCEPT ![self] = "sp_3_d"]
                             /\ UNCHANGED << spin, stack, o >>
                  /\ UNCHANGED << freeq, tw, res, use, nalloc, held, cur, ip >>

sp_3_d(self) == /\ pc[self] = "sp_3_d"
                /\ pc' = [pc EXCEPT ![self] = "sp_1_ld"]
                /\ UNCHANGED << spin, freeq, tw, res, use, nalloc, held, cur, 
                                ip, stack, o >>

acquire(self) == sp_1_ld(self) \/ sp_2_cas(self) \/ sp_3_d(self)

pn_1_l(self) == /\ pc[self] = "pn_1_l"
                /\ IF tw[self] # 0 /\ res[tw[self]] /\ ~use[tw[self]]
                      THEN /\ cur' = [cur EXCEPT ![self] = tw[self]]
                           /\ pc' = [pc EXCEPT ![self] = "pn_9_l"]
                           /\ UNCHANGED << stack, o >>
                      ELSE /\ cur' = [cur EXCEPT ![self] = 0]
                           /\ stack' = [stack EXCEPT ![self] = << [ procedure |->  "acquire",
                                                                    pc        |->  "pn_2_l",
                                                                    o         |->  o[self] ] >>
                                                                \o stack[self]]
                           /\ o' = [o EXCEPT ![self] = 0]
                           /\ pc' = [pc EXCEPT ![self] = "sp_1_ld"]
                /\ UNCHANGED << spin, freeq, tw, res, use, nalloc, held, ip >>

pn_2_l(self) == /\ pc[self] = "pn_2_l"
                /\ IF freeq # <<>>
                      THEN /\ cur' = [cur EXCEPT ![self] = Head(freeq)]
                           /\ freeq' = Tail(freeq)
                      ELSE /\ TRUE
                           /\ UNCHANGED << freeq, cur >>
                /\ pc' = [pc EXCEPT ![self] = "pn_3_st"]
                /\ UNCHANGED << spin, tw, res, use, nalloc, held, ip, stack, o >>

pn_3_st(self) == /\ pc[self] = "pn_3_st"
                 /\ spin' = 0
                 /\ pc' = [pc EXCEPT ![self] = "pn_4_l"]
                 /\ UNCHANGED << freeq, tw, res, use, nalloc, held, cur, ip, 
                                 stack, o >>

pn_4_l(self) == /\ pc[self] = "pn_4_l"
                /\ IF cur[self] # 0
                      THEN /\ pc' = [pc EXCEPT ![self] = "pn_8_l"]
                           /\ UNCHANGED << nalloc, cur >>
                      ELSE /\ nalloc' = nalloc + 1
                           /\ cur' = [cur EXCEPT ![self] = nalloc']
                           /\ pc' = [pc EXCEPT ![self] = "pn_5_st"]
                /\ UNCHANGED << spin, freeq, tw, res, use, held, ip, stack, o >>

pn_5_st(self) == /\ pc[self] = "pn_5_st"
                 /\ /\ res' = [res EXCEPT ![cur[self]] = FALSE]
                    /\ use' = [use EXCEPT ![cur[self]] = FALSE]
                 /\ pc' = [pc EXCEPT ![self] = "pn_8_l"]
                 /\ UNCHANGED << spin, freeq, tw, nalloc, held, cur, ip, stack, 
                                 o >>

pn_8_l(self) == /\ pc[self] = "pn_8_l"
                /\ IF tw[self] = 0
                      THEN /\ res' = [res EXCEPT ![cur[self]] = TRUE]
                           /\ tw' = [tw EXCEPT ![self] = cur[self]]
                      ELSE /\ TRUE
                           /\ UNCHANGED << tw, res >>
                /\ pc' = [pc EXCEPT ![self] = "pn_9_l"]
                /\ UNCHANGED << spin, freeq, use, nalloc, held, cur, ip, stack, 
                                o >>

pn_9_l(self) == /\ pc[self] = "pn_9_l"
                /\ use' = [use EXCEPT ![cur[self]] = TRUE]
                /\ held' = [held EXCEPT ![self] = Append(held[self], cur[self])]
                /\ pc' = [pc EXCEPT ![self] = Head(stack[self]).pc]
                /\ stack' = [stack EXCEPT ![self] = Tail(stack[self])]
                /\ UNCHANGED << spin, freeq, tw, res, nalloc, cur, ip, o >>

wnew(self) == pn_1_l(self) \/ pn_2_l(self) \/ pn_3_st(self) \/ pn_4_l(self)
                 \/ pn_5_st(self) \/ pn_8_l(self) \/ pn_9_l(self)

pf_1_l(self) == /\ pc[self] = "pf_1_l"
                /\ cur' = [cur EXCEPT ![self] = held[self][Len(held[self])]]
                /\ pc' = [pc EXCEPT ![self] = "pf_1b_l"]
                /\ UNCHANGED << spin, freeq, tw, res, use, nalloc, held, ip, 
                                stack, o >>

pf_1b_l(self) == /\ pc[self] = "pf_1b_l"
                 /\ held' = [held EXCEPT ![self] = SubSeq(held[self], 1, Len(held[self]) - 1)]
                 /\ use' = [use EXCEPT ![cur[self]] = FALSE]
                 /\ IF res[cur[self]]
                       THEN /\ pc' = [pc EXCEPT ![self] = Head(stack[self]).pc]
                            /\ stack' = [stack EXCEPT ![self] = Tail(stack[self])]
                            /\ o' = o
                       ELSE /\ stack' = [stack EXCEPT ![self] = << [ procedure |->  "acquire",
                                                                     pc        |->  "pf_2_l",
                                                                     o         |->  o[self] ] >>
                                                                 \o stack[self]]
                            /\ o' = [o EXCEPT ![self] = 0]
                            /\ pc' = [pc EXCEPT ![self] = "sp_1_ld"]
                 /\ UNCHANGED << spin, freeq, tw, res, nalloc, cur, ip >>

pf_2_l(self) == /\ pc[self] = "pf_2_l"
                /\ freeq' = <<cur[self]>> \o freeq
                /\ pc' = [pc EXCEPT ![self] = "pf_3_st"]
                /\ UNCHANGED << spin, tw, res, use, nalloc, held, cur, ip, 
                                stack, o >>

pf_3_st(self) == /\ pc[self] = "pf_3_st"
                 /\ spin' = 0
                 /\ pc' = [pc EXCEPT ![self] = Head(stack[self]).pc]
                 /\ stack' = [stack EXCEPT ![self] = Tail(stack[self])]
                 /\ UNCHANGED << freeq, tw, res, use, nalloc, held, cur, ip, o >>

wfree(self) == pf_1_l(self) \/ pf_1b_l(self) \/ pf_2_l(self)
                  \/ pf_3_st(self)

px_1_l(self) == /\ pc[self] = "px_1_l"
                /\ cur' = [cur EXCEPT ![self] = tw[self]]
                /\ pc' = [pc EXCEPT ![self] = "px_1b_l"]
                /\ UNCHANGED << spin, freeq, tw, res, use, nalloc, held, ip, 
                                stack, o >>

px_1b_l(self) == /\ pc[self] = "px_1b_l"
                 /\ IF cur[self] = 0
                       THEN /\ pc' = [pc EXCEPT ![self] = Head(stack[self]).pc]
                            /\ stack' = [stack EXCEPT ![self] = Tail(stack[self])]
                            /\ UNCHANGED << tw, res, o >>
                       ELSE /\ tw' = [tw EXCEPT ![self] = 0]
                            /\ res' = [res EXCEPT ![cur[self]] = FALSE]
                            /\ stack' = [stack EXCEPT ![self] = << [ procedure |->  "acquire",
                                                                     pc        |->  "px_2_l",
                                                                     o         |->  o[self] ] >>
                                                                 \o stack[self]]
                            /\ o' = [o EXCEPT ![self] = 0]
                            /\ pc' = [pc EXCEPT ![self] = "sp_1_ld"]
                 /\ UNCHANGED << spin, freeq, use, nalloc, held, cur, ip >>

px_2_l(self) == /\ pc[self] = "px_2_l"
                /\ freeq' = <<cur[self]>> \o freeq
                /\ pc' = [pc EXCEPT ![self] = "px_3_st"]
                /\ UNCHANGED << spin, tw, res, use, nalloc, held, cur, ip, 
                                stack, o >>

px_3_st(self) == /\ pc[self] = "px_3_st"
                 /\ spin' = 0
                 /\ pc' = [pc EXCEPT ![self] = Head(stack[self]).pc]
                 /\ stack' = [stack EXCEPT ![self] = Tail(stack[self])]
                 /\ UNCHANGED << freeq, tw, res, use, nalloc, held, cur, ip, o >>

wexit(self) == px_1_l(self) \/ px_1b_l(self) \/ px_2_l(self)
                  \/ px_3_st(self)

c0(self) == /\ pc[self] = "c0"
            /\ IF ip[self] <= Len(Prog[self])
                  THEN /\ IF Prog[self][ip[self]] = "new"
                             THEN /\ ip' = [ip EXCEPT ![self] = ip[self] + 1]
                                  /\ stack' = [stack EXCEPT ![self] = << [ procedure |->  "wnew",
                                                                           pc        |->  "c0" ] >>
                                                                       \o stack[self]]
                                  /\ pc' = [pc EXCEPT ![self] = "pn_1_l"]
                             ELSE /\ IF Prog[self][ip[self]] = "exit"
                                        THEN /\ ip' = [ip EXCEPT ![self] = ip[self] + 1]
                                             /\ stack' = [stack EXCEPT ![self] = << [ procedure |->  "wexit",
                                                                                      pc        |->  "c0" ] >>
                                                                                  \o stack[self]]
                                             /\ pc' = [pc EXCEPT ![self] = "px_1_l"]
                                        ELSE /\ ip' = [ip EXCEPT ![self] = ip[self] + 1]
                                             /\ stack' = [stack EXCEPT ![self] = << [ procedure |->  "wfree",
                                                                                      pc        |->  "c0" ] >>
                                                                                  \o stack[self]]
                                             /\ pc' = [pc EXCEPT ![self] = "pf_1_l"]
                  ELSE /\ pc' = [pc EXCEPT ![self] = "cx"]
                       /\ UNCHANGED << ip, stack >>
            /\ UNCHANGED << spin, freeq, tw, res, use, nalloc, held, cur, o >>

cx(self) == /\ pc[self] = "cx"
            /\ stack' = [stack EXCEPT ![self] = << [ procedure |->  "wexit",
                                                     pc        |->  "Done" ] >>
                                                 \o stack[self]]
            /\ pc' = [pc EXCEPT ![self] = "px_1_l"]
            /\ UNCHANGED << spin, freeq, tw, res, use, nalloc, held, cur, ip, 
                            o >>

thr(self) == c0(self) \/ cx(self)

(* Allow infinite stuttering to prevent deadlock on termination. *)
Terminating == /\ \A self \in ProcSet: pc[self] = "Done"
               /\ UNCHANGED vars

Next == (\E self \in ProcSet:  \/ acquire(self) \/ wnew(self) \/ wfree(self)
                               \/ wexit(self))
           \/ (\E self \in Threads: thr(self))
           \/ Terminating

Spec == Init /\ [][Next]_vars

Termination == <>(\A self \in ProcSet: pc[self] = "Done")

\* END TRANSLATION

LocalLabels == {"pf_1_l", "pf_1b_l", "pf_2_l", "pn_1_l", "pn_2_l", "pn_4_l", "pn_8_l", "pn_9_l", "px_1_l", "px_1b_l", "px_2_l"}
Step(self) == acquire(self) \/ wnew(self) \/ wfree(self) \/ wexit(self) \/ thr(self)
LocalPending == {u \in Threads : pc[u] \in LocalLabels}
NextU == IF LocalPending # {} THEN Step(CHOOSE u \in LocalPending : TRUE)
         ELSE (\E self \in Threads : Step(self))
SpecU == Init /\ [][NextU]_vars

Range(s) == {s[k] : k \in 1..Len(s)}
AllDone == \A t \in Threads : pc[t] = "Done"
Alloc == 1..nalloc
HeldBy(x) == {t \in Threads : x \in Range(held[t])}
\* ---- the pool's contract
Exclusive == \A x \in Alloc : Cardinality(HeldBy(x)) <= 1 /\ \A t \in Threads : Len(held[t]) = Cardinality(Range(held[t]))
FreeIsFree == \A k \in 1..Len(freeq) : HeldBy(freeq[k]) = {} /\ \A t \in Threads : tw[t] # freeq[k]
NoDuplicates == Len(freeq) = Cardinality(Range(freeq))
OneSlotEach == \A s, t \in Threads : (s # t /\ tw[s] # 0) => tw[s] # tw[t]
\* a waiter is never lost: when nobody is inside a pool function, every allocated waiter is free, held, or some thread's own
Quiet == \A t \in Threads : pc[t] \in {"c0", "cx", "Done"}
NoLoss == Quiet => \A x \in Alloc : x \in Range(freeq) \/ HeldBy(x) # {} \/ \E t \in Threads : tw[t] = x
SpinHonest == spin \in {0, 1}
BadSet == {x \in {"Exclusive", "FreeIsFree", "NoDuplicates", "OneSlotEach", "NoLoss"} :
             \/ (x = "Exclusive" /\ ~Exclusive) \/ (x = "FreeIsFree" /\ ~FreeIsFree) \/ (x = "NoDuplicates" /\ ~NoDuplicates)
             \/ (x = "OneSlotEach" /\ ~OneSlotEach) \/ (x = "NoLoss" /\ ~NoLoss)}
Moved(a) == pc[a] # pc'[a] \/ ip[a] # ip'[a]
Actor == IF \E a \in Threads : Moved(a) THEN CHOOSE a \in Threads : Moved(a) ELSE 0
Obs == [spin |-> spin', freeq |-> freeq', tw |-> tw', nalloc |-> nalloc', held |-> held',
        res |-> [x \in Waiters |-> IF x <= nalloc' /\ res'[x] THEN 1 ELSE 0], use |-> [x \in Waiters |-> IF x <= nalloc' /\ use'[x] THEN 1 ELSE 0],
        bad |-> BadSet', done |-> AllDone']
Edge == (vars # vars') =>
          PrintT(ToJson(<<"E", TLCFP(vars), TLCFP(<<vars, 1>>), TLCFP(vars'), TLCFP(<<vars', 1>>),
                          Actor, IF Actor = 0 THEN "Tick" ELSE pc[Actor], Obs>>))
InitPrint == (TLCGet("level") = 1) => PrintT(ToJson(<<"I", TLCFP(vars), TLCFP(<<vars, 1>>)>>))
====
