---- MODULE Emit ----
(* The bounded emit buffer of internal/debug.c (emit_c / emit_print, debug.c:34-66, and the final
   emit_c (b, 0) of emit_mu_state / emit_cv_state) as a pure function: given the text the debug
   function produces with an unbounded buffer and the caller's buffer size n, the bytes it leaves in
   buf[0..n-1].  Characters are small integers, 0 = NUL, DOT = '.'.  Property C16 (b). *)
EXTENDS Integers, Sequences, TLC, Json

CONSTANTS DOT,        \* code of '.'
          MaxLen,     \* law checking: texts up to this length over the alphabet {1, 2, DOT}
          Texts,      \* evaluation: the real texts (sequences of character codes) ...
          MaxN        \* ... and buffer sizes 0..MaxN

Min(a, b) == IF a < b THEN a ELSE b
Max(a, b) == IF a > b THEN a ELSE b
LastK(s, k) == SubSeq(s, Len(s) - k + 1, Len(s))
\* emit_c writes while pos < len; the first character that does not fit (possibly the final NUL) triggers
\* the overflow marker: the last min(4, n) bytes of the buffer become the tail of "...\0"
Emitted(full, n) ==
  IF Len(full) + 1 <= n THEN full \o <<0>>
  ELSE SubSeq(full, 1, Max(n - 4, 0)) \o LastK(<<DOT, DOT, DOT, 0>>, Min(4, n))

\* ---- the property, for all texts up to MaxLen and all n ----
RECURSIVE Seqs(_)
Seqs(k) == IF k = 0 THEN {<<>>} ELSE LET S == Seqs(k - 1) IN S \cup {Append(s, c) : s \in {t \in S : Len(t) = k - 1}, c \in {1, 2, DOT}}
Holds(full, n) ==
  LET r == Emitted(full, n) IN
  /\ Len(r) <= n                                             \* writes only within buf[0..n-1]
  /\ (n >= 1 => r[Len(r)] = 0)                               \* NUL-terminated
  /\ (\A i \in 1..(Len(r) - 1) : r[i] # 0)                   \* one string
  /\ (Len(full) + 1 <= n => r = full \o <<0>>)               \* everything, when it fits
  /\ (Len(full) + 1 > n /\ n >= 4 => SubSeq(r, n - 3, n - 1) = <<DOT, DOT, DOT>>)     \* "..." when truncated
  /\ (Len(full) + 1 > n /\ n >= 4 => SubSeq(r, 1, n - 4) = SubSeq(full, 1, n - 4))   \* and a prefix of the text before it
VARIABLE v
Init == v \in Seqs(MaxLen)
Next == UNCHANGED v
Spec == Init /\ [][Next]_v
Law == \A n \in 0..(MaxLen + 6) : Holds(v, n)

\* ---- evaluation on the texts the real functions produced ----
EvalInit == v \in 1..Len(Texts)
EvalSpec == EvalInit /\ [][Next]_v
EmitAll == \A n \in 0..MaxN : PrintT(ToJson(<<"B", v, n, Emitted(Texts[v], n)>>))
====
