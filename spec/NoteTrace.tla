---- MODULE NoteTrace ----
(* Code -> spec for the L2 layer (DESIGN 3.4): executions of the REAL note.c / wait.c / sem_wait.c / counter.c over the ideal lock,
   recorded by the harness h_l2 under random schedules (one JSON line per granted step: thread, kind of operation, which notes are
   notified afterwards, the counter's value afterwards; `tick` and `reset` lines), are validated against Note.tla: each line must be
   explained by the step of that thread at its current label, of that kind, producing those values; the specification's local steps are
   taken silently in between.  Everything not logged (trees, waiter lists, locks, records, ghosts) is inferred by TLC, and the
   invariants of Note.tla are evaluated in every state of the matched behaviour.
   The trace is accepted iff the line counter reaches the end (post-condition Accepted). *)
EXTENDS Note, IOUtils

Tr == ndJsonDeserialize(IOEnv.TRACE)
VARIABLE l
tvars == <<vars, l>>

\* A note under construction ("new") is not yet known to the recorder (it learns the pointer when nsync_note_new returns, which is the
\* specification's local step after the constructor's last operation): for such a note only one direction is required.
NOk(n, b) == /\ (b = 1 => (live'[n] \in {"live", "new"} /\ notified'[n] # 0))
             /\ ((live'[n] = "live" /\ notified'[n] # 0) => b = 1)
TraceInit == Init /\ l = 1 /\ TLCSet(1, 0)
TraceLocal == /\ LocalPending # {}
              /\ Step(CHOOSE u \in LocalPending : TRUE)
              /\ UNCHANGED l
TraceStep == /\ LocalPending = {}
             /\ l <= Len(Tr)
             /\ LET e == Tr[l] IN
                  CASE e.k = "tick" -> Tick
                    [] e.k = "reset" -> ResetAll
                    [] OTHER -> /\ KindMap[pc[e.t]] = e.k
                                /\ Step(e.t)
                                /\ \A n \in Notes : NOk(n, e.nm[n])
                                /\ cval' = e.cv
             /\ l' = l + 1
TraceNext == TraceLocal \/ TraceStep
TraceSpec == TraceInit /\ [][TraceNext]_tvars
\* the longest matched prefix is reported through TLCSet/TLCGet register 1 (needs -workers 1)
Progress == TLCSet(1, IF TLCGet(1) > l THEN TLCGet(1) ELSE l)
Accepted == PrintT(<<"matched", TLCGet(1) - 1, "of", Len(Tr)>>) /\ TLCGet(1) = Len(Tr) + 1
\* invariants of the properties, evaluated on the real execution's states
TraceInv == NotifiedHasCause /\ ExpiryIsMin /\ NoUseAfterFree /\ RetHonest /\ NoDeadRecord /\ MutexKept
====
