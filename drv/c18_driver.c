/* C18: nsync_time arithmetic of the real library (C or C++ build) against (a) the results TLC computed from
   Time.tla on the 32-bit-safe grid (lines on stdin) and (b) 128-bit integer arithmetic on the wide grid. */
#include "nsync_cpp.h"
#include "platform.h"
#include "compiler.h"
#include "cputype.h"
#include "nsync_time.h"
#include <stdio.h>
#include <stdlib.h>
#include <string.h>
#include <stdint.h>
NSYNC_CPP_USING_
typedef __int128 i128;
static long cases, fails, nontrivial;
static void fail (const char *what, long as, long an, long bs, long bn, long gs, long gn, long es, long en) {
	fails++;
	if (fails <= 10) printf ("FAIL %s a=(%ld,%ld) b=(%ld,%ld) got=(%ld,%ld) expected=(%ld,%ld)\n", what, as, an, bs, bn, gs, gn, es, en);
}
static nsync_time mk (long s, long n) { nsync_time t; memset (&t, 0, sizeof t); t.tv_sec = (time_t) s; t.tv_nsec = n; return t; }
static i128 val (nsync_time t) { return (i128) NSYNC_TIME_SEC (t) * 1000000000 + NSYNC_TIME_NSEC (t); }
static int sgn (i128 x) { return x > 0 ? 1 : x < 0 ? -1 : 0; }
int main (void) {
	char line[512];
	/* (a) TLC-evaluated expectations */
	while (fgets (line, sizeof line, stdin)) {
		long v[12];
		if (line[0] == 'P' && sscanf (line + 1, "%ld %ld %ld %ld %ld %ld %ld %ld %ld", &v[0], &v[1], &v[2], &v[3], &v[4], &v[5], &v[6], &v[7], &v[8]) == 9) {
			nsync_time a = mk (v[0], v[1]), b = mk (v[2], v[3]), r;
			cases++; if (v[1] + v[3] >= 1000000000 || v[1] < v[3]) nontrivial++;
			r = nsync_time_add (a, b);
			if ((long) NSYNC_TIME_SEC (r) != v[4] || NSYNC_TIME_NSEC (r) != v[5]) fail ("add", v[0], v[1], v[2], v[3], (long) NSYNC_TIME_SEC (r), NSYNC_TIME_NSEC (r), v[4], v[5]);
			r = nsync_time_sub (a, b);
			if ((long) NSYNC_TIME_SEC (r) != v[6] || NSYNC_TIME_NSEC (r) != v[7]) fail ("sub", v[0], v[1], v[2], v[3], (long) NSYNC_TIME_SEC (r), NSYNC_TIME_NSEC (r), v[6], v[7]);
			if (nsync_time_cmp (a, b) != (int) v[8]) fail ("cmp", v[0], v[1], v[2], v[3], nsync_time_cmp (a, b), 0, v[8], 0);
		} else if (line[0] == 'D' && sscanf (line + 1, "%ld %ld %ld %ld %ld", &v[0], &v[1], &v[2], &v[3], &v[4]) == 5) {
			nsync_time r = nsync_time_ms ((unsigned) v[0]);
			cases++; nontrivial++;
			if ((long) NSYNC_TIME_SEC (r) != v[1] || NSYNC_TIME_NSEC (r) != v[2]) fail ("ms", v[0], 0, 0, 0, (long) NSYNC_TIME_SEC (r), NSYNC_TIME_NSEC (r), v[1], v[2]);
			r = nsync_time_us ((unsigned) v[0]);
			if ((long) NSYNC_TIME_SEC (r) != v[3] || NSYNC_TIME_NSEC (r) != v[4]) fail ("us", v[0], 0, 0, 0, (long) NSYNC_TIME_SEC (r), NSYNC_TIME_NSEC (r), v[3], v[4]);
		}
	}
	/* (b) wide grid against 128-bit arithmetic (TLC's integers cannot hold these) */
	{
		static const long S[] = { 0, 1, -1, 2, -2, 2147483647L, -2147483648L, 2147483648L, -2147483649L, 1L << 40, -(1L << 40), (1L << 61) };
		static const long Nn[] = { 0, 1, 500000000, 999999999, 499999999, 999999998 };
		unsigned i, j, k, l;
		for (i = 0; i < sizeof S / sizeof S[0]; i++) for (j = 0; j < sizeof Nn / sizeof Nn[0]; j++)
		for (k = 0; k < sizeof S / sizeof S[0]; k++) for (l = 0; l < sizeof Nn / sizeof Nn[0]; l++) {
			nsync_time a = mk (S[i], Nn[j]), b = mk (S[k], Nn[l]), r, r2;
			i128 e;
			cases++; nontrivial++;
			r = nsync_time_add (a, b); e = val (a) + val (b);
			if (val (r) != e || NSYNC_TIME_NSEC (r) < 0 || NSYNC_TIME_NSEC (r) >= 1000000000) fail ("add/wide", S[i], Nn[j], S[k], Nn[l], (long) NSYNC_TIME_SEC (r), NSYNC_TIME_NSEC (r), (long) (e / 1000000000), (long) (e % 1000000000));
			r2 = nsync_time_sub (r, b);
			if (nsync_time_cmp (r2, a) != 0 || NSYNC_TIME_SEC (r2) != NSYNC_TIME_SEC (a) || NSYNC_TIME_NSEC (r2) != NSYNC_TIME_NSEC (a)) fail ("(a+b)-b/wide", S[i], Nn[j], S[k], Nn[l], (long) NSYNC_TIME_SEC (r2), NSYNC_TIME_NSEC (r2), S[i], Nn[j]);
			r = nsync_time_sub (a, b); e = val (a) - val (b);
			if (val (r) != e || NSYNC_TIME_NSEC (r) < 0 || NSYNC_TIME_NSEC (r) >= 1000000000) fail ("sub/wide", S[i], Nn[j], S[k], Nn[l], (long) NSYNC_TIME_SEC (r), NSYNC_TIME_NSEC (r), 0, 0);
			if (nsync_time_cmp (a, b) != sgn (val (a) - val (b))) fail ("cmp/wide", S[i], Nn[j], S[k], Nn[l], nsync_time_cmp (a, b), 0, sgn (val (a) - val (b)), 0);
			if (S[i] >= 0 && (nsync_time_cmp (nsync_time_zero, a) > 0 || nsync_time_cmp (a, nsync_time_no_deadline) > 0)) fail ("zero<=t<=no_deadline", S[i], Nn[j], 0, 0, 0, 0, 0, 0);
		}
	}
	/* (b') the comparison at the ends of the range, where a - b itself would overflow the seconds field: nsync_time_no_deadline is
	   the largest representable time and is compared with everything, including times before the epoch */
	{
		static const long S2[] = { 0, 1, -1, 2147483647L, -2147483648L, 1L << 61, -(1L << 61), 1L << 62, -(1L << 62), (1L << 62) + 1, -(1L << 62) - 1,
					   9223372036854775807L, 9223372036854775806L, -9223372036854775807L - 1, -9223372036854775807L };
		static const long N2[] = { 0, 1, 500000000, 999999999 };
		unsigned i, j, k, l;
		for (i = 0; i < sizeof S2 / sizeof S2[0]; i++) for (j = 0; j < sizeof N2 / sizeof N2[0]; j++)
		for (k = 0; k < sizeof S2 / sizeof S2[0]; k++) for (l = 0; l < sizeof N2 / sizeof N2[0]; l++) {
			nsync_time a = mk (S2[i], N2[j]), b = mk (S2[k], N2[l]);
			int c = nsync_time_cmp (a, b), e = sgn (val (a) - val (b));
			cases++; nontrivial++;
			if ((c > 0) - (c < 0) != e) fail ("cmp/extreme", S2[i], N2[j], S2[k], N2[l], c, 0, e, 0);
			if (((c > 0) - (c < 0)) != -((nsync_time_cmp (b, a) > 0) - (nsync_time_cmp (b, a) < 0))) fail ("cmp antisymmetry", S2[i], N2[j], S2[k], N2[l], c, nsync_time_cmp (b, a), 0, 0);
		}
		/* (b'') add and sub at the ends of the range too, whenever the exact result (128-bit reference) is representable: the largest
		   and the smallest times are ordinary values of the arithmetic (nsync_time_no_deadline is (max, 999999999)), as are
		   nsync_time_zero and everything in between; plus 40000 pseudo-random pairs over the whole range */
		{
			unsigned long long x = 0x9E3779B97F4A7C15ULL; unsigned q;
			const i128 lo = (i128) (-9223372036854775807L - 1) * 1000000000, hi = (i128) 9223372036854775807L * 1000000000 + 999999999;
			for (q = 0; q < sizeof S2 / sizeof S2[0] * (sizeof N2 / sizeof N2[0]) * (sizeof S2 / sizeof S2[0]) * (sizeof N2 / sizeof N2[0]) + 40000; q++) {
				long as, an, bs, bn; nsync_time a, b, r; i128 e;
				unsigned nS = sizeof S2 / sizeof S2[0], nN = sizeof N2 / sizeof N2[0];
				if (q < nS * nN * nS * nN) { as = S2[q % nS]; an = N2[(q / nS) % nN]; bs = S2[(q / nS / nN) % nS]; bn = N2[(q / nS / nN / nS) % nN]; }
				else {
					static const int SH[] = { 0, 1, 2, 31, 33, 62, 63, 3 };
					x ^= x << 13; x ^= x >> 7; x ^= x << 17; as = (long) x >> SH[x % 8 == 0 ? 0 : (x >> 8) % 8];
					x ^= x << 13; x ^= x >> 7; x ^= x << 17; an = (long) (x % 1000000000ULL);
					x ^= x << 13; x ^= x >> 7; x ^= x << 17; bs = (long) x >> SH[(x >> 8) % 8];
					x ^= x << 13; x ^= x >> 7; x ^= x << 17; bn = (long) (x % 1000000000ULL);
					if ((x >> 40) % 16 == 0) { as = 9223372036854775807L; an = 999999999; }       /* nsync_time_no_deadline as an operand */
					if ((x >> 44) % 16 == 0) { bs = 0; bn = (long) ((x >> 48) % 3); }
				}
				a = mk (as, an); b = mk (bs, bn);
				e = val (a) + val (b);
				if (e >= lo && e <= hi) {
					cases++; nontrivial++;
					r = nsync_time_add (a, b);
					if (val (r) != e || NSYNC_TIME_NSEC (r) < 0 || NSYNC_TIME_NSEC (r) >= 1000000000) fail ("add/extreme", as, an, bs, bn, (long) NSYNC_TIME_SEC (r), NSYNC_TIME_NSEC (r), 0, 0);
					else { nsync_time r2 = nsync_time_sub (r, b); if (val (r2) != val (a) || NSYNC_TIME_NSEC (r2) != an) fail ("(a+b)-b/extreme", as, an, bs, bn, (long) NSYNC_TIME_SEC (r2), NSYNC_TIME_NSEC (r2), as, an); }
				}
				e = val (a) - val (b);
				if (e >= lo && e <= hi) {
					int c;
					cases++; nontrivial++;
					r = nsync_time_sub (a, b);
					if (val (r) != e || NSYNC_TIME_NSEC (r) < 0 || NSYNC_TIME_NSEC (r) >= 1000000000) fail ("sub/extreme", as, an, bs, bn, (long) NSYNC_TIME_SEC (r), NSYNC_TIME_NSEC (r), 0, 0);
					c = nsync_time_cmp (a, b);
					if (((c > 0) - (c < 0)) != sgn (val (r))) fail ("cmp vs sign of a-b/extreme", as, an, bs, bn, c, 0, sgn (val (r)), 0);
				}
			}
		}
		for (i = 0; i < sizeof S2 / sizeof S2[0]; i++) for (j = 0; j < sizeof N2 / sizeof N2[0]; j++) {
			nsync_time a = mk (S2[i], N2[j]);
			cases++;
			if (nsync_time_cmp (a, nsync_time_no_deadline) > 0) fail ("t<=no_deadline", S2[i], N2[j], 0, 0, 0, 0, 0, 0);
			if (S2[i] >= 0 && nsync_time_cmp (nsync_time_zero, a) > 0) fail ("zero<=t", S2[i], N2[j], 0, 0, 0, 0, 0, 0);
			if (S2[i] < 0 && nsync_time_cmp (a, nsync_time_zero) >= 0) fail ("negative<zero", S2[i], N2[j], 0, 0, 0, 0, 0, 0);
		}
	}
	{
		static const unsigned U[] = { 0, 1, 999, 1000, 1001, 999999, 1000000, 1000001, 2147483647u, 2147483648u, 4294967295u, 4294967u, 4294968u, 3600000u, 86400000u };
		unsigned i; unsigned long long x = 88172645463325252ULL;
		for (i = 0; i < sizeof U / sizeof U[0] + 20000; i++) {
			unsigned u; nsync_time r;
			if (i < sizeof U / sizeof U[0]) u = U[i]; else { x ^= x << 13; x ^= x >> 7; x ^= x << 17; u = (unsigned) (x >> 16); }
			cases++; nontrivial++;
			r = nsync_time_ms (u);
			if (val (r) != (i128) u * 1000000) fail ("ms/wide", u, 0, 0, 0, (long) NSYNC_TIME_SEC (r), NSYNC_TIME_NSEC (r), (long) (u / 1000), (long) (u % 1000) * 1000000);
			r = nsync_time_us (u);
			if (val (r) != (i128) u * 1000) fail ("us/wide", u, 0, 0, 0, (long) NSYNC_TIME_SEC (r), NSYNC_TIME_NSEC (r), (long) (u / 1000000), (long) (u % 1000000) * 1000);
			r = nsync_time_s_ns ((time_t) (u >> 3), u % 1000000000u);
			if ((unsigned long) NSYNC_TIME_SEC (r) != (u >> 3) || (unsigned long) NSYNC_TIME_NSEC (r) != u % 1000000000u) fail ("s_ns", u, 0, 0, 0, (long) NSYNC_TIME_SEC (r), NSYNC_TIME_NSEC (r), 0, 0);
		}
	}
	printf ("STATS cases=%ld fails=%ld nontrivial=%ld\n", cases, fails, nontrivial);
	return fails ? 1 : 0;
}
