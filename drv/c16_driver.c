/* C16 (b): the debug-state functions of the real library with every buffer size n = 0..MAXN, in states with 0..3
   queued waiters on a mutex and on a condition variable.  For each (state, function) prints
     T <id> <len> <codes...>           the text obtained with a large buffer
     B <id> <n> <ok> <codes...>        the bytes found in buf[0..n-1] for size n, ok = guard bytes on both sides intact
   The expected bytes are computed by TLC from Emit.tla. */
#include "nsync.h"
#include <stdio.h>
#include <stdlib.h>
#include <string.h>
#include <unistd.h>
#include <pthread.h>
NSYNC_CPP_USING_
#define MAXN 80
static nsync_mu mu; static nsync_cv cv; static nsync_mu cmu; static int release_cv;
static void *locker (void *a) { if ((long) a) { nsync_mu_rlock (&mu); nsync_mu_runlock (&mu); } else { nsync_mu_lock (&mu); nsync_mu_unlock (&mu); } return NULL; }
static void *cvwaiter (void *a) { (void) a; nsync_mu_lock (&cmu); while (!release_cv) nsync_cv_wait (&cv, &cmu); nsync_mu_unlock (&cmu); return NULL; }
typedef char *(*dbgfn) (void *, char *, int);
static char *f_mu (void *o, char *b, int n) { return nsync_mu_debug_state ((nsync_mu *) o, b, n); }
static char *f_muw (void *o, char *b, int n) { return nsync_mu_debug_state_and_waiters ((nsync_mu *) o, b, n); }
static char *f_cv (void *o, char *b, int n) { return nsync_cv_debug_state ((nsync_cv *) o, b, n); }
static char *f_cvw (void *o, char *b, int n) { return nsync_cv_debug_state_and_waiters ((nsync_cv *) o, b, n); }
static int id;
static void probe (dbgfn f, void *o) {
	static char big[4096], big2[4096]; static unsigned char frames[MAXN + 1][MAXN + 64]; static int oks[MAXN + 1];
	int n, i, tries;
	/* the state must be quiescent: the text before and after the sweep over n has to be the same, else settle and retry */
	for (tries = 0; tries < 8; tries++) {
		memset (big, 0x55, sizeof big); memset (big2, 0x55, sizeof big2);
		f (o, big, (int) sizeof big);
		for (n = 0; n <= MAXN; n++) {
			oks[n] = 1;
			memset (frames[n], 0xA5, sizeof frames[n]);
			f (o, (char *) frames[n] + 32, n);
			for (i = 0; i < 32; i++) if (frames[n][i] != 0xA5) oks[n] = 0;
			for (i = 32 + n; i < (int) sizeof frames[n]; i++) if (frames[n][i] != 0xA5) oks[n] = 0;
		}
		f (o, big2, (int) sizeof big2);
		if (strcmp (big, big2) == 0) break;
		usleep (80000);
	}
	if (tries == 8) return;        /* never settled: skipped (counted by the caller as fewer texts) */
	id++;
	printf ("T %d %d", id, (int) strlen (big));
	for (i = 0; big[i]; i++) printf (" %d", (unsigned char) big[i]);
	printf ("\n");
	for (n = 0; n <= MAXN; n++) {
		printf ("B %d %d %d", id, n, oks[n]);
		for (i = 0; i < n; i++) printf (" %d", frames[n][32 + i]);
		printf ("\n");
	}
}
int main (void) {
	pthread_t th[3]; int k, j;
	alarm (60);
	for (k = 0; k <= 3; k++) {                 /* k waiters queued on the mutex, held by us in write mode */
		nsync_mu_init (&mu);
		nsync_mu_lock (&mu);
		for (j = 0; j < k; j++) pthread_create (&th[j], NULL, locker, (void *) (long) (j & 1));
		usleep (60000);
		probe (f_mu, &mu); probe (f_muw, &mu);
		nsync_mu_unlock (&mu);
		for (j = 0; j < k; j++) pthread_join (th[j], NULL);
		if (k == 0) { probe (f_mu, &mu); nsync_mu_rlock (&mu); probe (f_muw, &mu); nsync_mu_runlock (&mu); }
	}
	for (k = 0; k <= 3; k++) {                 /* k waiters on the condition variable */
		nsync_cv_init (&cv); nsync_mu_init (&cmu); release_cv = 0;
		for (j = 0; j < k; j++) pthread_create (&th[j], NULL, cvwaiter, NULL);
		usleep (60000);
		probe (f_cv, &cv); probe (f_cvw, &cv);
		nsync_mu_lock (&cmu); release_cv = 1; nsync_cv_broadcast (&cv); nsync_mu_unlock (&cmu);
		for (j = 0; j < k; j++) pthread_join (th[j], NULL);
	}
	return 0;
}
