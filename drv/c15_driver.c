/* C15: one timed entry point, one deadline class, on the real library (C or C++ build) and the real kernel.
   usage: c15_driver <entry> <class> <happened>; prints one outcome word; crashes / hangs are seen by the parent. */
#include "nsync.h"
#include <stdio.h>
#include <stdlib.h>
#include <string.h>
#include <errno.h>
#include <time.h>
#include <unistd.h>
#include <pthread.h>
NSYNC_CPP_USING_
static nsync_mu mu; static nsync_cv cv; static int flag; static nsync_note gnote; static nsync_counter gcnt;
static int cond_flag (const void *v) { return *(const int *) v != 0; }
static void g_lock (void *m) { nsync_mu_lock ((nsync_mu *) m); }
static void g_unlock (void *m) { nsync_mu_unlock ((nsync_mu *) m); }
static double secs (nsync_time t) { return (double) NSYNC_TIME_SEC (t) + NSYNC_TIME_NSEC (t) * 1e-9; }
static void *later (void *a) {   /* makes the event happen / signals after 60 ms */
	struct timespec d = { 0, 60 * 1000 * 1000 };
	(void) a;
	nanosleep (&d, NULL);
	nsync_mu_lock (&mu); flag = 1; nsync_cv_broadcast (&cv); nsync_mu_unlock (&mu);
	if (gnote) nsync_note_notify (gnote);
	if (gcnt) nsync_counter_add (gcnt, -1);
	return NULL;
}
int main (int argc, char **argv) {
	const char *entry, *cls; int happened, future = 0, blocks = 0;
	nsync_time dl, t0, t1; double el, d = 0.15; int r = -1, timed_out = 0;
	pthread_t th;
	if (argc < 4) return 2;
	entry = argv[1]; cls = argv[2]; happened = atoi (argv[3]);
	alarm (8);
	t0 = nsync_time_now ();
	if (!strcmp (cls, "zero")) dl = nsync_time_zero;
	else if (!strcmp (cls, "neg_ns")) dl = nsync_time_sub (nsync_time_zero, nsync_time_s_ns (0, 1));
	else if (!strcmp (cls, "neg_s")) dl = nsync_time_sub (nsync_time_zero, nsync_time_s_ns (1, 0));
	else if (!strcmp (cls, "neg_big")) dl = nsync_time_sub (nsync_time_zero, nsync_time_s_ns (1000000, 0));
	else if (!strcmp (cls, "past")) dl = nsync_time_sub (t0, nsync_time_ms (10));
	else if (!strcmp (cls, "future")) { dl = nsync_time_add (t0, nsync_time_ms (150)); future = 1; }
	else if (!strcmp (cls, "max1")) { dl = nsync_time_sub (nsync_time_no_deadline, nsync_time_s_ns (0, 1)); blocks = 1; }
	else { dl = nsync_time_no_deadline; blocks = 1; }
	nsync_mu_init (&mu); nsync_cv_init (&cv);
	flag = happened;
	if (!strcmp (entry, "cv") || !strcmp (entry, "cvg") || !strcmp (entry, "mu") || !strcmp (entry, "cvn") || !strcmp (entry, "mun")) {
		/* cvn / mun: the same waits given a cancel note that is never notified; when the deadline is a future instant the note's own
		   expiry lies 20 microseconds after it (the wait ends on its deadline while the note is about to expire); the note is freed
		   afterwards, which checks that the wait left nothing registered on it */
		nsync_note cn = NULL;
		if (entry[2] == 'n') cn = nsync_note_new (NULL, future ? nsync_time_add (dl, nsync_time_us (20)) : nsync_time_no_deadline);
		if (blocks && !happened) pthread_create (&th, NULL, later, NULL);
		nsync_mu_lock (&mu);
		if (!strcmp (entry, "cv") || !strcmp (entry, "cvn")) r = nsync_cv_wait_with_deadline (&cv, &mu, dl, cn);
		else if (!strcmp (entry, "cvg")) r = nsync_cv_wait_with_deadline_generic (&cv, &mu, g_lock, g_unlock, dl, NULL);
		else r = nsync_mu_wait_with_deadline (&mu, cond_flag, &flag, NULL, dl, cn);
		nsync_mu_unlock (&mu);
		if (cn != NULL) nsync_note_free (cn);
		timed_out = (r == ETIMEDOUT);
		if (r != 0 && r != ETIMEDOUT) { printf ("bad_result_%d\n", r); return 0; }
	} else if (!strcmp (entry, "notenew")) {     /* the deadline is the note's own expiry; then wait on it for ever */
		nsync_note n = nsync_note_new (NULL, dl);
		if (happened) nsync_note_notify (n);
		if (blocks && !happened) { gnote = n; pthread_create (&th, NULL, later, NULL); }
		r = nsync_note_wait (n, future || blocks ? nsync_time_no_deadline : nsync_time_add (nsync_time_now (), nsync_time_ms (3000)));
		timed_out = !happened && !blocks;     /* notified by its own expiry = the "timeout" of this entry point */
		if (!r) { printf ("never_notified\n"); return 0; }
	} else if (!strcmp (entry, "notewait") || !strcmp (entry, "counterwait") || !strcmp (entry, "waitn")) {
		nsync_note n = nsync_note_new (NULL, nsync_time_no_deadline);
		nsync_counter c = nsync_counter_new (1);
		if (happened) { nsync_note_notify (n); nsync_counter_add (c, -1); }
		if (blocks && !happened) { gnote = n; gcnt = c; pthread_create (&th, NULL, later, NULL); }
		if (!strcmp (entry, "notewait")) { r = nsync_note_wait (n, dl); timed_out = !r; }
		else if (!strcmp (entry, "counterwait")) { r = (int) nsync_counter_wait (c, dl); timed_out = r != 0; }
		else {
			struct nsync_waitable_s w[2], *pw[2];
			w[0].v = n; w[0].funcs = &nsync_note_waitable_funcs; w[1].v = c; w[1].funcs = &nsync_counter_waitable_funcs;
			pw[0] = &w[0]; pw[1] = &w[1];
			r = nsync_wait_n (NULL, NULL, NULL, dl, 2, pw); timed_out = (r == 2);
		}
	} else return 2;
	t1 = nsync_time_now ();
	el = secs (t1) - secs (t0);
	if (!timed_out) { printf (happened ? "event\n" : (blocks ? "woken\n" : "spurious_return\n")); return 0; }
	if (future) { printf (el < d - 0.002 ? "timeout_early\n" : (el > d + 2.0 ? "timeout_late\n" : "timeout_not_early\n")); return 0; }
	printf (el > 1.0 ? "timeout_late\n" : "timeout_promptly\n");
	return 0;
}
