/* Which memory order does each ATM_* macro of the selected atomic.h flavour request?  Compiled with
   -fsanitize=thread and linked against the stubs below instead of libtsan; prints "<macro> <kind> <mo> <fmo>". */
#include "nsync_cpp.h"
#include "platform.h"
#include "compiler.h"
#include "cputype.h"
#include "nsync_atomic.h"
#include "atomic.h"
#include <stdio.h>
#include <stdint.h>
NSYNC_CPP_USING_
static const char *volatile cur;
#ifdef __cplusplus
extern "C" {
#endif
void __tsan_init (void) {}
void __tsan_func_entry (void *pc) {}
void __tsan_func_exit (void) {}
void __tsan_read4 (void *a) {} void __tsan_write4 (void *a) {} void __tsan_read8 (void *a) {} void __tsan_write8 (void *a) {}
void __tsan_read1 (void *a) {} void __tsan_write1 (void *a) {} void __tsan_read2 (void *a) {} void __tsan_write2 (void *a) {}
uint32_t __tsan_atomic32_load (const volatile uint32_t *a, int mo) { printf ("%s ld %d 0\n", cur, mo); return *a; }
void __tsan_atomic32_store (volatile uint32_t *a, uint32_t v, int mo) { printf ("%s st %d 0\n", cur, mo); *a = v; }
int __tsan_atomic32_compare_exchange_strong (volatile uint32_t *a, uint32_t *c, uint32_t v, int mo, int fmo) { printf ("%s cas %d %d\n", cur, mo, fmo); if (*a == *c) { *a = v; return 1; } *c = *a; return 0; }
int __tsan_atomic32_compare_exchange_weak (volatile uint32_t *a, uint32_t *c, uint32_t v, int mo, int fmo) { return __tsan_atomic32_compare_exchange_strong (a, c, v, mo, fmo); }
uint32_t __tsan_atomic32_compare_exchange_val (volatile uint32_t *a, uint32_t c, uint32_t v, int mo, int fmo) { __tsan_atomic32_compare_exchange_strong (a, &c, v, mo, fmo); return c; }
#ifdef __cplusplus
}
#endif
int main (void) {
	nsync_atomic_uint32_ x;
	NSYNC_ATOMIC_UINT32_STORE_ (&x, 0);
	cur = "LOAD"; (void) ATM_LOAD (&x);
	cur = "LOAD_ACQ"; (void) ATM_LOAD_ACQ (&x);
	cur = "STORE"; ATM_STORE (&x, 1);
	cur = "STORE_REL"; ATM_STORE_REL (&x, 0);
	cur = "CAS"; (void) ATM_CAS (&x, 0, 1);
	cur = "CAS_ACQ"; (void) ATM_CAS_ACQ (&x, 1, 0);
	cur = "CAS_REL"; (void) ATM_CAS_REL (&x, 0, 1);
	cur = "CAS_RELACQ"; (void) ATM_CAS_RELACQ (&x, 1, 0);
	return 0;
}
