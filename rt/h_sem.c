/* C12 harness: the real platform/linux/src/nsync_semaphore_futex.c against the modelled futex,
   parked at every atomic operation and futex call; lock-step replay of Sem.tla behaviours. */
#define _GNU_SOURCE
#include <errno.h>
#include <stdio.h>
#include <stdlib.h>
#include <string.h>
#include <time.h>
#include "rt.h"
#include "replay.h"

typedef struct nsync_semaphore_s_ { void *sem_space[32]; } nsync_semaphore;
void nsync_mu_semaphore_init (nsync_semaphore *s);
void nsync_mu_semaphore_p (nsync_semaphore *s);
int nsync_mu_semaphore_p_with_deadline (nsync_semaphore *s, struct timespec abs_deadline);
void nsync_mu_semaphore_v (nsync_semaphore *s);
extern int rt_blocked_woken (int t);

static struct {
	int NP, WOps, POps, Timed, DL, MaxNow;
	nsync_semaphore *s;
	int res, err;
	int vs_started, vs_done, takes, p_calls_done;
} S;

static void waiter (void *arg) {
	int n = 0;
	(void) arg;
	for (;;) {
		rt_point ("c0");
		if (n == S.WOps) break;
		n++;
		if (S.Timed) {
			struct timespec d;
			d.tv_sec = (time_t) ((RT_T0 + S.DL) * (long) RT_TICK_SEC); d.tv_nsec = 0;
			S.res = nsync_mu_semaphore_p_with_deadline (S.s, d);
			if (S.res == ETIMEDOUT && rt_now () < RT_T0 + S.DL)
				rt_violation ("O-ret", "timed P returned ETIMEDOUT at clock %ld, before its deadline %d", (long) (rt_now () - RT_T0), S.DL);
			if (S.res != 0 && S.res != ETIMEDOUT) rt_violation ("O-ret", "timed P returned %d", S.res);
		} else {
			nsync_mu_semaphore_p (S.s);
			S.res = 0;
		}
		if (S.res == 0) {
			S.takes++;
			if (S.takes > S.vs_started) rt_violation ("O-lin", "P returned success %d times but only %d V calls have begun", S.takes, S.vs_started);
		}
		S.p_calls_done++;
	}
}
static void poster (void *arg) {
	int m = 0;
	(void) arg;
	for (;;) {
		rt_point ("d0");
		if (m == S.POps) break;
		m++;
		S.vs_started++;
		nsync_mu_semaphore_v (S.s);
		S.vs_done++;
	}
}

static int geti (const char *s, const char *key, int dflt) {
	const char *p = strstr (s, key);
	if (!p) return dflt;
	return atoi (p + strlen (key));
}
static void setup (const char *init) {
	int i;
	memset (&S, 0, sizeof S);
	S.NP = geti (init, "NP=", 1); S.WOps = geti (init, "WOps=", 1); S.POps = geti (init, "POps=", 1);
	S.Timed = geti (init, "Timed=", 0); S.DL = geti (init, "DL=", 1); S.MaxNow = geti (init, "MaxNow=", 0);
	S.res = -1;
	S.s = rt_malloc (sizeof *S.s);
	nsync_mu_semaphore_init (S.s);
	rt_name (S.s, sizeof *S.s, "sem");
	rt_spawn (waiter, NULL);
	for (i = 0; i < S.NP; i++) rt_spawn (poster, NULL);
}
static const char *kind_of (const char *label) {
	if (!strcmp (label, "p_ld") || !strcmp (label, "v_ld")) return "ld";
	if (!strcmp (label, "p_cas") || !strcmp (label, "v_cas")) return "cas";
	if (!strcmp (label, "p_fw")) return "fwait";
	if (!strcmp (label, "v_wk")) return "fwake";
	if (!strcmp (label, "c0") || !strcmp (label, "d0")) return "c";
	return NULL;
}
static int pre (int actor, const char *label, const char *prev, const char *exp, char *why, size_t whyn) {
	int t = actor - 1;
	if (!strcmp (label, "p_sl")) {
		int pw = geti (prev, "woken=", 0), err = geti (exp, "err=", 0), now = geti (prev, "now=", 0);
		if (rt_state (t) != F_BLOCKED) { snprintf (why, whyn, "spec: waiter returns from the kernel wait; code: not asleep (parked at %s)", rt_kind_name (rt_pending (t)->kind)); return -1; }
		if (pw || rp_diverged) return 0;
		if (err == 110 && S.Timed && now >= S.DL) return 0;
		rt_fault_futex (t, err);
		rp_mark_nontrivial ();
		return 0;
	} else {
		const char *k = kind_of (label);
		if (rt_state (t) == F_BLOCKED) { snprintf (why, whyn, "spec: %s; code: asleep in the kernel wait", label); return -1; }
		if (k && strcmp (k, rt_kind_name (rt_pending (t)->kind)) != 0) {
			snprintf (why, whyn, "spec expects %s; the real code is about to do %s", k, rt_kind_name (rt_pending (t)->kind));
			return -1;
		}
	}
	return 0;
}
static void post (int actor, const char *label) {
	const struct rt_op *o = rt_last (actor - 1);
	(void) label;
	if (o->kind == OP_FWAIT) S.err = (int) o->res;
	if (o->kind == OP_CAS && !o->ok) rp_mark_nontrivial ();
	if (o->kind == OP_FWAIT) rp_mark_nontrivial ();
}
static void env (const char *label, const char *exp) { (void) exp; if (!strcmp (label, "Tick")) rt_tick (); }
static void obs (char *buf, size_t n) {
	snprintf (buf, n, "i=%d asleep=%d woken=%d now=%ld res=%d err=%d", *(int *) S.s, rt_state (0) == F_BLOCKED,
		  rt_blocked_woken (0), (long) (rt_now () - RT_T0), S.res, S.err);
}
static void finish (int diverged) {
	int i, progress = 1, guard = 0;
	if (!diverged && rt_all_done ()) goto judge;
	if (!diverged) goto judge;
	while (!rt_all_done () && guard++ < 100000 && !rt_first_violation ()) {
		progress = 0;
		for (i = 0; i < rt_nthreads (); i++) if (rt_enabled (i)) { rt_grant (i); progress = 1; }
		if (!progress) {
			if (S.Timed && rt_now () < RT_T0 + S.DL + 2) { rt_tick (); progress = 1; }
			else break;
		}
	}
judge:
	if (rt_first_violation ()) return;
	{
		int posters_done = 1;
		for (i = 1; i < rt_nthreads (); i++) if (rt_state (i) != F_DONE) posters_done = 0;
		if (posters_done && rt_state (0) != F_DONE && !rt_enabled (0) && *(int *) S.s > 0 && rt_state (0) == F_BLOCKED)
			rt_violation ("O-prog", "waiter asleep in the kernel wait although the count is %d and every V has returned (lost post)", *(int *) S.s);
		if (posters_done && *(int *) S.s != S.vs_done - S.takes && (rt_state (0) == F_DONE || rt_state (0) == F_BLOCKED))
			rt_violation ("O-lin", "count %d differs from posts %d - takes %d", *(int *) S.s, S.vs_done, S.takes);
		if (diverged && guard >= 100000) rt_violation ("O-prog", "no termination within the step bound");
	}
}

int main (int argc, char **argv) {
	static struct rp_harness h = { setup, pre, env, obs, finish, post, NULL };
	struct rp_stats st;
	FILE *f;
	if (argc < 2) { fprintf (stderr, "usage: h_sem <schedule> [violdir]\n"); return 2; }
	rt_init ();
	rt_sem_single_step = 0;
	rt_snapshot ();
	memset (&st, 0, sizeof st);
	f = strcmp (argv[1], "-") ? fopen (argv[1], "r") : stdin;
	if (!f) { perror (argv[1]); return 2; }
	rp_run (f, &h, &st, argc > 2 ? argv[2] : NULL, "C12");
	rp_print_stats (&st, stdout);
	rp_print_ord (stdout);
	return st.violations ? 1 : 0;
}
