/* L2 harness: real once.c / note.c / counter.c / wait.c / sem_wait.c over the ideal lock and cv of
   ideal_mu.c (link variant h_l2), or over the real mu.c / cv.c (link variant h_l2r, integration mode:
   random schedules and oracles only).  Modes as h_mu: replay <schedule> [violdir] | random <runs> <seed> <init> [violdir]. */
#define _GNU_SOURCE
#include <errno.h>
#include <stdio.h>
#include <stdlib.h>
#include <string.h>
#include <time.h>
#include <unistd.h>
#include "nsync_cpp.h"
#include "platform.h"
#include "compiler.h"
#include "cputype.h"
#include "nsync.h"
#include "dll.h"
#include "sem.h"
#include "wait_internal.h"
#include "common.h"
#include "rt.h"
#include "replay.h"

/* counter.c keeps its struct private: the build copies its definition from the tree under test (uut_structs.h) */
#define WANT_UUT_COUNTER_STRUCT
#include "uut_structs.h"
#ifndef HAVE_UUT_COUNTER_STRUCT
struct nsync_counter_s_ {
	nsync_atomic_uint32_ waited;
	nsync_mu counter_mu;
	nsync_atomic_uint32_ value;
	struct nsync_dll_element_s_ *waiters;
};
#endif

#define MAXOPS 16
#define MAXOBJ 8
struct op { char name[16]; int a, b, dl, x; };
enum { K_COUNTER = 1, K_ONCE, K_NOTE };
static struct {
	int kind, n, v0;
	struct op prog[RT_MAXT][MAXOPS]; int nops[RT_MAXT];
	int ret[RT_MAXT];
	nsync_atomic_uint32_ *nwrec[RT_MAXT];
	/* counter */
	nsync_counter c; long ref; int hist[256]; int nhist; int hstart[RT_MAXT]; long expect[RT_MAXT]; int prog_delta[RT_MAXT];
	/* once */
	nsync_once *once[2]; int runs[2], done[2], running[2], nest;
	/* notes */
	nsync_note note[MAXOBJ]; int nnotes; int freed[MAXOBJ]; int notify_called[MAXOBJ]; int parent_of[MAXOBJ]; int dl_of[MAXOBJ];
	char *nwbase[RT_MAXT]; int wobjs[RT_MAXT][8]; int nwobjs[RT_MAXT]; int nwheap[RT_MAXT]; int nwinit[RT_MAXT];
	waiter *wt[RT_MAXT]; int swnote[RT_MAXT], swlive[RT_MAXT], inwait[RT_MAXT]; long vgiven[RT_MAXT], vtaken[RT_MAXT];
	int seen_notified[MAXOBJ]; int called[MAXOBJ]; int lpar[MAXOBJ]; int pending_new[RT_MAXT]; int notify_returned[MAXOBJ];
	int ideal; int cz; nsync_mu *cmu; int cfreed;
	int *cells;          /* client data for the happens-before oracle (C03), one cell per thread */
	int hbdata;
} S;
extern void __tsan_write4 (void *);
extern void __tsan_read4 (void *);
static int sink;
static void wr_cell (int t) { if (S.hbdata) { __tsan_write4 (&S.cells[t]); S.cells[t] = t + 1; } }
static void rd_cells (void) { int i; if (S.hbdata) for (i = 0; i < S.n; i++) { __tsan_read4 (&S.cells[i]); sink += S.cells[i]; } }

extern void rt_ideal_reset (void) __attribute__ ((weak));
extern int rt_ideal_holder (const void *mu) __attribute__ ((weak));

static nsync_time deadline (int dl) {
	nsync_time t;
	if (dl == 0) return nsync_time_no_deadline;
	if (dl < 0) { t.tv_sec = (time_t) ((RT_T0 - 1) * (long) RT_TICK_SEC); t.tv_nsec = 0; return t; }   /* already past */
	t.tv_sec = (time_t) ((RT_T0 + dl) * (long) RT_TICK_SEC); t.tv_nsec = 0;
	return t;
}
static int expired (int dl) { return dl < 0 || (dl > 0 && rt_now () >= RT_T0 + dl); }

/* ------------------------------------------------------------------ once */
static void once_fn1 (void);
static void once_fa (void *a);
/* the function of once 0; with Nest=k+1 in the scenario it first needs once 1 (which shares the once_sync slot) through entry point k */
static void once_fn0 (void) {
	rt_point ("f0"); S.runs[0]++; S.running[0] = 1; wr_cell (0);
	if (S.nest == 1) nsync_run_once (S.once[1], once_fn1);
	else if (S.nest == 2) nsync_run_once_arg (S.once[1], once_fa, (void *) 1L);
	else if (S.nest == 3) nsync_run_once_spin (S.once[1], once_fn1);
	else if (S.nest == 4) nsync_run_once_arg_spin (S.once[1], once_fa, (void *) 1L);
	rt_point ("f1"); S.running[0] = 0; S.done[0] = 1;
}
static void once_fn1 (void) { rt_point ("f0"); S.runs[1]++; S.running[1] = 1; wr_cell (1); rt_point ("f1"); S.running[1] = 0; S.done[1] = 1; }
static void once_fa (void *a) { if ((long) a == 0) once_fn0 (); else once_fn1 (); }

/* ------------------------------------------------------------------ client */
static int notification_in_progress (void);
static void client (void *arg) {
	int t = (int) (long) arg, ip;
	for (ip = 0;; ip++) {
		struct op *o;
		rt_point ("c0");
		if (S.nwrec[t]) {
			/* the wait that owned this on-stack record has returned: nobody may touch it any more (C13) */
			rt_dead_clear (t);
			if (S.kind == K_NOTE && S.nwbase[t]) { if (!S.nwheap[t]) rt_dead_mark (S.nwbase[t], sizeof (struct nsync_waiter_s) * (size_t) (S.nwobjs[t] ? S.nwobjs[t] : 1), t, "nsync_wait_n record"); }
			else rt_dead_mark ((char *) S.nwrec[t] - offsetof (struct nsync_waiter_s, waiting), sizeof (struct nsync_waiter_s), t, S.swnote[t] ? "nsync_sem_wait_with_cancel_ record" : "nsync_wait_n record");
		}
		S.nwrec[t] = NULL; S.swnote[t] = 0;
		if (ip >= S.nops[t]) break;
		o = &S.prog[t][ip];
		if (!strcmp (o->name, "wait") || !strcmp (o->name, "waitn") || !strcmp (o->name, "swc")) rt_dead_clear (t);      /* a new wait may reuse the same stack bytes */
		if (S.kind == K_COUNTER) {
			if (!strcmp (o->name, "add")) {
				uint32_t r;
				S.prog_delta[t] = o->a;
				if (o->a < 0) wr_cell (t);
				r = nsync_counter_add (S.c, o->a);
				if (o->a != 0 && (long) r != S.expect[t]) rt_violation ("O-lin", "nsync_counter_add(%d) returned %u but its own update left the counter at %ld", o->a, r, S.expect[t]);
				S.ret[t] = (int) r;
			} else if (!strcmp (o->name, "new")) {
				nsync_counter c2;
				if (o->x == 1) rt_fail_malloc_at (1);
				c2 = nsync_counter_new ((uint32_t) o->a);
				rt_fail_malloc_at (0);
				if (o->x == 1 && c2 != NULL) rt_violation ("O-crash", "nsync_counter_new returned a counter although its allocation failed");
				if (o->x != 1 && (c2 == NULL || *(volatile uint32_t *) &c2->value != (uint32_t) o->a)) rt_violation ("O-crash", "nsync_counter_new(%d) failed or has the wrong value", o->a);
				S.ret[t] = c2 != NULL;
			} else if (!strcmp (o->name, "free")) {
				/* the last user frees the counter (it has just learnt, through a wait or a zero result, that nobody else will use it) */
				nsync_counter_free (S.c);
				S.cfreed = 1;
				S.ret[t] = 0;
			} else if (!strcmp (o->name, "value")) {
				int h0 = S.nhist, i, ok = 0; uint32_t r;
				r = nsync_counter_value (S.c);
				for (i = h0 - 1; i < S.nhist; i++) if (i >= 0 && S.hist[i] == (int) r) ok = 1;
				if (!ok) rt_violation ("O-lin", "nsync_counter_value returned %u, a value the counter did not hold during the call", r);
				S.ret[t] = (int) r;
			} else if (!strcmp (o->name, "wait")) {
				int i, z = 0; uint32_t r;
				r = nsync_counter_wait (S.c, deadline (o->dl));
				for (i = 0; i < S.nhist; i++) if (S.hist[i] == 0) z = 1;
				if (r == 0 && !z) rt_violation ("O-ret", "nsync_counter_wait returned 0 but the counter has never been zero");
				if (r == 0 && S.v0 > 0) rd_cells ();      /* the decrements that zeroed the counter happen before this return */
				if (r != 0 && !expired (o->dl)) rt_violation ("O-ret", "nsync_counter_wait returned %u (timeout) at clock %ld before its deadline %d", r, (long) (rt_now () - RT_T0), o->dl);
				S.ret[t] = (int) r;
			}
		} else if (S.kind == K_NOTE) {
			int a = o->a;
			if (!strcmp (o->name, "new")) {
				nsync_note nn;
				int consumed;
				/* x = k >= 1: the k-th allocation made during this constructor call fails (k = 1 is the note itself; the specification's
				   constructor makes no other, so k >= 2 is never consumed on code that conforms) */
				if (o->x >= 1 && o->x <= 8) rt_fail_malloc_at (o->x);
				S.pending_new[t] = a;
				nn = nsync_note_new (o->b ? S.note[o->b] : NULL, deadline (o->dl));
				consumed = o->x >= 1 && o->x <= 8 && !rt_fail_pending ();
				rt_fail_malloc_at (0);
				S.pending_new[t] = 0;
				if (o->x == 1 && nn != NULL) rt_violation ("O-crash", "nsync_note_new returned a note although its allocation failed");
				if (!consumed && nn == NULL) rt_violation ("O-crash", "nsync_note_new returned NULL although memory was available");
				if (nn != NULL) { S.note[a] = nn; S.dl_of[a] = o->dl; S.lpar[a] = o->b; S.freed[a] = 0; { char nm[16]; snprintf (nm, sizeof nm, "note%d", a); rt_name (nn, sizeof *nn, nm); } }
				S.ret[t] = nn != NULL ? a : 0;
			} else if (!strcmp (o->name, "notify")) {
				S.called[a] = 1;
				wr_cell (t);
				nsync_note_notify (S.note[a]);
				if (*(volatile uint32_t *) &S.note[a]->notified == 0) rt_violation ("O-lin", "nsync_note_notify(note %d) returned but the note is not notified", a);
				S.seen_notified[a] = 1;
				S.notify_returned[a] = 1;
				S.ret[t] = 1;
			} else if (!strcmp (o->name, "poll") || !strcmp (o->name, "wait")) {
				int r, must = 0, seen0 = S.seen_notified[a];   /* what had been observed before this observation began (an overlapping one does not count) */
				{ int x = a, k, quiet = !notification_in_progress (); for (k = 0; k < MAXOBJ && x != 0; k++, x = S.lpar[x]) if (S.notify_returned[x] && (x == a || quiet)) must = 1; }   /* an ancestor's (or its own) notify has returned before this observation began */
				if (!strcmp (o->name, "wait")) { S.wobjs[t][0] = a; S.nwobjs[t] = 1; S.nwbase[t] = NULL; S.nwinit[t] = 0; }
				S.inwait[t] = !strcmp (o->name, "wait");
				r = !strcmp (o->name, "poll") ? nsync_note_is_notified (S.note[a]) : nsync_note_wait (S.note[a], deadline (o->dl));
				S.inwait[t] = 0;
				if (!strcmp (o->name, "poll")) {
					/* nsync_note_expiry: the note's own expiry (the projection compares the field with the specification's exp, which is the
					   minimum over the path to the root: C08) */
					nsync_time e = nsync_note_expiry (S.note[a]);
					if (nsync_time_cmp (e, S.note[a]->expiry_time) != 0) rt_violation ("O-lin", "nsync_note_expiry(note %d) differs from the note's expiry time", a);
				}
				if (r) {
					int x = a, k, cause = 0;
					for (k = 0; k < MAXOBJ && x != 0; k++, x = S.lpar[x]) if (S.called[x] || expired (S.dl_of[x])) cause = 1;
					if (S.hbdata) rd_cells ();     /* notifying happens before any observation that the note is notified (single-notifier scenarios) */
					if (!cause) rt_violation ("O-lin", "note %d observed notified although neither it nor an ancestor was notified and no deadline on that path has passed", a);
					S.seen_notified[a] = 1;
				} else {
					if (must) rt_violation ("O-lin", "note %d observed un-notified although nsync_note_notify of it or of an ancestor had already returned", a);
					if (seen0) rt_violation ("O-lin", "note %d observed un-notified after it had been observed notified", a);
					if (!strcmp (o->name, "wait") && !expired (o->dl)) rt_violation ("O-ret", "nsync_note_wait(note %d) timed out at clock %ld before its deadline %d", a, (long) (rt_now () - RT_T0), o->dl);
				}
				S.ret[t] = r;
			} else if (!strcmp (o->name, "waitn")) {
				/* nsync_wait_n (NULL, .., dl, count, notes given by the digits of a): both the on-stack (count <= 4) and the heap path */
				struct nsync_waitable_s w[8], *pw[8]; int cnt = 0, d, r, div = 1, k;
				for (d = o->a; d >= 10; d /= 10) div *= 10;
				for (d = o->a; div > 0; div /= 10) {
					int id = (d / div) % 10; S.wobjs[t][cnt] = id;
					if (id == 9) { w[cnt].v = S.c; w[cnt].funcs = &nsync_counter_waitable_funcs; }
					else { w[cnt].v = S.note[id]; w[cnt].funcs = &nsync_note_waitable_funcs; }
					pw[cnt] = &w[cnt]; cnt++;
				}
				S.nwobjs[t] = cnt; S.nwbase[t] = NULL; S.nwinit[t] = 0; S.inwait[t] = 1;
				if (o->x == 2) {
					/* the caller's mutex is handed to nsync_wait_n, which must give it back held */
					r = nsync_wait_n (S.cmu, (void (*) (void *)) &nsync_mu_lock, (void (*) (void *)) &nsync_mu_unlock, deadline (o->dl), cnt, pw);
					if (rt_ideal_holder ? rt_ideal_holder (S.cmu) != t + 1 : rt_held_by (S.cmu, t) != 1) rt_violation ("O-ret", "nsync_wait_n returned %d without holding the caller's mutex", r);
				} else
				r = nsync_wait_n (NULL, NULL, NULL, deadline (o->dl), cnt, pw);
				S.inwait[t] = 0;
				if (r < cnt) {
					int id = S.wobjs[t][r], x = id, cause = 0;
					if (id == 9) { if (!S.cz) rt_violation ("O-ret", "nsync_wait_n returned index %d (the counter) but the counter has never been zero", r); if (S.hbdata) rd_cells (); }
					else {
						for (k = 0; k < MAXOBJ && x != 0; k++, x = S.lpar[x]) if (S.called[x] || expired (S.dl_of[x])) cause = 1;
						if (!cause) rt_violation ("O-ret", "nsync_wait_n returned index %d (note %d) but that note has no reason to be notified", r, id);
						S.seen_notified[id] = 1;
					}
				} else {
					if (!expired (o->dl)) rt_violation ("O-ret", "nsync_wait_n returned count (timeout) at clock %ld before its deadline %d", (long) (rt_now () - RT_T0), o->dl);
				}
				S.ret[t] = r;
			} else if (!strcmp (o->name, "swc")) {
				/* nsync_sem_wait_with_cancel_ (this thread's waiter, dl, note a or NULL): what cv / mu waiters with a cancel note sleep in */
				int r, must = 0, x, k, cause = 0;
				{ int quiet = !notification_in_progress (); for (k = 0, x = a; k < MAXOBJ && x != 0; k++, x = S.lpar[x]) if (S.notify_returned[x] && (x == a || quiet)) must = 1; }
				S.nwobjs[t] = 0; S.nwbase[t] = NULL; S.swnote[t] = a;
				S.swlive[t] = 1;
				r = nsync_sem_wait_with_cancel_ (S.wt[t], deadline (o->dl), a ? S.note[a] : NULL);
				S.swlive[t] = 0;
				for (k = 0, x = a; k < MAXOBJ && x != 0; k++, x = S.lpar[x]) if (S.called[x] || expired (S.dl_of[x])) cause = 1;
				if (r == 0) { if (S.vgiven[t] <= S.vtaken[t]) rt_violation ("O-ret", "nsync_sem_wait_with_cancel_ returned 0 although the semaphore had not been V'ed"); S.vtaken[t]++; }
				else if (r == ECANCELED) { if (!cause) rt_violation ("O-ret", "nsync_sem_wait_with_cancel_ returned ECANCELED but note %d has no reason to be notified", a); }
				else if (r == ETIMEDOUT) { if (!expired (o->dl)) rt_violation ("O-ret", "nsync_sem_wait_with_cancel_ returned ETIMEDOUT at clock %ld before its deadline %d", (long) (rt_now () - RT_T0), o->dl); }
				else rt_violation ("O-ret", "nsync_sem_wait_with_cancel_ returned %d", r);
				if (r == ECANCELED && S.hbdata) { int byn = 0; for (k = 0, x = a; k < MAXOBJ && x != 0; k++, x = S.lpar[x]) if (S.called[x]) byn = 1; if (byn) rd_cells (); }   /* notifying happens before the cancelled return (single-notifier scenarios) */
				if (must && r != ECANCELED) rt_violation ("O-lin", "nsync_sem_wait_with_cancel_ returned %d although nsync_note_notify of note %d or of an ancestor had returned before the call", r, a);
				S.ret[t] = r;
			} else if (!strcmp (o->name, "mlock")) {
				nsync_mu_lock (S.cmu); S.ret[t] = 0;
			} else if (!strcmp (o->name, "munlock")) {
				nsync_mu_unlock (S.cmu); S.ret[t] = 0;
			} else if (!strcmp (o->name, "cadd")) {
				uint32_t r;
				if (a < 0) wr_cell (t);
				r = nsync_counter_add (S.c, a);
				S.ret[t] = (int) r;
			} else if (!strcmp (o->name, "semv")) {
				nsync_mu_semaphore_v (&S.wt[a - 1]->sem);
				S.ret[t] = 0;
			} else if (!strcmp (o->name, "free")) {
				int x;
				nsync_note_free (S.note[a]);
				S.freed[a] = 1;
				for (x = 1; x < MAXOBJ; x++) if (S.lpar[x] == a) S.lpar[x] = S.lpar[a];
				S.ret[t] = 0;
			}
		} else if (S.kind == K_ONCE) {
			int k = o->a, which = o->b;      /* k: 0 run_once, 1 run_once_arg, 2 run_once_spin, 3 run_once_arg_spin */
			if (k == 0) nsync_run_once (S.once[which], which ? once_fn1 : once_fn0);
			else if (k == 1) nsync_run_once_arg (S.once[which], once_fa, (void *) (long) which);
			else if (k == 2) nsync_run_once_spin (S.once[which], which ? once_fn1 : once_fn0);
			else nsync_run_once_arg_spin (S.once[which], once_fa, (void *) (long) which);
			if (S.hbdata) { __tsan_read4 (&S.cells[which]); sink += S.cells[which]; }   /* the run of the once function happens before every return */
			if (!S.done[which]) rt_violation ("O-once", "a run_once call on once %d returned before the function had completed (runs=%d running=%d)", which, S.runs[which], S.running[which]);
			if (S.runs[which] != 1) rt_violation ("O-once", "the once function of once %d ran %d times", which, S.runs[which]);
			S.ret[t] = S.runs[which];
		}
	}
}

/* ------------------------------------------------------------------ scenario */
static char cur_init[4096];
static void parse_init (const char *init) {
	const char *p;
	int t = 0;
	memset (&S, 0, sizeof S);
	if (strstr (init, "spec=counter")) S.kind = K_COUNTER;
	else if (strstr (init, "spec=once")) S.kind = K_ONCE;
	else if (strstr (init, "spec=note")) S.kind = K_NOTE;
	p = strstr (init, "V0="); S.v0 = p ? atoi (p + 3) : 0;
	p = strstr (init, "progs=");
	if (!p) { fprintf (stderr, "h_l2: no progs\n"); exit (2); }
	p += 6;
	while (*p && *p != ' ' && *p != '\n') {
		struct op *o;
		if (*p == ';') { t++; p++; continue; }
		if (*p == ',' || *p == '-') { p++; continue; }
		o = &S.prog[t][S.nops[t]++];
		sscanf (p, "%15[^.].%d.%d.%d.%d", o->name, &o->a, &o->b, &o->dl, &o->x);
		while (*p && *p != ',' && *p != ';' && *p != ' ' && *p != '\n') p++;
	}
	S.n = t + 1;
}
static void setup (const char *init) {
	int i;
	if (strcmp (init, "=") != 0) snprintf (cur_init, sizeof cur_init, "%s", init);
	parse_init (cur_init);
	S.ideal = rt_ideal_reset != NULL;
	S.hbdata = getenv ("VERIF_HBDATA") != NULL;       /* client cells around the hand-offs (C03's single-writer scenarios); VERIF_HB alone only turns the race detector on */
	S.cells = rt_malloc (sizeof (int) * RT_MAXT); memset (S.cells, 0, sizeof (int) * RT_MAXT); rt_name (S.cells, sizeof (int) * RT_MAXT, "cells");
	if (rt_ideal_reset) rt_ideal_reset ();
	if (S.kind == K_COUNTER) {
		S.c = nsync_counter_new ((uint32_t) S.v0);
		rt_name (S.c, sizeof *S.c, "counter");
		S.ref = S.v0; S.hist[0] = S.v0; S.nhist = 1;
	} else if (S.kind == K_ONCE) {
		/* two once words that share one once_sync slot: addresses 64 * sizeof (nsync_once) apart */
		nsync_once *base = rt_malloc (sizeof (nsync_once) * 130);
		memset (base, 0, sizeof (nsync_once) * 130);
		S.once[0] = base; S.once[1] = base + 64;
		{ const char *q = strstr (cur_init, "Nest="); S.nest = q ? atoi (q + 5) : 0; }
		rt_name (S.once[0], sizeof (nsync_once), "once0"); rt_name (S.once[1], sizeof (nsync_once), "once1");
	}
	else if (S.kind == K_NOTE) {
		const char *p = strstr (cur_init, "tree=");
		if (p) {
			p += 5;
			while (*p && *p != ' ') {
				int id = 0, par = 0, dl = 0; char nm[16];
				sscanf (p, "%d.%d.%d", &id, &par, &dl);
				S.note[id] = nsync_note_new (par ? S.note[par] : NULL, deadline (dl));
				S.dl_of[id] = dl; S.lpar[id] = par;
				snprintf (nm, sizeof nm, "note%d", id); rt_name (S.note[id], sizeof *S.note[id], nm);
				while (*p && *p != ',' && *p != ' ') p++;
				if (*p == ',') p++;
			}
		}
		p = strstr (cur_init, "NN="); S.nnotes = p ? atoi (p + 3) : 4;
		p = strstr (cur_init, "CV0="); S.v0 = p ? atoi (p + 4) : 0;
		S.c = nsync_counter_new ((uint32_t) S.v0); rt_name (S.c, sizeof *S.c, "counter");       /* the counter that "waitn" object 9 stands for */
		S.cz = S.v0 == 0;
		S.cmu = rt_malloc (sizeof *S.cmu); nsync_mu_init (S.cmu); rt_name (S.cmu, sizeof *S.cmu, "client_mu");
		if (strstr (cur_init, "swc.")) for (i = 0; i < S.n; i++) { char nm[16]; S.wt[i] = nsync_waiter_new_ (); snprintf (nm, sizeof nm, "waiter%d", i + 1); rt_name (S.wt[i], sizeof *S.wt[i], nm); }
	}
	for (i = 0; i < S.n; i++) { S.ret[i] = -1; rt_spawn (client, (void *) (long) i); }
}

/* ------------------------------------------------------------------ projection */
static size_t put_owner_list (char *buf, size_t n, nsync_dll_list_ list) {
	size_t o = 0; int k = 0;
	nsync_dll_element_ *p;
	o += (size_t) snprintf (buf + o, n - o, "[");
	for (p = nsync_dll_first_ (list); p != NULL && k < 16; p = nsync_dll_next_ (list, p), k++) {
		int ow = rt_stack_owner (p->container);
		if (ow < 0) ow = rt_block_owner (p->container);      /* heap records of a 5-object nsync_wait_n */
		o += (size_t) snprintf (buf + o, n - o, "%s%d", k ? "," : "", ow >= 0 ? ow + 1 : 99);
	}
	o += (size_t) snprintf (buf + o, n - o, "]");
	return o;
}
static int slot_of (nsync_note p) {
	int k, ow;
	if (p == NULL) return 0;
	for (k = 1; k < MAXOBJ; k++) if (S.note[k] == p) return k;
	/* a note still under construction: the slot its creator is filling */
	ow = rt_block_owner (p);
	if (ow >= 0 && S.pending_new[ow]) return S.pending_new[ow];
	return 99;
}
static int tick_of (nsync_time t) {
	if (t.tv_sec == nsync_time_no_deadline.tv_sec) return 9999;
	if (t.tv_sec == 0 && t.tv_nsec == 0) return -9999;
	return (int) (t.tv_sec / RT_TICK_SEC - RT_T0);
}
static size_t put_note_list (char *buf, size_t n, nsync_dll_list_ list) {
	size_t o = 0; int k = 0;
	nsync_dll_element_ *p;
	o += (size_t) snprintf (buf + o, n - o, "[");
	for (p = nsync_dll_first_ (list); p != NULL && k < 16; p = nsync_dll_next_ (list, p), k++)
		o += (size_t) snprintf (buf + o, n - o, "%s%d", k ? "," : "", slot_of ((nsync_note) p->container));
	o += (size_t) snprintf (buf + o, n - o, "]");
	return o;
}
#define PUTARR(name, expr) do { o += (size_t) snprintf (buf + o, n - o, " " name "=["); \
	for (i = 0; i < S.n; i++) o += (size_t) snprintf (buf + o, n - o, "%s%d", i ? "," : "", (int) (expr)); \
	o += (size_t) snprintf (buf + o, n - o, "]"); } while (0)
/* the specification has one semaphore per thread; the code uses the thread's own waiter in nsync_wait_n and the harness's waiter in a
   direct nsync_sem_wait_with_cancel_ call (a thread is in one of the two at a time) */
static int sem_of (int i) { waiter *w = (waiter *) rt_tls_waiter (i); return (w ? *(volatile int *) &w->sem : 0) + (S.wt[i] ? *(volatile int *) &S.wt[i]->sem : 0); }
static void obs (char *buf, size_t n) {
	size_t o = 0; int i;
	if (S.kind == K_COUNTER) {
		if (S.cfreed) o += (size_t) snprintf (buf + o, n - o, "value=0 waited=0 q=[] lockh=0");
		else {
			o += (size_t) snprintf (buf + o, n - o, "value=%u waited=%u q=", *(volatile uint32_t *) &S.c->value, *(volatile uint32_t *) &S.c->waited);
			o += put_owner_list (buf + o, n - o, S.c->waiters);
			o += (size_t) snprintf (buf + o, n - o, " lockh=%d", rt_ideal_holder ? rt_ideal_holder (&S.c->counter_mu) : 0);
		}
		PUTARR ("nww", S.nwrec[i] ? *(volatile uint32_t *) S.nwrec[i] : 0);
		PUTARR ("sem", sem_of (i));
		o += (size_t) snprintf (buf + o, n - o, " now=%ld", (long) (rt_now () - RT_T0));
		PUTARR ("ret", S.ret[i]);
	} else if (S.kind == K_NOTE) {
		int k;
#define LIVE(k) (S.note[k] != NULL && !S.freed[k])
#define NARR(name, expr) do { o += (size_t) snprintf (buf + o, n - o, "%s" name "=[", o ? " " : ""); \
	for (k = 1; k <= S.nnotes; k++) o += (size_t) snprintf (buf + o, n - o, "%s%d", k > 1 ? "," : "", (int) (expr)); \
	o += (size_t) snprintf (buf + o, n - o, "]"); } while (0)
		NARR ("live", S.note[k] == NULL ? 0 : (S.freed[k] ? 2 : 1));
		NARR ("notified", LIVE (k) ? *(volatile uint32_t *) &S.note[k]->notified : 0);
		NARR ("exp", LIVE (k) ? tick_of (S.note[k]->expiry_time) : 0);
		NARR ("par", LIVE (k) ? slot_of (S.note[k]->parent) : 0);
		o += (size_t) snprintf (buf + o, n - o, " kids=[");
		for (k = 1; k <= S.nnotes; k++) { o += (size_t) snprintf (buf + o, n - o, "%s", k > 1 ? "," : ""); if (LIVE (k)) o += put_note_list (buf + o, n - o, S.note[k]->children); else o += (size_t) snprintf (buf + o, n - o, "[]"); }
		o += (size_t) snprintf (buf + o, n - o, "] wts=[");
		for (k = 1; k <= S.nnotes; k++) { o += (size_t) snprintf (buf + o, n - o, "%s", k > 1 ? "," : ""); if (LIVE (k)) o += put_owner_list (buf + o, n - o, S.note[k]->waiters); else o += (size_t) snprintf (buf + o, n - o, "[]"); }
		o += (size_t) snprintf (buf + o, n - o, "]");
		NARR ("disc", LIVE (k) ? S.note[k]->disconnecting : 0);
		NARR ("lk", LIVE (k) && rt_ideal_holder ? rt_ideal_holder (&S.note[k]->note_mu) : 0);
		o += (size_t) snprintf (buf + o, n - o, " nww=[");
		for (i = 0; i < S.n; i++) {
			o += (size_t) snprintf (buf + o, n - o, "%s[", i ? "," : "");
			for (k = 1; k <= S.nnotes; k++) {
				int j, v = 0;
				/* the record of thread i for note k, if its call is in progress and has reached it */
				if (S.swnote[i] == k && S.nwrec[i]) v = !S.swlive[i] ? 0 : (int) *(volatile uint32_t *) S.nwrec[i];
				else if (S.nwbase[i] && S.nwrec[i] && !(S.nwheap[i] && rt_is_freed (S.nwbase[i]))) for (j = 0; j < S.nwobjs[i] && j < S.nwinit[i]; j++) if (S.wobjs[i][j] == k) v = (int) *(volatile uint32_t *) (S.nwbase[i] + sizeof (struct nsync_waiter_s) * (size_t) j + offsetof (struct nsync_waiter_s, waiting));
				o += (size_t) snprintf (buf + o, n - o, "%s%d", k > 1 ? "," : "", v);
			}
			o += (size_t) snprintf (buf + o, n - o, "]");
		}
		o += (size_t) snprintf (buf + o, n - o, "]");
		PUTARR ("sem", sem_of (i));
		o += (size_t) snprintf (buf + o, n - o, " now=%ld", (long) (rt_now () - RT_T0));
		PUTARR ("ret", S.ret[i]);
		o += (size_t) snprintf (buf + o, n - o, " cval=%u cq=", *(volatile uint32_t *) &S.c->value);
		o += put_owner_list (buf + o, n - o, S.c->waiters);
		o += (size_t) snprintf (buf + o, n - o, " clk=%d", rt_ideal_holder ? rt_ideal_holder (&S.c->counter_mu) : 0);
		o += (size_t) snprintf (buf + o, n - o, " nwc=[");
		for (i = 0; i < S.n; i++) {
			int j, v = 0;
			if (S.nwbase[i] && S.nwrec[i] && !(S.nwheap[i] && rt_is_freed (S.nwbase[i]))) for (j = 0; j < S.nwobjs[i] && j < S.nwinit[i]; j++) if (S.wobjs[i][j] == 9) v = (int) *(volatile uint32_t *) (S.nwbase[i] + sizeof (struct nsync_waiter_s) * (size_t) j + offsetof (struct nsync_waiter_s, waiting));
			o += (size_t) snprintf (buf + o, n - o, "%s%d", i ? "," : "", v);
		}
		o += (size_t) snprintf (buf + o, n - o, "] cmu=%d", rt_ideal_holder ? rt_ideal_holder (S.cmu) : 0);
	} else if (S.kind == K_ONCE) {
		o += (size_t) snprintf (buf + o, n - o, "once=[%u,%u] runs=[%d,%d] fdone=[%d,%d]", *(volatile uint32_t *) S.once[0], *(volatile uint32_t *) S.once[1],
					S.runs[0], S.runs[1], S.done[0], S.done[1]);
	}
}

/* ------------------------------------------------------------------ lock-step */
static const char *kind_of (const char *label) {
	size_t n = strlen (label);
	if (!strcmp (label, "c0") || !strcmp (label, "f0") || !strcmp (label, "f1")) return "c";
	if (n > 3 && !strcmp (label + n - 3, "_ld")) return "ld";
	if (n > 4 && !strcmp (label + n - 4, "_cas")) return "cas";
	if (n > 3 && !strcmp (label + n - 3, "_st")) return "st";
	if (n > 3 && !strcmp (label + n - 3, "_pd")) return "pd";
	if (n > 2 && !strcmp (label + n - 2, "_p")) return "p";
	if (n > 2 && !strcmp (label + n - 2, "_v")) return "v";
	if (n > 2 && !strcmp (label + n - 2, "_d")) return "d";
	if (n > 3 && !strcmp (label + n - 3, "_lk")) return "lock";
	if (n > 3 && !strcmp (label + n - 3, "_ul")) return "unlock";
	if (n > 2 && !strcmp (label + n - 2, "_r")) return "region";
	return NULL;
}
static int pre (int actor, const char *label, const char *prev, const char *exp, char *why, size_t whyn) {
	int t = actor - 1;
	const char *k = kind_of (label);
	(void) prev; (void) exp;
	if (rt_state (t) != F_PARKED) { snprintf (why, whyn, "spec: %s; the real thread is not at a scheduling point (state %d)", label, rt_state (t)); return -1; }
	if (k && strcmp (k, rt_kind_name (rt_pending (t)->kind)) != 0) {
		char fb[64];
		snprintf (why, whyn, "spec expects %s (%s); the real code is about to do %s in %s", label, k, rt_kind_name (rt_pending (t)->kind), rt_op_fn (rt_pending (t), fb, sizeof fb));
		return -1;
	}
	return 0;
}
static int dbg_steps;
/* C08: "once no notification of it or of an ancestor is still in progress ... every thread waiting on them is released": a second
   nsync_note_notify that finds the flag already set returns at once, while the first call may still be waking the waiters */
static int notification_in_progress (void) {
	int i;
	for (i = 0; i < S.n; i++) if (rt_state (i) != F_DONE && (rt_in_function (i, "note_notify_child") || rt_in_function (i, "notify"))) return 1;
	return 0;
}
static void note_step (int t) {
	const struct rt_op *o = rt_last (t);
	if (dbg_steps) { char nb[64], fb[64]; fprintf (stderr, "step t%d %s %s a=%u b=%u r=%u ok=%d fn=%s now=%ld\n", t + 1, rt_kind_name (o->kind), o->addr ? rt_addr_name (o->addr, nb, sizeof nb) : "-", o->a, o->b, o->res, o->ok, rt_op_fn (o, fb, sizeof fb), (long) (rt_now () - RT_T0)); }
	if (S.kind == K_NOTE && o->kind == OP_SEMV) { int x; for (x = 0; x < S.n; x++) if (S.wt[x] && o->addr == (void *) &S.wt[x]->sem) S.vgiven[x]++; }
	if ((o->kind == OP_ST || o->kind == OP_LD) && o->addr && rt_stack_owner (o->addr) >= 0) S.nwrec[rt_stack_owner (o->addr)] = o->addr;
	if (S.kind == K_NOTE && o->kind == OP_ST && o->addr && S.nwbase[t] == NULL && S.nwobjs[t] > 0) {
		char fb[64];
		rt_op_fn (o, fb, sizeof fb);
		if (!strcmp (fb, "nsync_wait_n")) { S.nwbase[t] = (char *) o->addr - offsetof (struct nsync_waiter_s, waiting); S.nwheap[t] = rt_stack_owner (o->addr) < 0; S.nwrec[t] = o->addr; S.nwinit[t] = 0; }
	}
	if (S.kind == K_NOTE && o->kind == OP_ST && S.nwbase[t]) { char fb[64]; rt_op_fn (o, fb, sizeof fb); if (!strcmp (fb, "nsync_wait_n")) S.nwinit[t]++; }
	if (S.kind == K_NOTE && S.c && o->kind == OP_CAS && o->ok && o->addr == (void *) &S.c->value && o->b == 0) S.cz = 1;
	if (S.kind == K_COUNTER && o->kind == OP_CAS && o->ok && o->addr == (void *) &S.c->value && S.nhist < 256) {
		if ((long) o->b != (long) o->a + S.prog_delta[t]) rt_violation ("O-lin", "the counter went from %u to %u in an add of %d", o->a, o->b, S.prog_delta[t]);
		S.hist[S.nhist++] = (int) o->b; S.expect[t] = (long) o->b;
	}
	if ((o->kind == OP_CAS && !o->ok) || o->kind == OP_SEMPD || o->kind == OP_LOCK) rp_mark_nontrivial ();
	if (S.kind == K_NOTE) {
		/* C08 / C05: once nsync_note_notify has returned, every waiter on that note or a descendant has been released:
		   none of them may still be asleep (semaphore at 0, deadline ahead) in its wait */
		int u;
		for (u = 0; u < S.n; u++) if (rt_state (u) == F_PARKED && rt_pending (u)->kind == OP_SEMPD && !rt_enabled (u)) {
			char fb[64]; int j, k, x, nob = S.swlive[u] ? (S.swnote[u] ? 1 : 0) : (S.inwait[u] ? S.nwobjs[u] : 0);      /* only a thread inside a wait call: the same function is also the sleep of nsync_mu_wait when the real mutex is linked */
			rt_op_fn (rt_pending (u), fb, sizeof fb);
			if (strcmp (fb, "nsync_sem_wait_with_cancel_") != 0 && strcmp (fb, "nsync_wait_n") != 0) continue;
			for (j = 0; j < nob; j++) {
				int a = S.swlive[u] ? S.swnote[u] : S.wobjs[u][j];
				if (a <= 0 || a >= MAXOBJ) continue;      /* object 9 is the counter */
				for (k = 0, x = a; k < MAXOBJ && x != 0; k++, x = S.lpar[x]) if (S.notify_returned[x] && !notification_in_progress ()) {
					rt_violation ("O-prog", "thread %d is still asleep in %s on note %d although nsync_note_notify of note %d had returned", u + 1, fb, a, x);
					return;
				}
			}
		}
	}
}
static void post (int actor, const char *label) { (void) label; note_step (actor - 1); }
static void env (const char *label, const char *exp) { (void) exp; if (!strcmp (label, "Tick")) rt_tick (); }
static int all_done (void) { return rt_all_done (); }
static int max_deadline (void) { int t, i, m = 0; for (t = 0; t < S.n; t++) for (i = 0; i < S.nops[t]; i++) if (S.prog[t][i].dl > m) m = S.prog[t][i].dl; return m; }
static int once_timed_waiter (void) {
	int i;
	if (rt_timed_waiter_pending ()) return 1;
	for (i = 0; i < S.n; i++) if (rt_state (i) == F_PARKED && rt_pending (i)->kind == OP_LOCK && rt_pending (i)->tag && !strcmp (rt_pending (i)->tag, "cvwait-wake")) return 1;
	return 0;
}
static void finish (int diverged) {
	long guard = 0;
	int i, progress;
	if (!diverged) {
		int timed = 0;
		for (i = 0; i < S.n; i++) if (rt_state (i) == F_PARKED && rt_pending (i)->kind == OP_SEMPD && rt_now () < RT_T0 + max_deadline ()) timed = 1;
		if (all_done () || rt_any_enabled () || timed || once_timed_waiter ()) return;
	}
	while (!all_done () && guard++ < 200000 && !rt_first_violation ()) {
		progress = 0;
		for (i = 0; i < S.n; i++) if (rt_enabled (i)) { rt_grant (i); note_step (i); progress = 1; }
		if (!progress) {
			if (rt_now () < RT_T0 + max_deadline () + 1 || once_timed_waiter ()) { rt_tick (); progress = 1; if (guard > 1000 && !rt_any_enabled ()) break; }
			else break;
		}
	}
	if (rt_first_violation ()) return;
	if (!all_done ()) {
		char b[300]; size_t o = 0;
		for (i = 0; i < S.n; i++) if (rt_state (i) != F_DONE) {
			char fb[64];
			o += (size_t) snprintf (b + o, sizeof b - o, " t%d:%s@%s", i + 1, rt_kind_name (rt_pending (i)->kind), rt_op_fn (rt_pending (i), fb, sizeof fb));
		}
		if (guard >= 200000) rt_violation ("O-prog", "no termination within the step bound:%s", b);
		else rt_violation ("O-prog", "threads are blocked for ever with nothing runnable:%s", b);
	}
}

/* ------------------------------------------------------------------ random exploration */
static unsigned long long rng;
static unsigned rnd (void) { rng ^= rng << 13; rng ^= rng >> 7; rng ^= rng << 17; return (unsigned) (rng >> 11); }
static FILE *trace;      /* random mode: one JSON line per granted step (code -> spec validation against NoteTrace.tla) */
static void log_step (int t) {
	int k;
	if (!trace) return;
	if (S.kind == K_COUNTER) {
		fprintf (trace, "{\"t\":%d,\"k\":\"%s\",\"v\":%u,\"wd\":%u}\n", t + 1, rt_kind_name (rt_last (t)->kind),
			 S.cfreed ? 0 : *(volatile uint32_t *) &S.c->value, S.cfreed ? 0 : *(volatile uint32_t *) &S.c->waited);
		return;
	}
	if (S.kind == K_ONCE) {
		fprintf (trace, "{\"t\":%d,\"k\":\"%s\",\"ow\":[%u,%u]}\n", t + 1, rt_kind_name (rt_last (t)->kind), *(volatile uint32_t *) S.once[0], *(volatile uint32_t *) S.once[1]);
		return;
	}
	fprintf (trace, "{\"t\":%d,\"k\":\"%s\",\"nm\":[", t + 1, rt_kind_name (rt_last (t)->kind));
	for (k = 1; k <= S.nnotes; k++) fprintf (trace, "%s%d", k > 1 ? "," : "", (S.note[k] != NULL && !S.freed[k] && *(volatile uint32_t *) &S.note[k]->notified != 0) ? 1 : 0);
	fprintf (trace, "],\"cv\":%u}\n", S.c ? *(volatile uint32_t *) &S.c->value : 0);
}
/* Note.tla's TickUseful, as far as the harness can see it: a sleeper whose deadline is ahead, or a live un-notified note whose own expiry is ahead */
static int tick_useful (void) {
	int k;
	if (rt_timed_waiter_pending ()) return 1;
	for (k = 1; k <= S.nnotes; k++) if (S.note[k] != NULL && !S.freed[k] && *(volatile uint32_t *) &S.note[k]->notified == 0) {
		long e = tick_of (S.note[k]->expiry_time);
		if (e > 0 && e < 9999 && e > (long) (rt_now () - RT_T0)) return 1;
	}
	return 0;
}
static int run_random (long runs, unsigned seed, const char *init, const char *violdir, const char *prop) {
	long r, viols = 0, steps_total = 0, nontriv = 0;
	for (r = 0; r < runs && viols < 40 && rt_watchdog_hits < 3; r++) {     /* forty failing runs are enough (a livelock makes every run slow) */
		char *sched = NULL; size_t sl = 0; FILE *sf = open_memstream (&sched, &sl);
		long guard = 0;
		int i, maxdl; long starve_from;
		rng = 88172645463325252ULL ^ ((unsigned long long) seed * 0x9E3779B97F4A7C15ULL) ^ ((unsigned long long) r * 0xD1B54A32D192ED03ULL);
		rt_reset ();
		setup (init);
		maxdl = max_deadline ();
		starve_from = (long) (rnd () % 40);
		fprintf (sf, "T %ld %s\n", r + 1, init);
		while (!all_done () && guard < 100000 && !rt_first_violation ()) {
			int cand[RT_MAXT], nc = 0, t;
			for (i = 0; i < S.n; i++) if (rt_enabled (i)) cand[nc++] = i;
			if ((nc == 0 || (rnd () % 16) == 0) && (rt_now () < RT_T0 + maxdl + 1 || once_timed_waiter ())) {
				if (trace && !(S.kind == K_ONCE ? once_timed_waiter () : (rt_now () < RT_T0 + maxdl && (S.kind == K_NOTE ? tick_useful () : rt_timed_waiter_pending ())))) { if (nc == 0) break; }      /* while recording, the clock moves only when the specification lets it */
				else
				if (nc == 0 || (rnd () % 2)) { rt_tick (); fprintf (sf, "S 0 Tick *\n"); if (trace) fprintf (trace, "{\"t\":0,\"k\":\"tick\"}\n"); guard++; if (guard > 50000) break; continue; }
			}
			if (nc == 0) break;
			t = cand[rnd () % (unsigned) nc];
			/* every third run starves one thread from some point on: it then runs only when nobody else can and the clock cannot help */
			if (r % 3 == 1 && guard >= starve_from) {
				int victim = (int) (r / 3) % S.n;
				if (nc > 1 && t == victim) { int k; for (k = 0; k < nc; k++) if (cand[k] != victim) { t = cand[k]; break; } }
				else if (nc == 1 && t == victim && once_timed_waiter () && guard < 600 && !trace) { rt_tick (); fprintf (sf, "S 0 Tick *\n"); guard++; continue; }
			}
			/* spinning threads (delay) yield most of the time */
			if (rt_pending (t)->kind == OP_DELAY && nc > 1 && (rnd () % 4)) t = cand[rnd () % (unsigned) nc];
			rt_grant (t); note_step (t); log_step (t);
			fprintf (sf, "S %d * *\n", t + 1);
			guard++;
		}
		steps_total += guard;
		if (!rt_first_violation () && !all_done ()) finish (1);
		if (trace) fprintf (trace, "{\"t\":0,\"k\":\"reset\"}\n");
		fclose (sf);
		if (rt_first_violation ()) {
			const struct rt_viol *v = rt_first_violation ();
			char path[512] = "-";
			viols++;
			if (violdir && rt_should_save (v->oracle)) {
				FILE *o;
				snprintf (path, sizeof path, "%s/%s_r%u_%ld.sched", violdir, prop, seed, viols);
				o = fopen (path, "w");
				if (o) { fputs (sched, o); fputs ("E\n", o); fclose (o); }
			}
			printf ("VIOL %s|%s|thread %d|step %ld|%s|%s\n", v->oracle, v->fn, v->tid, v->step, path, v->msg);
		}
		free (sched);
		if (guard > 20) nontriv++;
	}
	printf ("STATS tours=%ld steps=%ld matched=%ld diverged=0 mismatches=0 violations=%ld nontrivial=%ld\n", r, steps_total, r - viols, viols, nontriv);
	return viols ? 1 : 0;
}

int main (int argc, char **argv) {
	static struct rp_harness h = { setup, pre, env, obs, finish, post, NULL };
	struct rp_stats st;
	const char *prop = getenv ("VERIF_PROP") ? getenv ("VERIF_PROP") : "C10";
	if (argc < 3) { fprintf (stderr, "usage: h_l2 replay <schedule> [violdir] | h_l2 random <runs> <seed> <init> [violdir]\n"); return 2; }
	dbg_steps = getenv ("VERIF_DEBUG") != NULL;
	rt_init ();
	rt_sem_single_step = 1;
	rt_swc_region = 0;      /* sem_wait.c is code under test here: its steps are scheduled one by one */
	rt_no_exit_dest = 1;
	rt_track_stack_frames (1);
	if (getenv ("VERIF_HB")) rt_hb_enable (1);
	rt_snapshot ();
	if (!strcmp (argv[1], "replay")) {
		FILE *f = strcmp (argv[2], "-") ? fopen (argv[2], "r") : stdin;
		if (!f) { perror (argv[2]); return 2; }
		memset (&st, 0, sizeof st);
		rp_run (f, &h, &st, argc > 3 ? argv[3] : NULL, prop);
		rp_print_stats (&st, stdout);
		rp_print_ord (stdout);
		return st.violations ? 1 : 0;
	}
	if (!strcmp (argv[1], "pb") && argc >= 5) {
		FILE *f = fopen (argv[2], "r");
		if (!f) { perror (argv[2]); return 2; }
		return rp_explore_pb (f, &h, atoi (argv[3]), atol (argv[4]), argc > 5 ? argv[5] : NULL, prop, NULL, 20000) ? 1 : 0;
	}
	if (!strcmp (argv[1], "from") && argc >= 5) {
		FILE *f = fopen (argv[2], "r");
		if (!f) { perror (argv[2]); return 2; }
		return rp_explore_from (f, &h, atol (argv[3]), (unsigned) atol (argv[4]), argc > 5 ? argv[5] : NULL, prop, NULL, 20000) ? 1 : 0;
	}
	if (!strcmp (argv[1], "random") && argc > 6) trace = fopen (argv[6], "w");
	if (!strcmp (argv[1], "random") && argc >= 5) return run_random (atol (argv[2]), (unsigned) atol (argv[3]), argv[4], argc > 5 ? argv[5] : NULL, prop);
	return 2;
}
