/* A model of pthread mutexes and condition variables for the C12 harness of platform/posix/src/nsync_semaphore_mutex.c
   (linked with --wrap=pthread_mutex_* / pthread_cond_*), in the style of ideal_mu.c.  Each operation is one step:
     lock        enabled when the mutex is free
     unlock      one step
     cond wait   two steps: "cw" registers the caller as waiting and releases the mutex; "wk" is the return, enabled when the
                 mutex is free and the caller has been signalled, or its absolute deadline has passed on the virtual clock, or the
                 harness has injected an early return (spurious 0, or premature ETIMEDOUT for the timed wait)
     broadcast / signal   one step, marks the waiters signalled */
#define _GNU_SOURCE
#include <errno.h>
#include <pthread.h>
#include <stdio.h>
#include <string.h>
#include <time.h>
#include <unistd.h>
#include "rt.h"
extern void rt_hb_lock_acquire (const void *mu);
extern void rt_hb_lock_release (const void *mu);

#define MAXPM 16
struct pm { const void *mu; int holder; };          /* holder: thread + 1, 0 = free */
struct pc { const void *cv; int waiting[RT_MAXT], signalled[RT_MAXT]; };
static struct pm *pms; static struct pc *pcs; static int npm, npc;
static int lastres[RT_MAXT];
static int early[RT_MAXT];                           /* injected early return: 1 = spurious 0, 2 = premature ETIMEDOUT */
static struct { struct pc *c; struct timespec d; int timed; } cw[RT_MAXT];

void rt_ideal_reset (void) {
	static struct pm m0[MAXPM]; static struct pc c0[MAXPM];
	pms = m0; pcs = c0; npm = npc = 0;
	memset (m0, 0, sizeof m0); memset (c0, 0, sizeof c0); memset (early, 0, sizeof early); memset (lastres, 0, sizeof lastres); memset (cw, 0, sizeof cw);
}
static struct pm *getmu (const void *mu) {
	int i;
	if (!pms) rt_ideal_reset ();
	for (i = 0; i < npm; i++) if (pms[i].mu == mu) return &pms[i];
	if (npm >= MAXPM) { fprintf (stderr, "ideal_pthread: too many mutexes\n"); _exit (2); }
	pms[npm].mu = mu; pms[npm].holder = 0;
	return &pms[npm++];
}
static struct pc *getcv (const void *cv) {
	int i;
	if (!pcs) rt_ideal_reset ();
	for (i = 0; i < npc; i++) if (pcs[i].cv == cv) return &pcs[i];
	if (npc >= MAXPM) { fprintf (stderr, "ideal_pthread: too many condition variables\n"); _exit (2); }
	memset (&pcs[npc], 0, sizeof pcs[0]); pcs[npc].cv = cv;
	return &pcs[npc++];
}
extern int __wrap_clock_gettime (clockid_t, struct timespec *);
static int passed (const struct timespec *d) {
	struct timespec now;
	__wrap_clock_gettime (0, &now);
	return now.tv_sec > d->tv_sec || (now.tv_sec == d->tv_sec && now.tv_nsec >= d->tv_nsec);
}
/* rt_enabled() asks this for fibers parked at OP_LOCK; a = 1: plain lock, a = 2: return from a condition-variable wait */
int rt_ideal_can_lock (void *mu, int mode, int tid) {
	struct pm *m = getmu (mu);
	if (m->holder != 0) return 0;
	if (mode == 2) return cw[tid].c->signalled[tid] || early[tid] || (cw[tid].timed && passed (&cw[tid].d));
	return 1;
}
int rt_pt_holder (const void *mu) { return getmu (mu)->holder; }
int rt_pt_waiting (const void *cv, int t) { return getcv (cv)->waiting[t]; }
int rt_pt_signalled (const void *cv, int t) { return getcv (cv)->signalled[t]; }
void rt_pt_inject (int t, int kind) { early[t] = kind; }
int rt_pt_last_result (int t) { return lastres[t]; }

int __wrap_pthread_mutex_init (pthread_mutex_t *mu, const pthread_mutexattr_t *a) { (void) a; memset (mu, 0, sizeof *mu); getmu (mu)->holder = 0; return 0; }
int __wrap_pthread_cond_init (pthread_cond_t *cv, const pthread_condattr_t *a) { (void) a; memset (cv, 0, sizeof *cv); getcv (cv); return 0; }
int __wrap_pthread_mutex_lock (pthread_mutex_t *mu) {
	struct pm *m = getmu (mu);
	rt_region_begin2 (OP_LOCK, mu, "lock", 1);
	rt_touch (mu, 1);
	if (m->holder != 0) rt_violation ("O-harness", "model mutex granted while held");
	m->holder = rt_self () + 1;
	rt_hb_lock_acquire (mu);
	rt_region_end ();
	return 0;
}
int __wrap_pthread_mutex_unlock (pthread_mutex_t *mu) {
	struct pm *m = getmu (mu);
	rt_region_begin (OP_UNLOCK, mu, "unlock");
	rt_touch (mu, 1);
	if (m->holder != rt_self () + 1) rt_violation ("O-crash", "pthread_mutex_unlock of a mutex the thread does not hold");
	m->holder = 0;
	rt_hb_lock_release (mu);
	rt_region_end ();
	return 0;
}
static int cond_wait (pthread_cond_t *cv, pthread_mutex_t *mu, const struct timespec *d) {
	struct pm *m = getmu (mu); struct pc *c = getcv (cv);
	int t = rt_self (), r;
	rt_region_begin (OP_REGION, cv, "cw");
	if (m->holder != t + 1) rt_violation ("O-crash", "pthread_cond_wait with a mutex the thread does not hold");
	c->waiting[t] = 1; c->signalled[t] = 0;
	m->holder = 0;
	rt_hb_lock_release (mu);
	cw[t].c = c; cw[t].timed = d != NULL; if (d) cw[t].d = *d;
	rt_region_end ();
	rt_region_begin2 (OP_LOCK, mu, "wk", 2);
	if (c->signalled[t] || early[t] == 1) r = 0;
	else r = ETIMEDOUT;                     /* deadline passed, or an injected premature timeout */
	early[t] = 0; lastres[t] = r;
	c->waiting[t] = 0; c->signalled[t] = 0;
	m->holder = t + 1;
	rt_hb_lock_acquire (mu);
	rt_region_end ();
	return r;
}
int __wrap_pthread_cond_wait (pthread_cond_t *cv, pthread_mutex_t *mu) { return cond_wait (cv, mu, NULL); }
int __wrap_pthread_cond_timedwait (pthread_cond_t *cv, pthread_mutex_t *mu, const struct timespec *d) { return cond_wait (cv, mu, d); }
int __wrap_pthread_cond_broadcast (pthread_cond_t *cv) {
	struct pc *c = getcv (cv); int i;
	rt_region_begin (OP_REGION, cv, "bc");
	for (i = 0; i < RT_MAXT; i++) if (c->waiting[i]) c->signalled[i] = 1;
	rt_region_end ();
	return 0;
}
int __wrap_pthread_cond_signal (pthread_cond_t *cv) {
	struct pc *c = getcv (cv); int i;
	rt_region_begin (OP_REGION, cv, "bc");
	for (i = 0; i < RT_MAXT; i++) if (c->waiting[i] && !c->signalled[i]) { c->signalled[i] = 1; break; }
	rt_region_end ();
	return 0;
}
