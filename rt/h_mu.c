/* L1 harness: real mu.c, mu_wait.c, cv.c, wait.c, sem_wait.c, debug.c, note.c (and the futex
   semaphore as a single step) under the deterministic runtime; client programs are the ones
   Mu.tla's configuration describes.  Modes:
     h_mu replay <schedule> [violdir]          lock-step replay of TLC behaviours (spec -> code)
     h_mu random <runs> <seed> <init> [violdir] [tracefile]   random/PCT schedules, oracles on, optional trace log (code -> spec)
*/
#define _GNU_SOURCE
#include <errno.h>
#include <stdio.h>
#include <stdlib.h>
#include <string.h>
#include <time.h>
#include <unistd.h>
#include "nsync_cpp.h"
#include "platform.h"
#include "compiler.h"
#include "cputype.h"
#include "nsync.h"
#include "dll.h"
#include "sem.h"
#include "wait_internal.h"
#include "common.h"
#include "rt.h"
#include "replay.h"

#define MAXOPS 24
#define MAXCOND 8
#define MAXV 4
enum { O_GATE = 100, O_GET = 101 };
enum { O_LOCK, O_TRYLOCK, O_UNLOCK, O_UNLOCKWW, O_SET, O_SKIPUNLESS, O_MUWAIT, O_CVWAIT, O_CVLOOP, O_WAITN, O_WAITNLOOP,
       O_SIGNAL, O_BROADCAST, O_DEBUG, O_NOTIFY, O_DECREF, O_FREEIFLAST, O_NOP, O_DEBUGCV };
static const char *opnames[] = { "lock", "trylock", "unlock", "unlockww", "set", "skipunless", "muwait", "cvwait", "cvloop", "waitn", "waitnloop",
				 "signal", "broadcast", "debug", "notify", "decref", "freeiflast", "nop", "debugcv" };
struct op { int op, lt, c, dl, cn, v, x, skip; };
struct condarg { int *cell; int id; };
struct cond { int f, v, eq, cell; struct condarg *arg; };

static struct {
	int n, nv, binary, nconds;
	int looper[RT_MAXT];
	struct op prog[RT_MAXT][MAXOPS]; int nops[RT_MAXT];
	struct cond conds[MAXCOND];
	nsync_mu *mu; nsync_cv *cv; nsync_note note; int *cells;
	int notified;
	int ret[RT_MAXT];
	int refs;
	nsync_atomic_uint32_ *nwrec[RT_MAXT]; int nwlive[RT_MAXT], nwcnt[RT_MAXT], nw2init[RT_MAXT];
	int sleeps[RT_MAXT], inlock[RT_MAXT];
	int mu_freed; uint32_t word_at_free;
	int done_ops[RT_MAXT];
	int ip[RT_MAXT];
	int picked[RT_MAXT];
	int waits_started[RT_MAXT];
	int sink;
	int cur_op[RT_MAXT];
	int nq, counted[RT_MAXT];   /* waits that have queued themselves so far (mirrors Mu.tla's ghost nq, never ahead of it) */
} S;
static int maxsleeps;
static void scan_waiters (void);
static int fine_notes;    /* VERIF_FINE: the cancellation note's operations are interleaved at atomic-operation granularity (random mode only) */
static waiter *wtab[16]; static int nwtab;
static int sb_limit = 1000000;    /* O-starve bound, set from the command line */

/* ---- conditions: evaluated by nsync with the mutex held ---- */
static int cond_eval (const void *v) {
	const struct condarg *a = v;
	int writers, readers;
	rt_noyield_begin ();
	/* O-cond: the evaluator (or its caller) holds the mutex, nobody else is inside a write critical section */
	if (((*(volatile uint32_t *) &S.mu->word) & (MU_WLOCK | MU_RLOCK_FIELD)) == 0)
		rt_violation ("O-cond", "condition evaluated while the mutex word shows no holder");
	rt_holders (S.mu, &writers, &readers);
	if (writers > 0 && rt_held_by (S.mu, rt_self ()) != 1)
		rt_violation ("O-cond", "condition evaluated by thread %d while another thread is inside a write critical section", rt_self ());
	rt_noyield_end ();
	__tsan_read4 (a->cell);
	return *a->cell != 0;
}
static int condf1 (const void *v) { return cond_eval (v); }
static int condf2 (const void *v) { return cond_eval (v); }
static int cond_eq (const void *a, const void *b) { return ((const struct condarg *) a)->cell == ((const struct condarg *) b)->cell; }

static nsync_time deadline (int dl) {
	nsync_time t;
	if (dl == 0) return nsync_time_no_deadline;
	t.tv_sec = (time_t) ((RT_T0 + dl) * (long) RT_TICK_SEC); t.tv_nsec = 0;
	return t;
}
/* a lock that cv.c cannot recognise as an nsync_mu (generic-lock waiters) */
static void g_lock (void *m) { nsync_mu_lock ((nsync_mu *) m); }
static void g_unlock (void *m) { nsync_mu_unlock ((nsync_mu *) m); }
static void v_lock (void *m) { nsync_mu_lock ((nsync_mu *) m); }
static void v_unlock (void *m) { nsync_mu_unlock ((nsync_mu *) m); }

extern void __tsan_write4 (void *);
extern void __tsan_read4 (void *);

static void api_held_checks (int t, int mode);
static void check_ret (int t, const struct op *o, int r, const char *what) {
	if (r == ETIMEDOUT && !(o->dl != 0 && rt_now () >= RT_T0 + o->dl))      /* dl < 0: a deadline already in the past when the scenario starts */
		rt_violation ("O-ret", "%s returned ETIMEDOUT at clock %ld but its deadline is %d", what, (long) (rt_now () - RT_T0), o->dl);
	if (r == ECANCELED && !S.notified)
		rt_violation ("O-ret", "%s returned ECANCELED but the note is not notified", what);
	if (r != 0 && r != ETIMEDOUT && r != ECANCELED) rt_violation ("O-ret", "%s returned %d", what, r);
	if (rt_held_by (S.mu, t) != o->lt && !S.mu_freed)
		rt_violation ("O-ret", "%s returned with the mutex in mode %d, caller held it in mode %d", what, rt_held_by (S.mu, t), o->lt);
	else if (!S.mu_freed && (o->lt == 1 || o->lt == 2)) api_held_checks (t, o->lt);
}

/* the cancel note as the second object of an nsync_wait_n: at this layer its three functions are atomic regions (their own
   locking is specified in Note.tla); with VERIF_FINE they run at full granularity */
static nsync_time nr_ready (void *v, struct nsync_waiter_s *nw) { nsync_time r; if (!fine_notes) rt_region_begin (OP_REGION, v, "nready"); r = (*nsync_note_waitable_funcs.ready_time) (v, nw); if (!fine_notes) rt_region_end (); return r; }
static int nr_enq (void *v, struct nsync_waiter_s *nw) { int r; if (!fine_notes) rt_region_begin (OP_REGION, v, "nenq"); r = (*nsync_note_waitable_funcs.enqueue) (v, nw); if (!fine_notes) rt_region_end (); return r; }
static int nr_deq (void *v, struct nsync_waiter_s *nw) { int r; if (!fine_notes) rt_region_begin (OP_REGION, v, "ndeq"); r = (*nsync_note_waitable_funcs.dequeue) (v, nw); if (!fine_notes) rt_region_end (); return r; }
static const struct nsync_waitable_funcs_s note_region_funcs = { &nr_ready, &nr_enq, &nr_deq };

/* nsync_mu_assert_held / nsync_mu_rassert_held / nsync_mu_is_reader, asked by a thread that has just obtained the mutex in mode
   `mode` (1 write, 2 read): they must agree (a failed assertion panics: O-crash).  Run without scheduling points: they only load the word. */
static void api_held_checks (int t, int mode) {
	int ir;
	if (S.mu_freed) return;
	rt_noyield_begin ();
	if (mode == 1) { nsync_mu_assert_held (S.mu); nsync_mu_rassert_held (S.mu); } else nsync_mu_rassert_held (S.mu);
	ir = nsync_mu_is_reader (S.mu);
	rt_noyield_end ();
	if (ir != (mode == 2)) rt_violation ("O-excl", "nsync_mu_is_reader returned %d to thread %d, which holds the mutex in %s mode", ir, t + 1, mode == 1 ? "write" : "read");
}
static void client (void *arg) {
	int t = (int) (long) arg;
	int ip = 0;
	for (;;) {
		struct op *o;
		S.ip[t] = ip;
		rt_point ("c0");
		S.nwrec[t] = NULL;
		if (ip >= S.nops[t]) { if (S.looper[t]) { ip = 0; continue; } break; }
		o = &S.prog[t][ip];
		S.done_ops[t]++;
		S.cur_op[t] = ip; S.counted[t] = 0;
		switch (o->op) {
		case O_LOCK: ip++; S.sleeps[t] = 0; S.inlock[t] = 1; if (o->lt == 1) nsync_mu_lock (S.mu); else nsync_mu_rlock (S.mu); S.inlock[t] = 0; api_held_checks (t, o->lt); break;
		case O_TRYLOCK: ip++; S.ret[t] = (o->lt == 1) ? nsync_mu_trylock (S.mu) : nsync_mu_rtrylock (S.mu); if (S.ret[t]) api_held_checks (t, o->lt); break;
		case O_UNLOCK: ip++; if (o->lt == 1) nsync_mu_unlock (S.mu); else nsync_mu_runlock (S.mu); break;
		case O_UNLOCKWW: ip++; nsync_mu_unlock_without_wakeup (S.mu); break;
		case O_SET: ip++; __tsan_write4 (&S.cells[o->v - 1]); S.cells[o->v - 1] = o->x;
			if (rt_held_by (S.mu, t) != 1) rt_violation ("O-harness", "client wrote a cell without the write lock (scenario error)");
			break;
		case O_GATE: ip++; break;
		case O_GET: ip++; __tsan_read4 (&S.cells[o->v - 1]); S.sink += S.cells[o->v - 1]; break;
		case O_SKIPUNLESS: ip += (S.ret[t] != 1) ? 1 + o->skip : 1; break;
		case O_MUWAIT: S.waits_started[t]++; /* fall through */
		case O_MUWAIT + 1000: {
			struct cond *c = o->c ? &S.conds[o->c - 1] : NULL;
			int r, mode = rt_held_by (S.mu, t);
			ip++;
			if (c && o->dl == 0 && !o->cn) {
				/* no deadline, no cancel note: through the public wrapper (it must block until the condition holds and return with the mutex held) */
				nsync_mu_wait (S.mu, c->f == 1 ? condf1 : condf2, c->arg, c->eq ? cond_eq : NULL);
				r = 0;
			} else
			r = nsync_mu_wait_with_deadline (S.mu, c ? (c->f == 1 ? condf1 : condf2) : NULL, c ? c->arg : NULL, (c && c->eq) ? cond_eq : NULL,
							 deadline (o->dl), o->cn ? S.note : NULL);
			S.ret[t] = r;
			{ struct op oo = *o; oo.lt = mode; check_ret (t, &oo, r, "nsync_mu_wait_with_deadline"); }
			if (c) { int ct = *c->arg->cell != 0; if ((r == 0) != ct) rt_violation ("O-ret", "nsync_mu_wait_with_deadline returned %d but its condition is %s", r, ct ? "true" : "false"); }
			break; }
		case O_CVWAIT: case O_CVLOOP: {
			S.waits_started[t]++;
			int r, mode = rt_held_by (S.mu, t);
			if (o->op == O_CVLOOP) {
				__tsan_read4 (&S.cells[o->v - 1]);
				if (!(S.cells[o->v - 1] == 0 && S.ret[t] != ETIMEDOUT && S.ret[t] != ECANCELED)) { ip++; S.ret[t] = -1; break; }
			} else ip++;
			S.picked[t] = 0;
			if (o->x == 9) r = nsync_cv_wait_with_deadline_generic (S.cv, S.mu, g_lock, g_unlock, deadline (o->dl), o->cn ? S.note : NULL);
			else if (o->dl == 0 && !o->cn) { nsync_cv_wait (S.cv, S.mu); r = 0; }      /* the public wrapper for "no deadline, no cancel note" */
			else r = nsync_cv_wait_with_deadline (S.cv, S.mu, deadline (o->dl), o->cn ? S.note : NULL);
			S.ret[t] = r;
			if (S.picked[t] && r != 0) rt_violation ("O-ret", "a cv wait that a signal/broadcast had unlinked (consumed wake-up) returned %d instead of 0", r);
			{ struct op oo = *o; oo.lt = mode; check_ret (t, &oo, r, "nsync_cv_wait_with_deadline"); }
			break; }
		case O_WAITN: case O_WAITNLOOP: {
			S.waits_started[t]++;
			struct nsync_waitable_s wa[2], *pwa[2];
			int r, cnt = (o->op == O_WAITN && o->cn) ? 2 : 1;
			if (o->op == O_WAITNLOOP) {
				__tsan_read4 (&S.cells[o->v - 1]);
				if (!(S.cells[o->v - 1] == 0 && S.ret[t] != 1)) { ip++; S.ret[t] = -1; break; }
			} else ip++;
			wa[0].v = S.cv; wa[0].funcs = &nsync_cv_waitable_funcs; pwa[0] = &wa[0];
			wa[1].v = S.note; wa[1].funcs = &note_region_funcs; pwa[1] = &wa[1];
			rt_dead_clear (t);
			S.picked[t] = 0; S.nwrec[t] = NULL; S.nwlive[t] = 1; S.nwcnt[t] = cnt; S.nw2init[t] = 0;
			r = nsync_wait_n (S.mu, v_lock, v_unlock, deadline (o->dl), cnt, pwa);
			S.nwlive[t] = 0;
			if (S.picked[t] && r != 0) rt_violation ("O-ret", "an nsync_wait_n on a cv that a signal/broadcast had unlinked (consumed wake-up) returned %s instead of 0", r == cnt ? "count (timeout)" : "another index");
			if (S.nwrec[t]) rt_dead_mark ((char *) S.nwrec[t] - offsetof (struct nsync_waiter_s, waiting), sizeof (struct nsync_waiter_s) * (size_t) cnt, t, "nsync_wait_n record");
			S.ret[t] = r;
			if (r == cnt && !(o->dl > 0 && rt_now () >= RT_T0 + o->dl))
				rt_violation ("O-ret", "nsync_wait_n returned count (timeout) at clock %ld but its deadline is %d", (long) (rt_now () - RT_T0), o->dl);
			if (cnt == 2 && r == 1 && !S.notified) rt_violation ("O-ret", "nsync_wait_n returned the note's index but the note is not notified");
			if (rt_held_by (S.mu, t) != 1) rt_violation ("O-ret", "nsync_wait_n returned without the mutex held in write mode");
			break; }
		case O_SIGNAL: ip++; nsync_cv_signal (S.cv); break;
		case O_BROADCAST: ip++; nsync_cv_broadcast (S.cv); break;
		case O_DEBUG: { char buf[400]; ip++; nsync_mu_debug_state_and_waiters (S.mu, buf, (int) sizeof buf); break; }
		case O_DEBUGCV: { char buf[400]; ip++; nsync_cv_debug_state_and_waiters (S.cv, buf, (int) sizeof buf); break; }
		case O_NOTIFY: ip++; if (fine_notes) { S.notified = 1; nsync_note_notify (S.note); } else { rt_noyield_begin (); S.notified = 1; nsync_note_notify (S.note); rt_noyield_end (); } break;
		case O_DECREF: ip++; S.refs--; S.ret[t] = (S.refs == 0); break;
		case O_FREEIFLAST: ip++; if (S.ret[t] == 1) { S.word_at_free = *(volatile uint32_t *) &S.mu->word; S.mu_freed = 1; rt_free (S.mu); } break;
		default: ip++; break;
		}
	}
}

/* ---- scenario ---- */
static int find_op (const char *s, size_t n) {
	unsigned i;
	if (n == 4 && !strncmp (s, "gate", 4)) return O_GATE;
	if (n == 3 && !strncmp (s, "get", 3)) return O_GET;
	for (i = 0; i < sizeof opnames / sizeof opnames[0]; i++) if (strlen (opnames[i]) == n && strncmp (opnames[i], s, n) == 0) return (int) i;
	fprintf (stderr, "h_mu: unknown op %.*s\n", (int) n, s); exit (2);
}
/* init: NV=1 Binary=0 Loopers=2,3 conds=f.v.eq.cell,... progs=op.lt.c.dl.cn.v.x.skip,op...;op... */
static void parse_init (const char *init) {
	const char *p;
	int t;
	memset (&S, 0, sizeof S);
	p = strstr (init, "NV="); S.nv = p ? atoi (p + 3) : 1;
	p = strstr (init, "Binary="); S.binary = p ? atoi (p + 7) : 0;
	p = strstr (init, "Loopers=");
	if (p) { p += 8; while (*p && *p != ' ') { if (*p >= '1' && *p <= '8') S.looper[*p - '1'] = 1; p++; } }
	p = strstr (init, "conds=");
	if (p) {
		p += 6;
		while (*p && *p != ' ') {
			struct cond *c = &S.conds[S.nconds++];
			sscanf (p, "%d.%d.%d.%d", &c->f, &c->v, &c->eq, &c->cell);
			while (*p && *p != ',' && *p != ' ') p++;
			if (*p == ',') p++;
		}
	}
	p = strstr (init, "progs=");
	if (!p) { fprintf (stderr, "h_mu: no progs in init\n"); exit (2); }
	p += 6; t = 0;
	while (*p && *p != ' ' && *p != '\n') {
		const char *e = p;
		struct op *o;
		if (*p == ';') { t++; p++; continue; }
		if (*p == ',') { p++; continue; }
		if (*p == '-') { p++; continue; }   /* empty program */
		while (*e && *e != '.') e++;
		o = &S.prog[t][S.nops[t]++];
		o->op = find_op (p, (size_t) (e - p));
		sscanf (e, ".%d.%d.%d.%d.%d.%d.%d", &o->lt, &o->c, &o->dl, &o->cn, &o->v, &o->x, &o->skip);
		while (*p && *p != ',' && *p != ';' && *p != ' ' && *p != '\n') p++;
	}
	S.n = t + 1;
}
static char cur_init[4096];
static void setup (const char *init) {
	int i;
	if (strcmp (init, "=") != 0) snprintf (cur_init, sizeof cur_init, "%s", init);
	parse_init (cur_init);
	rt_binary_sem = S.binary;
	S.mu = rt_malloc (sizeof *S.mu); nsync_mu_init (S.mu); rt_name (S.mu, sizeof *S.mu, "mu");
	S.cv = rt_malloc (sizeof *S.cv); nsync_cv_init (S.cv); rt_name (S.cv, sizeof *S.cv, "cv");
	S.cells = rt_malloc (sizeof (int) * MAXV); memset (S.cells, 0, sizeof (int) * MAXV); rt_name (S.cells, sizeof (int) * MAXV, "cells");
	for (i = 0; i < S.nconds; i++) {
		S.conds[i].arg = rt_malloc (sizeof (struct condarg));
		S.conds[i].arg->cell = &S.cells[S.conds[i].cell - 1]; S.conds[i].arg->id = S.conds[i].v;
	}
	/* arguments with the same v are the same pointer */
	{ int j; for (i = 0; i < S.nconds; i++) for (j = 0; j < i; j++) if (S.conds[j].v == S.conds[i].v) { S.conds[i].arg = S.conds[j].arg; break; } }
	S.note = nsync_note_new (NULL, nsync_time_no_deadline);
	S.refs = S.n;
	nwtab = 0;
	for (i = 0; i < S.n; i++) { S.ret[i] = -1; rt_spawn (client, (void *) (long) i); }
}

/* scenario gates: a thread whose next operation is gate(k) starts only once k threads are queued (mutex + cv queues) */
static int replay_mode;
static int client_gate (int t) {
	struct op *o;
	int i, started = 0;
	if (replay_mode || rp_in_prefix) return 1;              /* the specification decides when a gate opens */
	if (S.ip[t] >= S.nops[t]) return 1;
	o = &S.prog[t][S.ip[t]];
	if (o->op != O_GATE) return 1;
	(void) i; (void) started;
	return S.nq >= o->x;
}

/* ---- projection ---- */
/* waiter structs are numbered in allocation order, as Mu.tla numbers them */
static int waiter_id (waiter *w) {
	int i;
	if (w == NULL) return 0;
	for (i = 0; i < nwtab; i++) if (wtab[i] == w) return i + 1;
	if (nwtab < 16) { wtab[nwtab++] = w; return nwtab; }
	return 99;
}
static void scan_waiters (void) { int i; for (i = 0; i < S.n; i++) waiter_id ((waiter *) rt_tls_waiter (i)); }
static int owner_of_waiter (waiter *w) { return waiter_id (w); }
static size_t put_queue (char *buf, size_t n, nsync_dll_list_ list) {
	size_t o = 0; int k = 0;
	nsync_dll_element_ *p;
	o += (size_t) snprintf (buf + o, n - o, "[");
	for (p = nsync_dll_first_ (list); p != NULL && k < 16; p = nsync_dll_next_ (list, p), k++) {
		struct nsync_waiter_s *nw = (struct nsync_waiter_s *) p->container;
		int id;
		if ((nw->flags & NSYNC_WAITER_FLAG_MUCV) != 0) id = owner_of_waiter (CONTAINER (waiter, nw, nw));
		else { int ow = rt_stack_owner (nw); id = ow >= 0 ? -(ow + 1) : -99; }
		o += (size_t) snprintf (buf + o, n - o, "%s%d", k ? "," : "", id);
	}
	o += (size_t) snprintf (buf + o, n - o, "]");
	return o;
}
#define PUTARR(name, expr) do { o += (size_t) snprintf (buf + o, n - o, " " name "=["); \
	for (i = 0; i < S.n; i++) o += (size_t) snprintf (buf + o, n - o, "%s%d", i ? "," : "", (int) (expr)); \
	o += (size_t) snprintf (buf + o, n - o, "]"); } while (0)
static void obs (char *buf, size_t n) {
	size_t o = 0; int i;
	uint32_t word, cvword;
	scan_waiters ();
	word = S.mu_freed ? S.word_at_free : *(volatile uint32_t *) &S.mu->word; cvword = *(volatile uint32_t *) &S.cv->word;
	o += (size_t) snprintf (buf + o, n - o, "word=%u q=", word);
	if ((word & MU_SPINLOCK) || S.mu_freed) o += (size_t) snprintf (buf + o, n - o, "[]"); else o += put_queue (buf + o, n - o, S.mu->waiters);
	o += (size_t) snprintf (buf + o, n - o, " cvword=%u cvq=", cvword);
	if (cvword & CV_SPINLOCK) o += (size_t) snprintf (buf + o, n - o, "[]"); else o += put_queue (buf + o, n - o, S.cv->waiters);
	PUTARR ("mw", waiter_id ((waiter *) rt_tls_waiter (i)));
	PUTARR ("waiting", i < nwtab ? *(volatile uint32_t *) &wtab[i]->nw.waiting : 0);
	PUTARR ("rmc", i < nwtab ? *(volatile uint32_t *) &wtab[i]->remove_count : 0);
	PUTARR ("nww", (S.nwrec[i] && S.nwlive[i]) ? *(volatile uint32_t *) S.nwrec[i] : 0);     /* the record exists only while its nsync_wait_n call is in progress */
	PUTARR ("nww2", (S.nwrec[i] && S.nwlive[i] && S.nwcnt[i] == 2 && S.nw2init[i]) ? *(volatile uint32_t *) ((char *) S.nwrec[i] + sizeof (struct nsync_waiter_s)) : 0);
	PUTARR ("sem", i < nwtab ? *(volatile int *) &wtab[i]->sem : 0);
	PUTARR ("held", rt_held_by (S.mu, i));
	o += (size_t) snprintf (buf + o, n - o, " data=[");
	for (i = 0; i < S.nv; i++) o += (size_t) snprintf (buf + o, n - o, "%s%d", i ? "," : "", S.cells[i]);
	o += (size_t) snprintf (buf + o, n - o, "] now=%ld note=%d", (long) (rt_now () - RT_T0), S.notified);
	PUTARR ("ret", S.ret[i]);
}

/* ---- lock-step ---- */
static const char *kind_of (const char *label) {
	size_t n = strlen (label);
	if (!strcmp (label, "c0")) return "c";
	if (n > 3 && !strcmp (label + n - 3, "_ld")) return "ld";
	if (n > 4 && !strcmp (label + n - 4, "_cas")) return "cas";
	if (n > 3 && !strcmp (label + n - 3, "_st")) return "st";
	if (n > 3 && !strcmp (label + n - 3, "_pd")) return "pd";
	if (n > 2 && !strcmp (label + n - 2, "_p")) return "p";
	if (n > 2 && !strcmp (label + n - 2, "_v")) return "v";
	if (n > 2 && !strcmp (label + n - 2, "_d")) return "d";
	if (n > 2 && !strcmp (label + n - 2, "_r")) return "region";
	if (n > 3 && !strcmp (label + n - 3, "_sw")) return "region";
	return NULL;
}
static int pre (int actor, const char *label, const char *prev, const char *exp, char *why, size_t whyn) {
	int t = actor - 1;
	const char *k = kind_of (label);
	(void) prev; (void) exp;
	if (rt_state (t) != F_PARKED) { snprintf (why, whyn, "spec: %s; the real thread is not at a scheduling point (state %d)", label, rt_state (t)); return -1; }
	if (k && strcmp (k, rt_kind_name (rt_pending (t)->kind)) != 0) {
		char fb[64];
		snprintf (why, whyn, "spec expects %s (%s); the real code is about to do %s in %s", label, k, rt_kind_name (rt_pending (t)->kind), rt_op_fn (rt_pending (t), fb, sizeof fb));
		return -1;
	}
	return 0;
}
static int in_list (nsync_dll_list_ l, void *nwp) { int k = 0; nsync_dll_element_ *p; for (p = nsync_dll_first_ (l); p != NULL && k < 32; p = nsync_dll_next_ (l, p), k++) if (p->container == nwp) return 1; return 0; }
static void count_queued (void) {
	int i;
	if (S.mu_freed) return;
	if ((*(volatile uint32_t *) &S.mu->word & MU_SPINLOCK) || (*(volatile uint32_t *) &S.cv->word & CV_SPINLOCK)) return;
	for (i = 0; i < S.n; i++) {
		struct op *o; waiter *w = (waiter *) rt_tls_waiter (i); int q = 0;
		if (S.counted[i] || S.cur_op[i] >= S.nops[i] || rt_state (i) == F_DONE) continue;
		o = &S.prog[i][S.cur_op[i]];
		if ((o->op == O_CVWAIT || o->op == O_CVLOOP) && w) q = in_list (S.cv->waiters, &w->nw);
		else if (o->op == O_MUWAIT && w) q = in_list (S.mu->waiters, &w->nw);
		else if ((o->op == O_WAITN || o->op == O_WAITNLOOP) && S.nwrec[i]) q = in_list (S.cv->waiters, (char *) S.nwrec[i] - offsetof (struct nsync_waiter_s, waiting));
		if (q) { S.counted[i] = 1; if (S.nq < S.n) S.nq++; }
	}
}
static void note_step (int t) {
	const struct rt_op *o = rt_last (t);
	char fb[64];
	count_queued ();
	if ((o->kind == OP_ST || o->kind == OP_LD) && o->addr && rt_stack_owner (o->addr) >= 0) {
		rt_op_fn (o, fb, sizeof fb);
		if (!strcmp (fb, "nsync_wait_n") || !strcmp (fb, "cv_enqueue") || !strcmp (fb, "cv_ready_time")) {
			int ow = rt_stack_owner (o->addr);
			if (!(S.nwlive[ow] && S.nwrec[ow])) S.nwrec[ow] = o->addr;        /* the first record (the cv's) of the call in progress */
			else if (o->kind == OP_ST && (char *) o->addr == (char *) S.nwrec[ow] + sizeof (struct nsync_waiter_s)) S.nw2init[ow] = 1;
		}
	}
	if (o->kind == OP_ST && o->a == 0 && o->addr) {
		/* a signaller that clears the waiting flag of another thread's nsync_wait_n record has unlinked it: it owes that call index 0 */
		int j;
		for (j = 0; j < S.n; j++) if (j != t && S.nwrec[j] == (nsync_atomic_uint32_ *) o->addr) {
			rt_op_fn (o, fb, sizeof fb);
			if (!strcmp (fb, "wake_non_native_waiter") || !strcmp (fb, "wake_waiters") || !strcmp (fb, "nsync_cv_signal") || !strcmp (fb, "nsync_cv_broadcast")) S.picked[j] = 1;
		}
	}
	if (o->kind == OP_CAS && o->ok && o->addr) {
		scan_waiters ();
		/* a signal/broadcast that bumps a waiter's remove_count has unlinked that waiter: it owes that wait a 0 result */
		rt_op_fn (o, fb, sizeof fb);
		if (!strcmp (fb, "nsync_cv_signal") || !strcmp (fb, "nsync_cv_broadcast")) {
			int i, j;
			for (i = 0; i < nwtab; i++) if ((char *) o->addr >= (char *) wtab[i] && (char *) o->addr < (char *) wtab[i] + sizeof (waiter))
				for (j = 0; j < S.n; j++) if (rt_tls_waiter (j) == (void *) wtab[i]) S.picked[j] = 1;
		}
	}
	if (o->kind == OP_SEMP && S.inlock[t]) {
		S.sleeps[t]++;
		if (S.sleeps[t] > maxsleeps) maxsleeps = S.sleeps[t];
		if (S.sleeps[t] > sb_limit)
			rt_violation ("O-starve", "thread %d has been sent back to sleep %d times inside one lock call (bound %d)", t + 1, S.sleeps[t], sb_limit);
	}
	if ((o->kind == OP_CAS && !o->ok) || o->kind == OP_SEMP || o->kind == OP_SEMPD || o->kind == OP_DELAY) rp_mark_nontrivial ();
}
static int dbg_steps;
static void post (int actor, const char *label) { (void) label; note_step (actor - 1);
	if (dbg_steps) { const struct rt_op *o = rt_last (actor - 1); char nb[64], fb[64]; fprintf (stderr, "step t%d %s %s a=%u b=%u r=%u ok=%d fn=%s word=0x%x now=%ld\n", actor, rt_kind_name (o->kind), o->addr ? rt_addr_name (o->addr, nb, sizeof nb) : "-", o->a, o->b, o->res, o->ok, rt_op_fn (o, fb, sizeof fb), S.mu_freed ? 0 : *(volatile uint32_t *) &S.mu->word, (long) (rt_now () - RT_T0)); } }
static void env (const char *label, const char *exp) { (void) exp; if (!strcmp (label, "Tick")) rt_tick (); }

/* a thread may legitimately stay asleep for ever only inside nsync_mu_wait on a condition that is false (nobody owes it a wake-up) */
static int legit_asleep (int i) {
	struct op *o;
	if (rt_state (i) == F_DONE || S.cur_op[i] >= S.nops[i]) return 0;
	o = &S.prog[i][S.cur_op[i]];
	if (o->op != O_MUWAIT || o->c == 0 || S.mu_freed) return 0;
	return *S.conds[o->c - 1].arg->cell == 0 && !rt_enabled (i);
}
static int victim_done (void) {
	int i;
	for (i = 0; i < S.n; i++) if (!S.looper[i] && rt_state (i) != F_DONE) return 0;
	return 1;
}
static int only_legit_sleepers (void) {
	int i, any = 0;
	for (i = 0; i < S.n; i++) if (!S.looper[i] && rt_state (i) != F_DONE) { if (!legit_asleep (i)) return 0; any = 1; }
	return any;
}
static int max_deadline (void) { int t, i, m = 0; for (t = 0; t < S.n; t++) for (i = 0; i < S.nops[t]; i++) if (S.prog[t][i].dl > m) m = S.prog[t][i].dl; return m; }
static unsigned long long fin_rng;
static void finish (int diverged) {
	long guard = 0;
	int i, progress;
	fin_rng = 0x2545F4914F6CDD1DULL;
	if (!diverged) {
		/* same state as the specification's: a terminal state in which somebody is still blocked is a hang */
		int timed = 0;
		for (i = 0; i < S.n; i++) if (rt_state (i) == F_PARKED && rt_pending (i)->kind == OP_SEMPD && rt_now () < RT_T0 + max_deadline ()) timed = 1;
		if (victim_done () || rt_any_enabled () || timed || only_legit_sleepers ()) return;
	}
	while (!victim_done () && guard++ < 200000 && !rt_first_violation ()) {
		/* run everything to completion under a FAIR schedule.  Strict round-robin is fair but periodic: three threads spinning on one
		   spinlock (a timed-out cv waiter re-checking under the cv spinlock, a waker, a second waiter) can fall into step so that the same
		   thread loses every time, for ever; no property speaks about such schedules.  So: rounds in a pseudo-random order, each enabled
		   thread once per round (still fair, deterministic given the state reached so far). */
		int order[RT_MAXT], k;
		progress = 0;
		for (i = 0; i < S.n; i++) order[i] = i;
		for (i = S.n - 1; i > 0; i--) { fin_rng ^= fin_rng << 13; fin_rng ^= fin_rng >> 7; fin_rng ^= fin_rng << 17; k = (int) ((fin_rng >> 11) % (unsigned) (i + 1)); { int x = order[i]; order[i] = order[k]; order[k] = x; } }
		for (k = 0; k < S.n; k++) { i = order[k]; if (rt_enabled (i) && !victim_done ()) { rt_grant (i); note_step (i); progress = 1; } }
		if (!progress) {
			if (rt_now () < RT_T0 + max_deadline () + 1) { rt_tick (); progress = 1; }
			else break;
		}
	}
	if (rt_first_violation ()) return;
	if (!victim_done () && !(guard < 200000 && only_legit_sleepers ())) {
		char b[300]; size_t o = 0;
		for (i = 0; i < S.n; i++) if (rt_state (i) != F_DONE) {
			char fb[64];
			o += (size_t) snprintf (b + o, sizeof b - o, " t%d:%s@%s", i + 1, rt_state (i) == F_BLOCKED ? "futex" : rt_kind_name (rt_pending (i)->kind), rt_op_fn (rt_pending (i), fb, sizeof fb));
		}
		if (guard >= 200000) rt_violation ("O-prog", "no termination within the step bound (livelock):%s word=0x%x", b, S.mu_freed ? 0 : *(volatile uint32_t *) &S.mu->word);
		else rt_violation ("O-prog", "threads are blocked for ever with nothing runnable (lost wake-up / deadlock):%s word=0x%x", b, S.mu_freed ? 0 : *(volatile uint32_t *) &S.mu->word);
	}
}

/* ---- random exploration (oracles only) + optional trace recording ---- */
static unsigned long long rng;
static unsigned rnd (void) { rng ^= rng << 13; rng ^= rng >> 7; rng ^= rng << 17; return (unsigned) (rng >> 11); }
static FILE *trace;
static void log_step (int t) {
	const struct rt_op *o = rt_last (t);
	char nb[64], fb[64];
	if (!trace) return;
	fprintf (trace, "{\"t\":%d,\"k\":\"%s\",\"o\":\"%s\",\"a\":%u,\"b\":%u,\"r\":%u,\"ok\":%d,\"mo\":%d,\"fn\":\"%s\",\"w\":%u,\"cw\":%u}\n",
		 t + 1, rt_kind_name (o->kind), o->addr ? rt_addr_name (o->addr, nb, sizeof nb) : "-", o->a, o->b, o->res, o->ok, o->mo,
		 rt_op_fn (o, fb, sizeof fb), S.mu_freed ? 0 : *(volatile uint32_t *) &S.mu->word, *(volatile uint32_t *) &S.cv->word);
}
static int run_random (long runs, unsigned seed, const char *init, const char *violdir, const char *prop) {
	long r, viols = 0, hung = 0, steps_total = 0, nontriv = 0;
	int maxdl;
	for (r = 0; r < runs && viols < 40 && rt_watchdog_hits < 3; r++) {     /* forty failing runs are enough (a livelock makes every run slow) */
		char *sched = NULL; size_t sl = 0; FILE *sf = open_memstream (&sched, &sl);
		long guard = 0;
		int pct_depth = (int) (r % 4);      /* 0: uniform random; 1..3: priority schedule with that many change points */
		int prio[RT_MAXT], chg[4], i, nchg = 0;
		rng = 88172645463325252ULL ^ ((unsigned long long) seed * 0x9E3779B97F4A7C15ULL) ^ ((unsigned long long) r * 0xD1B54A32D192ED03ULL);
		rt_reset ();
		setup (init);
		maxdl = max_deadline ();
		fprintf (sf, "T %ld %s\n", r + 1, init);
		for (i = 0; i < S.n; i++) prio[i] = (int) (rnd () % 1000) + 10;
		for (i = 0; i < pct_depth; i++) chg[nchg++] = (int) (rnd () % 400);
		while (!victim_done () && guard < 100000 && !rt_first_violation ()) {
			int cand[RT_MAXT], nc = 0, t;
			for (i = 0; i < S.n; i++) if (rt_enabled (i)) cand[nc++] = i;
			if ((nc == 0 || (rnd () % 16) == 0) && rt_timed_waiter_pending ()) {
				/* the clock advances only while somebody sleeps with a deadline still ahead (Mu.tla's TickUseful) */
				rt_tick (); fprintf (sf, "S 0 Tick *\n");
				if (trace) fprintf (trace, "{\"t\":0,\"k\":\"tick\",\"w\":0,\"cw\":0}\n");
				guard++; continue;
			}
			if (nc == 0) break;
			if (pct_depth == 0) t = cand[rnd () % (unsigned) nc];
			else {
				int best = -1;
				for (i = 0; i < nc; i++) {
					/* a thread spinning in a delay loop yields to the others */
					int p = prio[cand[i]] - ((rt_pending (cand[i])->kind == OP_DELAY) ? 2000 : 0);
					if (best < 0 || p > prio[best] - ((rt_pending (best)->kind == OP_DELAY) ? 2000 : 0)) best = cand[i];
					(void) p;
				}
				t = best;
				for (i = 0; i < nchg; i++) if (chg[i] == guard) prio[t] = -(i + 1);
			}
			rt_grant (t); note_step (t); log_step (t);
			fprintf (sf, "S %d * *\n", t + 1);
			guard++;
		}
		steps_total += guard;
		if (!rt_first_violation () && !victim_done ()) finish (1);
		if (trace) fprintf (trace, "{\"t\":0,\"k\":\"reset\",\"w\":0,\"cw\":0}\n");
		fclose (sf);
		if (rt_first_violation ()) {
			const struct rt_viol *v = rt_first_violation ();
			char path[512] = "-";
			viols++;
			if (violdir && rt_should_save (v->oracle)) {
				FILE *o;
				snprintf (path, sizeof path, "%s/%s_r%u_%ld.sched", violdir, prop, seed, viols);
				o = fopen (path, "w");
				if (o) { fputs (sched, o); fputs ("E\n", o); fclose (o); }
			}
			printf ("VIOL %s|%s|thread %d|step %ld|%s|%s\n", v->oracle, v->fn, v->tid, v->step, path, v->msg);
			if (!strcmp (v->oracle, "O-prog")) hung++;
		}
		free (sched);
		if (guard > 20) nontriv++;
	}
	printf ("STATS tours=%ld steps=%ld matched=%ld diverged=0 mismatches=0 violations=%ld nontrivial=%ld\n", r, steps_total, r - viols, viols, nontriv);
	printf ("MAXSLEEPS %d\n", maxsleeps);
	return viols ? 1 : 0;
}


/* ---- C14 adversary: a never-waited thread takes the mutex in every window between the victim's wake-up and its
   next attempt.  Thread 1 is the victim, the others (Loopers) barge.  Judged by O-starve only. ---- */
static int run_adversary (const char *init, const char *violdir, const char *prop) {
	long guard = 0;
	int i, rounds = 0;
	char *sched = NULL; size_t sl = 0; FILE *sf = open_memstream (&sched, &sl);
	rt_reset ();
	setup (init);
	fprintf (sf, "T 1 %s\n", init);
#define GRANT(t) do { rt_grant (t); note_step (t); fprintf (sf, "S %d * *\n", (t) + 1); guard++; } while (0)
	/* let a barger take the mutex first so that the victim has to queue */
	for (i = 1; i < S.n && rt_held_by (S.mu, i) == 0 && guard < 1000; ) { if (rt_enabled (i)) GRANT (i); else i++; }
	while (rt_state (0) != F_DONE && guard < 400000 && !rt_first_violation ()) {
		int progressed = 0;
		/* 1. the victim runs until it sleeps or finishes */
		while (rt_enabled (0) && rt_state (0) != F_DONE && guard < 400000 && !rt_first_violation ()) { GRANT (0); progressed = 1; }
		if (rt_state (0) == F_DONE) break;
		/* 2. bargers run until the victim has been woken (its semaphore posted) */
		for (i = 1; i < S.n && !rt_enabled (0) && guard < 400000; ) {
			if (rt_enabled (i)) { GRANT (i); progressed = 1; } else i++;
		}
		/* 3. a barger that has not waited grabs the mutex before the victim's next attempt */
		for (i = 1; i < S.n && guard < 400000; i++) {
			int k = 0;
			while (rt_enabled (i) && rt_held_by (S.mu, i) == 0 && k++ < 200) { GRANT (i); progressed = 1; }
			if (rt_held_by (S.mu, i) != 0) break;
		}
		rounds++;
		if (!progressed) break;
	}
	fclose (sf);
	if (!rt_first_violation () && rt_state (0) != F_DONE) {
		if (guard >= 400000) rt_violation ("O-starve", "victim still has not acquired after %d adversarial rounds (%d sleeps inside one lock call)", rounds, S.sleeps[0]);
		else finish (1);
	}
	printf ("MAXSLEEPS %d\n", maxsleeps);
	if (rt_first_violation ()) {
		const struct rt_viol *v = rt_first_violation ();
		char path[512] = "-";
		if (violdir) { FILE *o; snprintf (path, sizeof path, "%s/%s_adv_%d.sched", violdir, prop, (int) getpid ()); o = fopen (path, "w"); if (o) { fputs (sched, o); fputs ("E\n", o); fclose (o); } }
		printf ("VIOL %s|%s|thread %d|step %ld|%s|%s\n", v->oracle, v->fn, v->tid, v->step, path, v->msg);
		printf ("STATS tours=1 steps=%ld matched=0 diverged=0 mismatches=0 violations=1 nontrivial=1\n", guard);
		free (sched);
		return 1;
	}
	printf ("STATS tours=1 steps=%ld matched=1 diverged=0 mismatches=0 violations=0 nontrivial=1\n", guard);
	free (sched);
	return 0;
}

/* ---- C14 search: schedules that maximise the number of times thread 1 (the victim) is sent back to sleep inside one lock
   call.  Runs are deterministic functions of their choice sequence, so the search keeps the shortest prefix that reached the
   best score so far and continues from it (or from a slightly shortened copy) with fresh random choices.  Judged by O-starve. ---- */
#define CLIMB_MAX 400000
static int run_climb (long runs, unsigned seed, const char *init, const char *violdir, const char *prop) {
	static unsigned char best[CLIMB_MAX], cur[CLIMB_MAX];
	long bestn = 0, r, viols = 0, steps_total = 0;
	int bestscore = 0, i;
	for (r = 0; r < runs && !viols; r++) {
		long n = 0, cut = 0, extra;
		rng = 88172645463325252ULL ^ ((unsigned long long) seed * 0x9E3779B97F4A7C15ULL) ^ ((unsigned long long) r * 0xD1B54A32D192ED03ULL);
		rt_reset ();
		setup (init);
		if (bestn > 0 && (r % 8) != 0) { cut = bestn; if (rnd () % 3 == 0) cut -= (long) (rnd () % (unsigned) (bestn < 60 ? bestn : 60)); }
		for (n = 0; n < cut && !rt_first_violation (); n++) {
			int t = best[n];
			if (t == 255) rt_tick ();
			else { if (!rt_enabled (t)) break; rt_grant (t); note_step (t); }
			cur[n] = (unsigned char) t;
		}
		extra = n + 4000;
		while (!victim_done () && n < extra && n < CLIMB_MAX - 1 && !rt_first_violation ()) {
			int cand[RT_MAXT], nc = 0, t;
			for (i = 0; i < S.n; i++) if (rt_enabled (i)) cand[nc++] = i;
			if (nc == 0 && rt_timed_waiter_pending ()) { rt_tick (); cur[n++] = 255; continue; }
			if (nc == 0) break;
			/* the victim runs whenever it can with probability 1/2: a woken victim that is slow is not the interesting case */
			t = cand[rnd () % (unsigned) nc];
			rt_grant (t); note_step (t);
			cur[n++] = (unsigned char) t;
			if (S.sleeps[0] > bestscore) { bestscore = S.sleeps[0]; memcpy (best, cur, (size_t) n); bestn = n; extra = n + 4000; }
		}
		steps_total += n;
		if (!rt_first_violation () && !victim_done () && !rt_any_enabled () && !rt_timed_waiter_pending ()) finish (1);   /* everybody asleep: O-prog */
		if (rt_first_violation ()) {
			const struct rt_viol *v = rt_first_violation ();
			char path[512] = "-";
			viols++;
			if (violdir) {
				FILE *o;
				snprintf (path, sizeof path, "%s/%s_climb%u_%ld.sched", violdir, prop, seed, viols);
				o = fopen (path, "w");
				if (o) { long k; fprintf (o, "T %ld %s\n", r + 1, init); for (k = 0; k < n; k++) { if (cur[k] == 255) fprintf (o, "S 0 Tick *\n"); else fprintf (o, "S %d * *\n", cur[k] + 1); } fputs ("E\n", o); fclose (o); }
			}
			printf ("VIOL %s|%s|thread %d|step %ld|%s|%s\n", v->oracle, v->fn, v->tid, v->step, path, v->msg);
		}
	}
	printf ("STATS tours=%ld steps=%ld matched=%ld diverged=0 mismatches=0 violations=%ld nontrivial=%ld\n", r, steps_total, r - viols, viols, r);
	printf ("MAXSLEEPS %d\n", maxsleeps);
	return viols ? 1 : 0;
}

/* ---- coarse scripted schedules (variant probes): "<thread><cond>,..." with cond c = run the thread until it is parked at its next client
   point, b = until it cannot run (asleep), s = until it has just taken the mutex's spinlock by a successful CAS, f = until it has finished.
   Prints the final word and which threads are asleep. */
static int run_coarse (const char *init, const char *script, const char *violdir, const char *prop) {
	const char *p = script;
	int i;
	char *sched = NULL; size_t sl = 0; FILE *sf = open_memstream (&sched, &sl);
	rt_reset ();
	setup (init);
	fprintf (sf, "T 1 %s\n", init);
	while (*p) {
		int t = *p - '1'; char c = p[1]; long guard = 0;
		if (t < 0 || t >= S.n || !c) break;
		for (;;) {
			const struct rt_op *o;
			if (rt_state (t) == F_DONE || !rt_enabled (t) || guard++ > 5000 || rt_first_violation ()) break;
			rt_grant (t); note_step (t); fprintf (sf, "S %d * *\n", t + 1);
			o = rt_last (t);
			if (c == 'c' && rt_state (t) == F_PARKED && rt_pending (t)->kind == OP_CLIENT) break;
			if (c == 's' && o->kind == OP_CAS && o->ok && o->addr == (void *) &S.mu->word && (o->b & MU_SPINLOCK) != 0 && (o->a & MU_SPINLOCK) == 0) break;
		}
		p += 2; if (*p == ',') p++;
	}
	printf ("COARSE word=0x%x asleep=", *(volatile uint32_t *) &S.mu->word);
	for (i = 0; i < S.n; i++) if (rt_state (i) != F_DONE && !rt_enabled (i)) printf ("%d", i + 1);
	printf (" done=");
	for (i = 0; i < S.n; i++) if (rt_state (i) == F_DONE) printf ("%d", i + 1);
	printf ("\n");
	/* then everybody runs to completion: somebody left asleep who is owed a wake-up is a violation like in any other run */
	if (!rt_first_violation ()) finish (1);
	fclose (sf);
	if (rt_first_violation ()) {
		const struct rt_viol *v = rt_first_violation ();
		char path[512] = "-";
		if (violdir) {
			FILE *o;
			snprintf (path, sizeof path, "%s/%s_coarse_%d.sched", violdir, prop, (int) getpid ());
			o = fopen (path, "w");
			if (o) { fputs (sched, o); fputs ("E\n", o); fclose (o); }
		}
		printf ("VIOL %s|%s|thread %d|step %ld|%s|%s\n", v->oracle, v->fn, v->tid, v->step, path, v->msg);
	}
	free (sched);
	printf ("STATS tours=1 steps=0 matched=%d diverged=0 mismatches=0 violations=%d nontrivial=1\n", rt_first_violation () ? 0 : 1, rt_first_violation () ? 1 : 0);
	return rt_first_violation () ? 1 : 0;
}

int main (int argc, char **argv) {
	static struct rp_harness h = { setup, pre, env, obs, finish, post, NULL };
	struct rp_stats st;
	const char *prop = getenv ("VERIF_PROP") ? getenv ("VERIF_PROP") : "C01";
	if (getenv ("VERIF_SB")) sb_limit = atoi (getenv ("VERIF_SB"));
	dbg_steps = getenv ("VERIF_DEBUG") != NULL;
	if (argc < 3) { fprintf (stderr, "usage: h_mu replay <schedule> [violdir] | h_mu random <runs> <seed> <init> [violdir] [trace]\n"); return 2; }
	rt_init ();
	rt_sem_single_step = 1;
	rt_client_gate = client_gate;
	rt_track_stack_frames (1);
	if (getenv ("VERIF_HB")) rt_hb_enable (1);
	if (getenv ("VERIF_FINE")) { fine_notes = 1; rt_swc_region = 0; }
	rt_snapshot ();
	if (!strcmp (argv[1], "replay")) {
		FILE *f; replay_mode = 1; f = strcmp (argv[2], "-") ? fopen (argv[2], "r") : stdin;
		if (!f) { perror (argv[2]); return 2; }
		memset (&st, 0, sizeof st);
		rp_run (f, &h, &st, argc > 3 ? argv[3] : NULL, prop);
		rp_print_stats (&st, stdout);
		rp_print_ord (stdout);
		printf ("MAXSLEEPS %d\n", maxsleeps);
		return st.violations ? 1 : 0;
	}
	if (!strcmp (argv[1], "coarse") && argc >= 4) return run_coarse (argv[2], argv[3], argc > 4 ? argv[4] : NULL, prop);
	if (!strcmp (argv[1], "pb") && argc >= 5) {
		/* every schedule with at most <bound> preemptions after the saved prefix (rp_explore_pb) */
		FILE *f = fopen (argv[2], "r");
		long v;
		if (!f) { perror (argv[2]); return 2; }
		v = rp_explore_pb (f, &h, atoi (argv[3]), atol (argv[4]), argc > 5 ? argv[5] : NULL, prop, victim_done, 6000);
		printf ("MAXSLEEPS %d\n", maxsleeps);
		return v ? 1 : 0;
	}
	if (!strcmp (argv[1], "from") && argc >= 5) {
		/* continue a saved divergence prefix with random schedules */
		FILE *f = fopen (argv[2], "r");
		long v;
		if (!f) { perror (argv[2]); return 2; }
		v = rp_explore_from (f, &h, atol (argv[3]), (unsigned) atol (argv[4]), argc > 5 ? argv[5] : NULL, prop, victim_done, 6000);
		printf ("MAXSLEEPS %d\n", maxsleeps);
		return v ? 1 : 0;
	}
	if (!strcmp (argv[1], "adversary") && argc >= 3) return run_adversary (argv[2], argc > 3 ? argv[3] : NULL, prop);
	if (!strcmp (argv[1], "climb") && argc >= 5) return run_climb (atol (argv[2]), (unsigned) atol (argv[3]), argv[4], argc > 5 ? argv[5] : NULL, prop);
	if (!strcmp (argv[1], "random") && argc >= 5) {
		if (argc > 6) trace = fopen (argv[6], "w");
		return run_random (atol (argv[2]), (unsigned) atol (argv[3]), argv[4], argc > 5 ? argv[5] : NULL, prop);
	}
	return 2;
}
