/* Generic lock-step replay driver (spec -> code, DESIGN 3.3).
   Schedule file, one record per line:
     T <id> <init...>            start of a behaviour; <init> is handed to setup()
     S <actor> <label> <obs>     one spec step by thread <actor> (1-based; 0 = environment)
     E                           end of behaviour
   Before a step the harness may check that the parked operation is the one the label
   names; after it the projected state must equal <obs>. */
#ifndef VERIF_REPLAY_H_
#define VERIF_REPLAY_H_
#include <stdio.h>

struct rp_harness {
	void (*setup) (const char *init);
	/* returns: >=0 choice value to deliver with the grant; -1: the real thread cannot take this step (mismatch) */
	int (*pre) (int actor, const char *label, const char *prev_obs, const char *exp_obs, char *why, size_t whyn);
	void (*env) (const char *label, const char *exp_obs);
	void (*obs) (char *buf, size_t n);
	/* called at E.  diverged != 0: the run left the spec's behaviour; finish it and judge by oracles only */
	void (*finish) (int diverged);
	/* optional: called after each granted step (oracles that look at the last operation) */
	void (*post) (int actor, const char *label);
	/* optional: called after each granted step with the spec's expected observation
	   (lets the harness learn spec->code bindings such as waiter identities) */
	void (*learn) (int actor, const char *label, const char *exp_obs);
};

struct rp_stats {
	long tours, steps, matched_tours, diverged_tours, violations, mismatches;
	long nontrivial;           /* tours containing a contended step (harness sets rp_mark_nontrivial) */
	char first_mismatch[600];
	char first_violation[900];
	long first_violation_tour;
};

extern int rp_diverged;        /* the current behaviour has left the spec (set before pre()) */
extern int rp_in_prefix;       /* rp_explore_from is replaying the saved prefix (the specification's schedule), not yet exploring */
extern FILE *rp_replay_out;     /* where a failing behaviour is saved (schedule lines), or NULL */
void rp_mark_nontrivial (void);
void rp_note_label (const char *label, int mo, int fmo, int kind);   /* Ord extraction */
int rp_run (FILE *sched, const struct rp_harness *h, struct rp_stats *st, const char *viol_dir, const char *prop);
long rp_explore_from (FILE *sched, const struct rp_harness *h, long runs, unsigned seed, const char *viol_dir, const char *prop, int (*done) (void), long max_steps);
long rp_explore_pb (FILE *sched, const struct rp_harness *h, int bound, long max_runs, const char *viol_dir, const char *prop, int (*done) (void), long max_steps);   /* all schedules with at most `bound` preemptions */
void rp_print_stats (const struct rp_stats *st, FILE *out);
void rp_print_ord (FILE *out);
#endif
