/* The binary flavour of the per-thread semaphore (what platform/posix/src/nsync_semaphore_mutex.c provides: V sets the
   count to 1, it does not add), as a runtime-provided model: used in place of nsync_semaphore_futex.c by the link
   variant h_mub so that C01/C02 are explored for both flavours the platform layer allows.  The scheduler grants a P
   only when it can complete (count > 0, or the deadline of a timed P has passed). */
#include <errno.h>
#include <time.h>
#include "nsync_cpp.h"
#include "platform.h"
#include "compiler.h"
#include "cputype.h"
#include "nsync.h"
#include "sem.h"
#include "rt.h"
struct bsem { int i; };
void nsync_mu_semaphore_init (nsync_semaphore *s) { ((struct bsem *) s)->i = 0; }
void nsync_mu_semaphore_p (nsync_semaphore *s) {
	struct bsem *b = (struct bsem *) s;
	if (b->i <= 0) rt_violation ("O-harness", "binary semaphore P granted while the count is 0");
	b->i = 0;
}
int nsync_mu_semaphore_p_with_deadline (nsync_semaphore *s, nsync_time abs_deadline) {
	struct bsem *b = (struct bsem *) s;
	(void) abs_deadline;
	if (b->i > 0) { b->i = 0; return 0; }
	return ETIMEDOUT;       /* granted only because the deadline has passed */
}
void nsync_mu_semaphore_v (nsync_semaphore *s) { ((struct bsem *) s)->i = 1; }
