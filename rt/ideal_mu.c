/* The lock (and condition variable) the L2 harness gives to once.c / note.c / counter.c / wait.c /
   sem_wait.c in place of mu.c, mu_wait.c and cv.c (DESIGN 3.2a, spec/IdealMu.tla): what C01, C02,
   C04 and C06 establish for the real ones.  Each operation is ONE step of the scheduler:
     lock / rlock : enabled when the lock can be taken in that mode; the scheduler picks the next holder
     trylock      : never blocks; fails iff the lock cannot be taken
     unlock       : one step
     nsync_mu_wait(cond): if cond holds, no effect; else release, then one step enabled when the lock is
                    free and cond holds (evaluated with the lock logically held), which re-takes it
     cv wait      : release + enqueue in one step, then one step enabled when signalled (or deadline), which
                    re-takes the lock when it is free
   The mutex word is kept at 0: nothing in the code linked here may look at it. */
#define _GNU_SOURCE
#include <errno.h>
#include <stdint.h>
#include <stdio.h>
#include <string.h>
#include <time.h>
#include "nsync_cpp.h"
#include "platform.h"
#include "compiler.h"
#include "cputype.h"
#include "nsync.h"
#include "dll.h"
#include "sem.h"
#include "wait_internal.h"
#include "common.h"
#include "rt.h"

#define MAXIL 64
struct il { const void *mu; int writer; int readers; int holder_w; int rheld[RT_MAXT];
            int (*cond[RT_MAXT]) (const void *); const void *carg[RT_MAXT]; };
static struct il *tab;  /* lives in rt-persistent memory, cleared by rt_ideal_reset */
static int ntab;
struct icv { const void *cv; int waiting[RT_MAXT]; int signalled[RT_MAXT]; long seq[RT_MAXT]; long next; };
static struct icv *cvtab; static int ncv;

extern void AnnotateRWLockAcquired (const char *f, int l, void *mu, long w);
extern void AnnotateRWLockReleased (const char *f, int l, void *mu, long w);
extern void rt_hb_lock_acquire (const void *mu);
extern void rt_hb_lock_release (const void *mu);

void rt_ideal_reset (void) {
	static struct il t0[MAXIL]; static struct icv c0[16];
	tab = t0; cvtab = c0; ntab = 0; ncv = 0;
	memset (t0, 0, sizeof t0); memset (c0, 0, sizeof c0);
}
static struct il *get (const void *mu) {
	int i;
	if (!tab) rt_ideal_reset ();
	for (i = 0; i < ntab; i++) if (tab[i].mu == mu) return &tab[i];
	if (ntab >= MAXIL) { fprintf (stderr, "ideal_mu: too many locks\n"); _exit (2); }
	memset (&tab[ntab], 0, sizeof tab[0]); tab[ntab].mu = mu; tab[ntab].holder_w = -1;
	return &tab[ntab++];
}
static int can (struct il *l, int mode) { return mode == 1 ? (!l->writer && l->readers == 0) : !l->writer; }
/* used by rt_enabled() for fibers parked at OP_LOCK */
int rt_ideal_can_lock (void *mu, int mode, int tid) {
	struct il *l = get (mu);
	if (!can (l, mode & 3)) return 0;
	if (l->cond[tid] != NULL) return (*l->cond[tid]) (l->carg[tid]) != 0;
	return 1;
}
int rt_ideal_holder (const void *mu) { struct il *l = get (mu); return l->writer ? l->holder_w + 1 : 0; }
int rt_ideal_readers (const void *mu) { return get (mu)->readers; }

static void take (nsync_mu *mu, int mode) {
	struct il *l = get (mu);
	int t = rt_self ();
	rt_touch (mu, 1);   /* the real lock would CAS the word here: O-mem sees a lock taken in a freed note */
	if (!can (l, mode)) rt_violation ("O-harness", "ideal lock granted while unavailable");
	if (mode == 1) { l->writer = 1; l->holder_w = t; } else { l->readers++; if (t >= 0) l->rheld[t]++; }
	rt_hb_lock_acquire (mu);
	AnnotateRWLockAcquired (__FILE__, __LINE__, mu, mode == 1);
}
static void drop (nsync_mu *mu, int mode) {
	struct il *l = get (mu);
	int t = rt_self ();
	rt_touch (mu, 1);
	if (mode == 1) {
		if (!l->writer || l->holder_w != t) rt_violation ("O-crash", "nsync_mu_unlock of a mutex the thread does not hold in write mode");
		l->writer = 0; l->holder_w = -1;
	} else {
		if (l->readers <= 0 || (t >= 0 && l->rheld[t] <= 0)) rt_violation ("O-crash", "nsync_mu_runlock of a mutex the thread does not hold in read mode");
		else { l->readers--; if (t >= 0) l->rheld[t]--; }
	}
	AnnotateRWLockReleased (__FILE__, __LINE__, mu, mode == 1);
	rt_hb_lock_release (mu);
}

void nsync_mu_init (nsync_mu *mu) { memset ((void *) mu, 0, sizeof (*mu)); }
void nsync_mu_lock (nsync_mu *mu) { if (rt_self () >= 0) rt_region_begin2 (OP_LOCK, mu, "lock", 1); take (mu, 1); if (rt_self () >= 0) rt_region_end (); }
void nsync_mu_rlock (nsync_mu *mu) { if (rt_self () >= 0) rt_region_begin2 (OP_LOCK, mu, "rlock", 2); take (mu, 2); if (rt_self () >= 0) rt_region_end (); }
int nsync_mu_trylock (nsync_mu *mu) {
	int ok;
	rt_region_begin (OP_REGION, mu, "trylock");
	rt_touch (mu, 1);
	ok = can (get (mu), 1);
	if (ok) take (mu, 1);
	rt_region_end ();
	return ok;
}
int nsync_mu_rtrylock (nsync_mu *mu) {
	int ok;
	rt_region_begin (OP_REGION, mu, "rtrylock");
	rt_touch (mu, 1);
	ok = can (get (mu), 2);
	if (ok) take (mu, 2);
	rt_region_end ();
	return ok;
}
void nsync_mu_unlock (nsync_mu *mu) { if (rt_self () >= 0) rt_region_begin (OP_UNLOCK, mu, "unlock"); drop (mu, 1); if (rt_self () >= 0) rt_region_end (); }
void nsync_mu_runlock (nsync_mu *mu) { if (rt_self () >= 0) rt_region_begin (OP_UNLOCK, mu, "runlock"); drop (mu, 2); if (rt_self () >= 0) rt_region_end (); }
void nsync_mu_unlock_without_wakeup (nsync_mu *mu) { nsync_mu_unlock (mu); }
void nsync_mu_assert_held (const nsync_mu *mu) { if (!get (mu)->writer) nsync_panic_ ("nsync_mu not held in write mode\n"); }
void nsync_mu_rassert_held (const nsync_mu *mu) { struct il *l = get (mu); if (!l->writer && l->readers == 0) nsync_panic_ ("nsync_mu not held in some mode\n"); }
int nsync_mu_is_reader (const nsync_mu *mu) { return !get (mu)->writer; }

/* the pending operation's `a` field carries the mode so that rt_enabled can ask rt_ideal_can_lock */

int nsync_mu_wait_with_deadline (nsync_mu *mu, int (*condition) (const void *), const void *arg,
				 int (*eq) (const void *, const void *), nsync_time abs_deadline, nsync_note cancel_note) {
	struct il *l = get (mu);
	int t = rt_self ();
	int mode = l->writer ? 1 : 2;
	(void) eq; (void) abs_deadline; (void) cancel_note;   /* L2 code uses only nsync_mu_wait (no deadline, no note) */
	rt_region_begin (OP_REGION, mu, "muwait");
	if (condition == NULL || (*condition) (arg)) { rt_region_end (); return 0; }
	drop (mu, mode);
	rt_region_end ();
	l->cond[t] = condition; l->carg[t] = arg;
	rt_region_begin2 (OP_LOCK, mu, "muwait-wake", (unsigned) mode);
	l->cond[t] = NULL;
	take (mu, mode);
	rt_region_end ();
	return 0;
}
void nsync_mu_wait (nsync_mu *mu, int (*condition) (const void *), const void *arg, int (*eq) (const void *, const void *)) {
	nsync_mu_wait_with_deadline (mu, condition, arg, eq, nsync_time_no_deadline, NULL);
}

/* ---- ideal condition variable (used by once.c) ---- */
static struct icv *getcv (const void *cv) {
	int i;
	if (!tab) rt_ideal_reset ();
	for (i = 0; i < ncv; i++) if (cvtab[i].cv == cv) return &cvtab[i];
	memset (&cvtab[ncv], 0, sizeof cvtab[0]); cvtab[ncv].cv = cv;
	return &cvtab[ncv++];
}
void nsync_cv_init (nsync_cv *cv) { memset ((void *) cv, 0, sizeof (*cv)); }
/* enabledness of a fiber blocked in the ideal cv wait: signalled, or its deadline has passed; and the lock is free */
static int cv_deadline_passed (nsync_time d) {
	struct timespec now;
	extern int __wrap_clock_gettime (clockid_t, struct timespec *);
	if (d.tv_sec == nsync_time_no_deadline.tv_sec) return 0;
	__wrap_clock_gettime (0, &now);
	return now.tv_sec > d.tv_sec || (now.tv_sec == d.tv_sec && now.tv_nsec >= d.tv_nsec);
}
struct cvw { struct icv *c; int t; nsync_time d; };
static struct cvw cvwait_of[RT_MAXT];
static int cv_wake_ready (const void *arg) {
	const struct cvw *w = arg;
	return w->c->signalled[w->t] || cv_deadline_passed (w->d);
}
int nsync_cv_wait_with_deadline (nsync_cv *cv, nsync_mu *mu, nsync_time abs_deadline, nsync_note cancel_note) {
	struct icv *c = getcv (cv);
	struct il *l = get (mu);
	int t = rt_self (), r, mode = l->writer ? 1 : 2;
	(void) cancel_note;
	rt_region_begin (OP_REGION, cv, "cvwait");
	c->waiting[t] = 1; c->signalled[t] = 0;
	drop (mu, mode);
	rt_region_end ();
	cvwait_of[t].c = c; cvwait_of[t].t = t; cvwait_of[t].d = abs_deadline;
	l->cond[t] = cv_wake_ready; l->carg[t] = &cvwait_of[t];
	rt_region_begin2 (OP_LOCK, mu, "cvwait-wake", (unsigned) mode);
	l->cond[t] = NULL;
	r = c->signalled[t] ? 0 : ETIMEDOUT;
	c->waiting[t] = 0; c->signalled[t] = 0;
	take (mu, mode);
	rt_region_end ();
	return r;
}
void nsync_cv_wait (nsync_cv *cv, nsync_mu *mu) { nsync_cv_wait_with_deadline (cv, mu, nsync_time_no_deadline, NULL); }
void nsync_cv_broadcast (nsync_cv *cv) {
	struct icv *c = getcv (cv);
	int i;
	rt_region_begin (OP_REGION, cv, "broadcast");
	for (i = 0; i < RT_MAXT; i++) if (c->waiting[i]) c->signalled[i] = 1;
	rt_region_end ();
}
void nsync_cv_signal (nsync_cv *cv) {
	struct icv *c = getcv (cv);
	int i;
	rt_region_begin (OP_REGION, cv, "signal");
	for (i = 0; i < RT_MAXT; i++) if (c->waiting[i] && !c->signalled[i]) { c->signalled[i] = 1; break; }
	rt_region_end ();
}
int rt_ideal_cv_waiting (const void *cv, int t) { return getcv (cv)->waiting[t]; }
int rt_ideal_cv_signalled (const void *cv, int t) { return getcv (cv)->signalled[t]; }
