/* C17 harness: every transition of Dll.tla replayed on the real internal/dll.c.  After each
   operation the real list is traversed with nsync_dll_first_/next_ and nsync_dll_last_/prev_
   and compared with the abstract sequences of the specification (O-diff), and the raw
   pointers are compared with the specification's pointer state. */
#define _GNU_SOURCE
#include <stdio.h>
#include <stdlib.h>
#include <string.h>
#include "nsync_cpp.h"
#include "dll.h"
#include "rt.h"
#include "replay.h"

#define MAXE 16
#define MAXL 4
static nsync_dll_element_ el[MAXE + 1];
static nsync_dll_list_ L[MAXL + 1];
static int NE, NL;
static char why[400];

static int idx (nsync_dll_element_ *e) { return e == NULL ? 0 : (int) (e - el); }
static int geti (const char *s, const char *key, int d) { const char *p = strstr (s, key); return p ? atoi (p + strlen (key)) : d; }

static void setup (const char *init) {
	int i;
	NE = geti (init, "NE=", 5); NL = geti (init, "NL=", 2);
	for (i = 1; i <= NE; i++) nsync_dll_init_ (&el[i], &el[i]);
	for (i = 1; i <= NL; i++) L[i] = NULL;
}
static int pre (int actor, const char *label, const char *prev, const char *exp, char *w, size_t wn) { (void) actor; (void) label; (void) prev; (void) exp; (void) w; (void) wn; return 0; }
static void env (const char *label, const char *exp) { (void) label; (void) exp; }

/* traversal of list h into buf as [a,b,c]; returns 0 on a malformed list */
static int forward (int h, char *buf, size_t n) {
	nsync_dll_element_ *p; int k = 0; size_t o = 0;
	o += (size_t) snprintf (buf + o, n - o, "[");
	for (p = nsync_dll_first_ (L[h]); p != NULL && k <= NE; p = nsync_dll_next_ (L[h], p), k++)
		o += (size_t) snprintf (buf + o, n - o, "%s%d", k ? "," : "", idx (p));
	snprintf (buf + o, n - o, "]");
	return k <= NE;
}
static int backward_matches (int h) {
	int f[MAXE + 2], b[MAXE + 2], nf = 0, nb = 0, i;
	nsync_dll_element_ *p;
	for (p = nsync_dll_first_ (L[h]); p != NULL && nf <= NE; p = nsync_dll_next_ (L[h], p)) f[nf++] = idx (p);
	if (L[h] != NULL) for (p = nsync_dll_last_ (L[h]); p != NULL && nb <= NE; p = nsync_dll_prev_ (L[h], p)) b[nb++] = idx (p);
	if (nf != nb) return 0;
	for (i = 0; i < nf; i++) if (f[i] != b[nf - 1 - i]) return 0;
	if ((nsync_dll_is_empty_ (L[h]) != 0) != (nf == 0)) return 0;
	return 1;
}
static void obs (char *buf, size_t n) {
	size_t o = 0; int i; char t[128];
	o += (size_t) snprintf (buf + o, n - o, "L=[");
	for (i = 1; i <= NL; i++) o += (size_t) snprintf (buf + o, n - o, "%s%d", i > 1 ? "," : "", idx (L[i]));
	o += (size_t) snprintf (buf + o, n - o, "] nxt=[");
	for (i = 1; i <= NE; i++) o += (size_t) snprintf (buf + o, n - o, "%s%d", i > 1 ? "," : "", idx (el[i].next));
	o += (size_t) snprintf (buf + o, n - o, "] prv=[");
	for (i = 1; i <= NE; i++) o += (size_t) snprintf (buf + o, n - o, "%s%d", i > 1 ? "," : "", idx (el[i].prev));
	o += (size_t) snprintf (buf + o, n - o, "] S=[");
	for (i = 1; i <= NL; i++) { forward (i, t, sizeof t); o += (size_t) snprintf (buf + o, n - o, "%s%s", i > 1 ? "," : "", t); }
	snprintf (buf + o, n - o, "]");
}
static void finish (int diverged) { (void) diverged; }

/* C17 is decided by differential comparison: the driver below does not use fibers */
int main (int argc, char **argv) {
	FILE *f; char *line = NULL; size_t cap = 0;
	long tours = 0, steps = 0, matched = 0, viols = 0, ptrdiff = 0, nontriv = 0;
	int diverged = 0, in = 0, tour_nt = 0, tour_steps = 0; long tour_id = 0;
	char got[1024], first[900] = "", viol_path[512];
	char **cur = NULL; int ncur = 0, ccap = 0;
	(void) pre; (void) env; (void) finish;
	if (argc < 2) { fprintf (stderr, "usage: h_dll <schedule> [violdir]\n"); return 2; }
	f = strcmp (argv[1], "-") ? fopen (argv[1], "r") : stdin;
	if (!f) { perror (argv[1]); return 2; }
	while (getline (&line, &cap, f) > 0) {
		if (ncur == ccap) { ccap = ccap ? 2 * ccap : 256; cur = realloc (cur, sizeof (char *) * (size_t) ccap); }
		if (line[0] == 'T') {
			int i; for (i = 0; i < ncur; i++) free (cur[i]);
			ncur = 0; cur[ncur++] = strdup (line);
			tour_id = atol (line + 2);
			setup (line); in = 1; diverged = 0; tours++; tour_nt = 0; tour_steps = 0;
		} else if (line[0] == 'S' && in) {
			char label[64]; int off = 0, a, b, h; char op[32]; const char *exp;
			cur[ncur++] = strdup (line);
			if (sscanf (line, "S %*d %63s %n", label, &off) < 1) continue;
			line[strcspn (line, "\n")] = 0;
			exp = line + off;
			if (diverged) continue;
			steps++; if (++tour_steps >= 3) tour_nt = 1;
			if (sscanf (label, "%31[^:]:%d:%d", op, &a, &b) != 3) { fprintf (stderr, "bad label %s\n", label); return 2; }
			if (!strcmp (op, "remove")) L[a] = nsync_dll_remove_ (L[a], &el[b]);
			else if (!strcmp (op, "first")) L[a] = nsync_dll_make_first_in_list_ (L[a], &el[b]);
			else if (!strcmp (op, "last")) L[a] = nsync_dll_make_last_in_list_ (L[a], &el[b]);
			else if (!strcmp (op, "spliceloose") || !strcmp (op, "splicein")) { nsync_dll_splice_after_ (&el[a], &el[b]); tour_nt = 1; }
			else { fprintf (stderr, "bad op %s\n", op); return 2; }
			obs (got, sizeof got);
			why[0] = 0;
			for (h = 1; h <= NL; h++) if (!backward_matches (h)) snprintf (why, sizeof why, "list %d: backward traversal / emptiness disagrees with forward traversal after %s", h, label);
			if (!why[0] && !strcmp (op, "remove") && (el[b].next != &el[b] || el[b].prev != &el[b])) snprintf (why, sizeof why, "element %d is not a self-linked singleton after %s", b, label);
			if (!why[0]) {
				const char *es = strstr (exp, " S="), *gs = strstr (got, " S=");
				if (es && gs && strcmp (es, gs) != 0) snprintf (why, sizeof why, "after %s the traversals give%s but the abstract sequences are%s", label, gs, es);
			}
			if (why[0]) {
				diverged = 1; viols++;
				snprintf (viol_path, sizeof viol_path, "-");
				if (argc > 2 && viols <= 5) {
					FILE *o; int i;
					snprintf (viol_path, sizeof viol_path, "%s/C17_%ld.sched", argv[2], viols);
					o = fopen (viol_path, "w");
					if (o) { for (i = 0; i < ncur; i++) fputs (cur[i], o); fputs ("\nE\n", o); fclose (o); }
				}
				printf ("VIOL O-diff|%s|thread 0|step %ld|%s|%s\n", op, steps, viol_path, why);
			} else if (strcmp (got, exp) != 0) {
				diverged = 1; ptrdiff++;
				if (!first[0]) snprintf (first, sizeof first, "tour %ld label %s: pointer state differs: spec {%s} code {%s}", tour_id, label, exp, got);
			}
		} else if (line[0] == 'E' && in) {
			in = 0;
			if (!diverged) matched++;
			if (tour_nt) nontriv++;
		}
	}
	printf ("STATS tours=%ld steps=%ld matched=%ld diverged=%ld mismatches=%ld violations=%ld nontrivial=%ld\n", tours, steps, matched, tours - matched, ptrdiff, viols, nontriv);
	if (first[0]) printf ("MISMATCH %s\n", first);
	return viols ? 1 : 0;
}
