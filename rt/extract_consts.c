/* Prints, as JSON, the constants Mu.tla takes from the build under test (DESIGN 3.5): bit masks of
   common.h, the run-time contents of the two lock_type tables, LONG_WAIT_THRESHOLD. */
#include "nsync_cpp.h"
#include "platform.h"
#include "compiler.h"
#include "cputype.h"
#include "nsync.h"
#include "dll.h"
#include "sem.h"
#include "wait_internal.h"
#include "common.h"
#include "atomic.h"
#include <stdio.h>
void nsync_yield_ (void) {}
void *nsync_per_thread_waiter_ (void (*d) (void *)) { return 0; }
void nsync_set_per_thread_waiter_ (void *v, void (*d) (void *)) {}
void nsync_mu_semaphore_init (nsync_semaphore *s) {}
nsync_dll_list_ nsync_dll_make_first_in_list_ (nsync_dll_list_ l, nsync_dll_element_ *e) { return l; }
nsync_dll_list_ nsync_dll_remove_ (nsync_dll_list_ l, nsync_dll_element_ *e) { return l; }
nsync_dll_element_ *nsync_dll_first_ (nsync_dll_list_ l) { return 0; }
void nsync_dll_init_ (nsync_dll_element_ *e, void *c) {}
static int partial;
static unsigned lo (uint32_t m) { return m & 0xff; }
static const char *hi (uint32_t m) { uint32_t h = m & 0xffffff00u; if (h != 0 && h != 0xffffff00u) partial = 1; return h ? "true" : "false"; }
static void lt (const char *name, lock_type *t) {
	if ((t->set_when_waiting | t->clear_on_acquire | t->clear_on_uncontended_release) & 0xffffff00u) partial = 1;
	printf ("\"%s\": {\"zlo\": %u, \"zhi\": %s, \"add\": %u, \"sww\": %u, \"coa\": %u, \"cour\": %u},\n", name,
		lo (t->zero_to_acquire), hi (t->zero_to_acquire), t->add_to_acquire, t->set_when_waiting, t->clear_on_acquire, t->clear_on_uncontended_release);
}
int main (void) {
	printf ("{\n");
	printf ("\"WLOCK\": %u, \"SPIN\": %u, \"WAITING\": %u, \"DESIG\": %u, \"CONDB\": %u, \"WRW\": %u, \"LONGW\": %u, \"ALLF\": %u, \"RLOCK\": %u,\n",
		MU_WLOCK, MU_SPINLOCK, MU_WAITING, MU_DESIG_WAKER, MU_CONDITION, MU_WRITER_WAITING, MU_LONG_WAIT, MU_ALL_FALSE, MU_RLOCK);
	printf ("\"WZLO\": %u, \"WZHI\": %s, \"RZLO\": %u, \"RZHI\": %s,\n", lo (MU_WZERO_TO_ACQUIRE), hi (MU_WZERO_TO_ACQUIRE), lo (MU_RZERO_TO_ACQUIRE), hi (MU_RZERO_TO_ACQUIRE));
	printf ("\"WADD\": %u, \"RADD\": %u, \"WCOA\": %u, \"RCOA\": %u,\n", MU_WADD_TO_ACQUIRE, MU_RADD_TO_ACQUIRE, MU_WCLEAR_ON_ACQUIRE, MU_RCLEAR_ON_ACQUIRE);
	lt ("LTW", nsync_writer_type_);
	lt ("LTR", nsync_reader_type_);
	printf ("\"CV_SPINLOCK\": %u, \"CV_NON_EMPTY\": %u,\n", CV_SPINLOCK, CV_NON_EMPTY);
	printf ("\"K\": %d, \"partial\": %d\n}\n", LONG_WAIT_THRESHOLD, partial);
	return 0;
}
