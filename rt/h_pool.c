/* Harness for Pool.tla: the real nsync_waiter_new_ / nsync_waiter_free_ / waiter_destroy of internal/common.c with every atomic
   operation on the free-list spinlock (and every spin delay) a scheduling point.  (In the other harnesses these functions run
   atomically, see rt.c __wrap_nsync_waiter_new_.)  Lock-step replay of Pool.tla behaviours; random schedules. */
#define _GNU_SOURCE
#include <stdio.h>
#include <stdlib.h>
#include <string.h>
#include <unistd.h>
#include "nsync_cpp.h"
#include "platform.h"
#include "compiler.h"
#include "cputype.h"
#include "nsync.h"
#include "dll.h"
#include "sem.h"
#include "wait_internal.h"
#include "common.h"
#include "rt.h"
#include "replay.h"

waiter *__real_nsync_waiter_new_ (void);
void __real_nsync_waiter_free_ (waiter *w);

#define MAXOPS 12
#define MAXW 16
static struct {
	int n; int nops[RT_MAXT]; int prog[RT_MAXT][MAXOPS];     /* 1 = new, 2 = free */
	waiter *held[RT_MAXT][MAXOPS]; int nheld[RT_MAXT];
	waiter *wtab[MAXW]; int nw;                               /* waiters in allocation order: id = index + 1 */
	nsync_atomic_uint32_ *spin; nsync_dll_list_ *freeq; int maxw;
} S;

static int id_of (const void *w) {
	int i;
	if (!w) return 0;
	for (i = 0; i < S.nw; i++) if ((void *) S.wtab[i] == w) return i + 1;
	if (S.nw < MAXW) { S.wtab[S.nw++] = (waiter *) w; return S.nw; }
	return 99;
}
/* nsync's own allocation hook (common.c nsync_malloc_ptr_): waiters get their ids in allocation order */
extern void *(*nsync_malloc_ptr_) (size_t size);
static void *pool_malloc (size_t n) {
	void *p = rt_malloc (n);
	memset (p, 0, n);
	if (S.nw < MAXW) S.wtab[S.nw++] = (waiter *) p;
	return p;
}
static void client (void *arg) {
	int t = (int) (long) arg, ip;
	for (ip = 0;; ip++) {
		rt_point ("c0");
		if (ip >= S.nops[t]) break;
		if (S.prog[t][ip] == 3) {
			/* the thread's waiter destructor runs (thread-local destructors run in no particular order): nsync calls may follow */
			rt_run_tls_dest_fine ();
		} else if (S.prog[t][ip] == 1) {
			waiter *w = __real_nsync_waiter_new_ ();
			int u, k;
			id_of (w);
			for (u = 0; u < S.n; u++) for (k = 0; k < S.nheld[u]; k++) if (S.held[u][k] == w)
				rt_violation ("O-excl", "nsync_waiter_new_ gave thread %d the waiter that thread %d is still using", t + 1, u + 1);
			for (u = 0; u < S.n; u++) if (u != t && rt_tls_waiter (u) == (void *) w)
				rt_violation ("O-excl", "nsync_waiter_new_ gave thread %d the waiter that is reserved as thread %d's own", t + 1, u + 1);
			if ((w->flags & WAITER_IN_USE) == 0) rt_violation ("O-excl", "nsync_waiter_new_ returned a waiter not marked in use");
			S.held[t][S.nheld[t]++] = w;
		} else if (S.nheld[t] > 0) {
			waiter *w = S.held[t][--S.nheld[t]];
			__real_nsync_waiter_free_ (w);
		}
	}
	rt_point ("cx");
	rt_run_tls_dest_fine ();
}
static char cur_init[1024];
static void setup (const char *init) {
	const char *p; int t = 0, i;
	if (strcmp (init, "=") != 0) snprintf (cur_init, sizeof cur_init, "%s", init);
	memset (&S, 0, sizeof S);
	p = strstr (cur_init, "progs=");
	if (!p) { fprintf (stderr, "h_pool: no progs\n"); exit (2); }
	for (p += 6; *p && *p != ' ' && *p != '\n'; p++) {
		if (*p == ';') t++;
		else if (*p == 'n') S.prog[t][S.nops[t]++] = 1;
		else if (*p == 'f') S.prog[t][S.nops[t]++] = 2;
		else if (*p == 'x' || *p == 'e') S.prog[t][S.nops[t]++] = 3;
	}
	S.n = t + 1;
	p = strstr (cur_init, "MaxW="); S.maxw = p ? atoi (p + 5) : 4;
	nsync_malloc_ptr_ = pool_malloc;
	{ static void *a_spin, *a_free; if (!a_spin) { a_spin = rt_data_sym ("free_waiters_mu"); a_free = rt_data_sym ("free_waiters"); } S.spin = a_spin; S.freeq = a_free; }
	/* the thread-local flavour of common.c keeps the thread's waiter in waiter_for_thread (an ordinary static in this build: tools/vbuild.py
	   flavour ctls): one value per fiber */
	{ static void **a_tls; static int looked; if (!looked) { a_tls = rt_data_sym ("waiter_for_thread"); looked = 1; } rt_fiber_word = a_tls; if (a_tls) *a_tls = NULL; }
	if (!S.spin || !S.freeq) { fprintf (stderr, "h_pool: free_waiters / free_waiters_mu not found in the symbol table\n"); exit (2); }
	rt_hb_track (S.freeq, sizeof *S.freeq);     /* the list head is a static of common.c: part of what the spinlock must order (C03) */
	for (i = 0; i < S.n; i++) rt_spawn (client, (void *) (long) i);
}
static const char *kind_of (const char *label) {
	size_t n = strlen (label);
	if (!strcmp (label, "c0") || !strcmp (label, "cx")) return "c";
	if (n > 3 && !strcmp (label + n - 3, "_ld")) return "ld";
	if (n > 4 && !strcmp (label + n - 4, "_cas")) return "cas";
	if (n > 3 && !strcmp (label + n - 3, "_st")) return "st";
	if (n > 2 && !strcmp (label + n - 2, "_d")) return "d";
	return NULL;
}
static int pre (int actor, const char *label, const char *prev, const char *exp, char *why, size_t whyn) {
	int t = actor - 1;
	const char *k = kind_of (label);
	(void) prev; (void) exp;
	if (rt_state (t) != F_PARKED) { snprintf (why, whyn, "spec: %s; the real thread is not at a scheduling point", label); return -1; }
	if (k && strcmp (k, rt_kind_name (rt_pending (t)->kind)) != 0) {
		char fb[64];
		snprintf (why, whyn, "spec expects %s (%s); the real code is about to do %s in %s", label, k, rt_kind_name (rt_pending (t)->kind), rt_op_fn (rt_pending (t), fb, sizeof fb));
		return -1;
	}
	return 0;
}
static void oracles (void) {
	/* with the spinlock free the list is well formed: no waiter twice, none that a thread is using or owns */
	nsync_dll_element_ *p; int seen[MAXW + 1], k = 0, u, j;
	if (*(volatile uint32_t *) S.spin != 0) return;
	memset (seen, 0, sizeof seen);
	for (p = nsync_dll_first_ (*S.freeq); p != NULL && k < 64; p = nsync_dll_next_ (*S.freeq, p), k++) {
		waiter *w = CONTAINER (waiter, nw, (struct nsync_waiter_s *) p->container);
		int id = id_of (w);
		if (id <= MAXW) { if (seen[id]) rt_violation ("O-excl", "waiter %d is on the free list twice", id); seen[id] = 1; }
		for (u = 0; u < S.n; u++) {
			for (j = 0; j < S.nheld[u]; j++) if (S.held[u][j] == w) rt_violation ("O-excl", "waiter %d is on the free list while thread %d is using it", id, u + 1);
			if (rt_tls_waiter (u) == (void *) w) rt_violation ("O-excl", "waiter %d is on the free list while it is thread %d's own waiter", id, u + 1);
		}
	}
	if (k >= 64) rt_violation ("O-excl", "the free list does not end (corrupted links)");
}
static void post (int actor, const char *label) {
	const struct rt_op *o = rt_last (actor - 1);
	(void) label;
	if ((o->kind == OP_CAS && !o->ok) || o->kind == OP_DELAY) rp_mark_nontrivial ();
	oracles ();
}
static void env (const char *label, const char *exp) { (void) label; (void) exp; }
static void obs (char *buf, size_t n) {
	size_t o = 0; int i, k; nsync_dll_element_ *p;
	/* ids are assigned in allocation order: make every waiter reachable known before printing */
	o += (size_t) snprintf (buf + o, n - o, "spin=%u freeq=[", *(volatile uint32_t *) S.spin);
	if (*(volatile uint32_t *) S.spin == 0 || 1) {
		k = 0;
		for (p = nsync_dll_first_ (*S.freeq); p != NULL && k < 32; p = nsync_dll_next_ (*S.freeq, p), k++)
			o += (size_t) snprintf (buf + o, n - o, "%s%d", k ? "," : "", id_of (CONTAINER (waiter, nw, (struct nsync_waiter_s *) p->container)));
	}
	o += (size_t) snprintf (buf + o, n - o, "] tw=[");
	for (i = 0; i < S.n; i++) o += (size_t) snprintf (buf + o, n - o, "%s%d", i ? "," : "", id_of (rt_tls_waiter (i)));
	o += (size_t) snprintf (buf + o, n - o, "] nalloc=%d held=[", S.nw);
	for (i = 0; i < S.n; i++) {
		o += (size_t) snprintf (buf + o, n - o, "%s[", i ? "," : "");
		for (k = 0; k < S.nheld[i]; k++) o += (size_t) snprintf (buf + o, n - o, "%s%d", k ? "," : "", id_of (S.held[i][k]));
		o += (size_t) snprintf (buf + o, n - o, "]");
	}
	o += (size_t) snprintf (buf + o, n - o, "] res=[");
	for (i = 1; i <= S.maxw; i++) o += (size_t) snprintf (buf + o, n - o, "%s%d", i > 1 ? "," : "", i <= S.nw && (S.wtab[i - 1]->flags & WAITER_RESERVED) ? 1 : 0);
	o += (size_t) snprintf (buf + o, n - o, "] use=[");
	for (i = 1; i <= S.maxw; i++) o += (size_t) snprintf (buf + o, n - o, "%s%d", i > 1 ? "," : "", i <= S.nw && (S.wtab[i - 1]->flags & WAITER_IN_USE) ? 1 : 0);
	o += (size_t) snprintf (buf + o, n - o, "]");
}
static void finish (int diverged) {
	long guard = 0; int i, progress;
	if (!diverged && (rt_all_done () || rt_any_enabled ())) return;
	while (!rt_all_done () && guard++ < 100000 && !rt_first_violation ()) {
		progress = 0;
		for (i = 0; i < S.n; i++) if (rt_enabled (i)) { rt_grant (i); oracles (); progress = 1; }
		if (!progress) break;
	}
	if (rt_first_violation ()) return;
	if (!rt_all_done ()) rt_violation ("O-prog", guard >= 100000 ? "no termination within the step bound (spinlock never released?)" : "threads blocked for ever");
	else {
		/* NoLoss: every waiter ever allocated is back on the free list */
		int k = 0; nsync_dll_element_ *p;
		for (p = nsync_dll_first_ (*S.freeq); p != NULL && k < 64; p = nsync_dll_next_ (*S.freeq, p)) k++;
		if (k != S.nw) rt_violation ("O-lin", "%d waiters were allocated but %d are on the free list after every thread has exited", S.nw, k);
	}
}
int main (int argc, char **argv) {
	static struct rp_harness h = { setup, pre, env, obs, finish, post, NULL };
	struct rp_stats st;
	FILE *f;
	if (argc < 3) { fprintf (stderr, "usage: h_pool replay <schedule> [violdir] | h_pool from <prefix> <runs> <seed> [violdir]\n"); return 2; }
	rt_init ();
	rt_no_exit_dest = 1;
	if (getenv ("VERIF_HB")) rt_hb_enable (1);
	rt_snapshot ();
	memset (&st, 0, sizeof st);
	f = fopen (argv[2], "r");
	if (!f) { perror (argv[2]); return 2; }
	if (!strcmp (argv[1], "pb") && argc >= 5) return rp_explore_pb (f, &h, atoi (argv[3]), atol (argv[4]), argc > 5 ? argv[5] : NULL, getenv ("VERIF_PROP") ? getenv ("VERIF_PROP") : "C02", NULL, 20000) ? 1 : 0;
	if (!strcmp (argv[1], "from") && argc >= 5) return rp_explore_from (f, &h, atol (argv[3]), (unsigned) atol (argv[4]), argc > 5 ? argv[5] : NULL, "C02", NULL, 20000) ? 1 : 0;
	rp_run (f, &h, &st, argc > 3 ? argv[3] : NULL, getenv ("VERIF_PROP") ? getenv ("VERIF_PROP") : "C02");
	rp_print_stats (&st, stdout);
	rp_print_ord (stdout);
	return st.violations ? 1 : 0;
}
